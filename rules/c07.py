"""C07 — bytecode files: integrity gate before parsing, verifier structure, loader entry points, file-controlled
allocation / index / arithmetic sites reachable from the loader."""
import re
from collections import defaultdict
from lib.facts import CallGraph
from lib.mirq import Slice, calls_matching, edge_dominates, result_exits, switch_on_call_result

TECHNIQUE = ("MIR CFG must-precede (dominance) of the CRC verifier over the section parser at every loader entry, propagation of the verifier's Err edge, "
             "who-may-call for the parser, and an intra-procedural taint rule (file-derived values -> allocation sizes, indices, overflow-checked arithmetic) "
             "over every body reachable from the loader entries, with dominating-comparison discharge")
EXPLANATION = (
    "Decides the structural clauses of C07: (R1) every function that calls the section parser first calls the CRC verifier on the same reader, the call "
    "dominates the parser call and the verifier's Err is propagated (`?`), and the parser is only called from such gated entries; the verifier reads the "
    "last 4 bytes, hashes the rest and returns Err when they differ; (R3/R4) in every body reachable from the loader entries and from the constant "
    "decoder, a value read from the file (read_u*/from_le_bytes/header and table fields) never reaches an allocation size, a slice/Vec index or a "
    "panicking arithmetic assert without a dominating comparison of that value; undischarged sites are exact keyed findings. Not decided: the strength of "
    "CRC-32 itself, byte-exact re-encoding (value-level), mis-decoding without panic."
    " (R5) every `remaining < N => TruncatedInstruction` guard of decode_instructions asks for at most the bytes the opcode's arm consumes (opcodes a compiled program can contain only)."
    " (R1, extended) the verifier's mismatch edge ends in Err only and its match edge reaches Ok; (R6) check_alignment holds for every alignment the compiler can hand out and every offset that is a multiple of it."
    ' (R3/R4, field-sensitive) a bound established on a header or table field discharges only uses of that same field; a comparison of one field never discharges another.'
    ' (R7) record codecs agree field by field: each writer (header, const entry, symbol, dictionary, type entry, every instruction variant) writes its fields in the order and width the reader that rebuilds the record reads them, and the compile-side and load-side writers of one record agree.'
    " (R8) the compiler's align_up(len, align) is the smallest multiple of align >= len over the finite table of alignments and lengths, and the offset recorded in the constant entry is the padded offset."
    ' (R9) length prefixes measure the bytes they precede: a computed `write_uN(E)` directly followed by raw bytes B has E = len() of that byte sequence (UTF-8 length for strings).'
)

READ_SRC = re.compile(r"ReadBytesExt::read_u(8|16|32|64|128)$|ReadBytesExt::read_i(8|16|32|64)$|::from_le_bytes$|::from_le$|ReadBytesExt::read_f(32|64)$")
ALLOC = re.compile(r"alloc::vec::from_elem$|Vec::<T>::with_capacity$|Vec::<T, A>::with_capacity_in$|Vec::<T, A>::resize$|Vec::<T, A>::reserve$|String::with_capacity$|Vec::<T, A>::reserve_exact$|alloc::vec::Vec::<T>::with_capacity$")
INDEX = re.compile(r"core::ops::index::Index(Mut)?<I>>::index(_mut)?$")
PASS = re.compile(r"(::into$|::from$|::try_into$|::unwrap$|::expect$|::clone$|::branch$|::deref$|::borrow$|::as_ref$|::unwrap_or$|::min$|::max$|::saturating_sub$|::wrapping_add$|::wrapping_sub$|::wrapping_mul$|::checked_add$|::checked_mul$|::checked_sub$|::try_from$|::to_owned$|::len$)")
# header / table structs whose fields hold values read from the file
FILE_STRUCT = re.compile(r"ByteCodeHeader|ParsedConstEntry|ConstEntry|SymbolEntry|DictEntry|TypeEntry")


def tainted_locals(b):
    """locals that (transitively) hold a value derived from bytes of the file: results of read_u*/from_le_bytes,
    fields of header/table structs, and anything computed from those (intra-procedural, flow-insensitive)"""
    t = set()
    for i, ty in enumerate(b.locals):
        if FILE_STRUCT.search(ty) and not ty.startswith("core::result") and "Vec<" not in ty[:20]:
            t.add(i)
    changed = True
    n = 0
    while changed and n < 50:
        changed = False
        n += 1
        for blk in b.blocks:
            for s in blk["s"]:
                d = s["d"][0]
                if d in t:
                    continue
                for o in s.get("src", []):
                    if isinstance(o, list) and o[0] in t:
                        t.add(d)
                        changed = True
                        break
            term = blk["t"]
            if term["k"] == "call":
                d = term["d"][0]
                if d in t:
                    continue
                cal = term.get("f") or term["tf"]
                if READ_SRC.search(cal):
                    t.add(d)
                    changed = True
                elif PASS.search(cal) and any(isinstance(a, list) and a[0] in t for a in term["args"]):
                    t.add(d)
                    changed = True
    return t


def origin_places(b, local, defs=None, depth=0):
    """places (local, projection) a temporary is a plain copy/cast of (field-sensitive): `_5 = copy (_2.len)`, `_6 = _5 as usize`"""
    if defs is None:
        defs = defaultdict(list)
        for i, blk in enumerate(b.blocks):
            for s in blk["s"]:
                defs[s["d"][0]].append(s)
    out = set()
    if depth > 6:
        return out
    ds = defs.get(local, [])
    if len(ds) != 1:
        return out
    s = ds[0]
    if s.get("rk") in ("use", "cast") and s.get("src") and isinstance(s["src"][0], list):
        o = s["src"][0]
        if o[1]:
            out.add((o[0], o[1]))
        else:
            out |= origin_places(b, o[0], defs, depth + 1)
    return out


def compared_locals(b, taint):
    """for each block: set of tainted locals that have been tested by a comparison (switch on a bin Lt/Le/Gt/Ge/Eq/Ne result,
    or checked_* .is_none/None branch) on every path to that block.  Approximated by dominance: a comparison block
    dominates the use."""
    comps = []  # (block, set of locals compared)
    defs = defaultdict(list)
    for i, blk in enumerate(b.blocks):
        for s in blk["s"]:
            defs[s["d"][0]].append((i, s))
    for i, blk in enumerate(b.blocks):
        term = blk["t"]
        if term["k"] != "switch" or not isinstance(term["on"], list):
            continue
        on = term["on"][0]
        for bi, s in defs.get(on, []):
            if s.get("rk") == "bin" and s.get("op") in ("Lt", "Le", "Gt", "Ge", "Eq", "Ne"):
                ls = {o[0] for o in s["src"] if isinstance(o, list)}
                # a comparison with the constant 0 says nothing about an upper bound
                if any(isinstance(o, dict) and str(o.get("c", "")).split("_")[0] in ("0", "const 0") for o in s["src"]):
                    pl = set()
                else:
                    pl = set()
                    for o in s["src"]:
                        if isinstance(o, list):
                            pl |= origin_places(b, o[0])
                comps.append((i, ls, pl))
    return comps


def run(F, rep, tier):
    crate = "mech_core.lib"
    cg = CallGraph(F, [crate])
    bodies = F.bodies(crate)
    rep.rule("C07-R1", "CRC verifier call dominates the section parser call at every caller of the parser, on the same reader, and its Err edge is propagated; the parser has no ungated caller; the verifier compares the stored trailer with the hash of the rest and returns Err on mismatch")
    rep.rule("C07-R2", "the two encoders (CompileCtx::compile, ParsedProgram::to_bytes) write the same sections in the same order with item writers of identical layout; header writer, reader and HEADER_SIZE agree")
    rep.rule("C07-R3", "file-derived value used as a Vec/slice index or in overflow-checked arithmetic without a dominating comparison (panic site reachable from the loader)")
    rep.rule("C07-R4", "file-derived value used as an allocation size without a dominating comparison against a length derived from the input (unbounded allocation)")

    # ---- roles
    parsers = [b for b in bodies if any(s["adt"].endswith("::ParsedProgram") for _, s in b.aggs()) and calls_matching(b, r"Read::read_exact$|ReadBytesExt::read_u")]
    verifiers = [b for b in bodies if calls_matching(b, r"^crc32fast::") and calls_matching(b, r"ReadBytesExt::read_u32$|Read::read_exact$")
                 and not any(s["adt"].endswith("::ParsedProgram") for _, s in b.aggs()) and not calls_matching(b, r"WriteBytesExt::write_|Write::write_all$")]
    rep.floor("C07-R1", "section parser (constructs ParsedProgram from a reader)", len(parsers), 1)
    rep.floor("C07-R1", "CRC verifier (hashes what it reads, writes nothing)", len(verifiers), 1)
    if not parsers or not verifiers:
        return
    pnames = {p.fn for p in parsers}
    vnames = {v.fn for v in verifiers}
    entries = []
    for b in bodies:
        pc = [(i, t) for i, t in b.calls() if (t.get("f") or t["tf"]) in pnames]
        if pc and b.fn not in pnames:
            entries.append((b, pc))
    rep.floor("C07-R1", "callers of the section parser", len(entries), 2)
    for b, pc in entries:
        sl = Slice(b)
        vc = [(i, t) for i, t in b.calls() if (t.get("f") or t["tf"]) in vnames]
        ok_exits, err_exits = result_exits(b)
        for pi, pt in pc:
            key = "%s:crc-before-parse" % b.fn
            good = False
            why = "no call to the CRC verifier"
            for vi, vt in vc:
                if not b.dominates(vi, pi):
                    why = "the CRC verifier call (line %d) does not dominate the parser call (line %d)" % (vt["l"], pt["l"])
                    continue
                # same reader
                r1 = sl.locals_feeding(vt["args"][0]) & {v[0] for v in b.vars.values()}
                r2 = sl.locals_feeding(pt["args"][0]) & {v[0] for v in b.vars.values()}
                if not (r1 & r2):
                    why = "the verifier and the parser do not read the same reader"
                    continue
                # Err propagated: result -> Try::branch, and the parser call is dominated by the Continue edge
                d = vt["d"][0]
                br = [(i, t) for i, t in b.calls() if (t.get("f") or t["tf"]).endswith("Try>::branch") and any(isinstance(a, list) and a[0] == d for a in t["args"])]
                if not br:
                    why = "the verifier's result is not propagated with `?` (its Err is dropped)"
                    continue
                bi, bt = br[0]
                # the switch after branch: Break target must reach an err exit and not the parser call
                nb = bt.get("t")
                sw = b.blocks[nb]["t"] if nb is not None else None
                if not sw or sw["k"] != "switch":
                    why = "cannot find the `?` branch"
                    continue
                cont = [tg for v, tg in sw["targets"] if v == 0]
                brk = [tg for v, tg in sw["targets"] if v == 1] or [sw["else"]]
                if not cont:
                    cont = [sw["else"]]
                if not edge_dominates(b, nb, cont[0], pi):
                    why = "the parser call is reachable without passing the verifier's Ok edge"
                    continue
                reach_brk = b.reachable_from([brk[0]], avoid={cont[0]})
                if pi in reach_brk:
                    why = "the parser is still called when verification fails"
                    continue
                good = True
                break
            rep.check(good, "C07-R1", key, "%s calls the section parser (line %d) but %s: a file with a damaged body reaches the parser" % (b.fn, pt["l"], why),
                      "%s:%d" % (b.file, pt["l"]), sample={"entry": b.fn, "verifier_call_line": vc[0][1]["l"] if vc else None, "parser_call_line": pt["l"]})
    # verifier structure
    for v in verifiers:
        sl = Slice(v)
        ok_exits, err_exits = result_exits(v)
        hashes = calls_matching(v, r"^crc32fast::")
        reads = calls_matching(v, r"ReadBytesExt::read_u32$")
        # a comparison of the hash result with the stored value leading to both an Err and an Ok exit
        cmp_ok = False
        for i, blk in enumerate(v.blocks):
            for s in blk["s"]:
                if s.get("rk") == "bin" and s.get("op") in ("Ne", "Eq"):
                    roots = set()
                    for o in s["src"]:
                        roots |= {r[1] for r in sl.roots(o) if r[0] == "call"}
                    if any(r.startswith("crc32fast") for r in roots) and any(r.endswith("read_u32") for r in roots):
                        t = blk["t"]
                        if t["k"] == "switch":
                            false_t = [tgt for val, tgt in t.get("targets", []) if val == 0]
                            true_t = t.get("else")
                            if false_t and true_t is not None:
                                mismatch_t, match_t = (true_t, false_t[0]) if s["op"] == "Ne" else (false_t[0], true_t)
                                rm = v.reachable_from([mismatch_t])
                                rk = v.reachable_from([match_t])
                                # the mismatch edge must end in Err only, the match edge must be able to return Ok
                                if (rm & err_exits) and not (rm & ok_exits) and (rk & ok_exits):
                                    cmp_ok = True
        rep.check(cmp_ok, "C07-R1", "%s:compares-hash-with-trailer" % v.fn,
                  "the verifier does not branch to Err on (hash of the payload != stored trailer)", v.where(), sample={"hash_calls": len(hashes), "trailer_reads": len(reads)})
        # the hashed buffer length is total_len - 4 : from_elem size derives from a Sub with constant 4 of the length parameter
        sub4 = False
        for i, s in v.stmts():
            if s.get("rk") == "bin" and s.get("op") in ("Sub", "SubWithOverflow", "SubUnchecked") and any(isinstance(o, dict) and o.get("c") == "4" for o in s["src"]):
                sub4 = True
        rep.check(sub4, "C07-R1", "%s:hashes-all-but-trailer" % v.fn, "the verifier does not hash exactly len-4 bytes", v.where())

    # ---- R3/R4 taint over bodies reachable from the loader entries + constant decoder
    roots = [b.fn for b, _ in entries] + [b.fn for b in bodies if b.fn.endswith("decode_const_entries") or b.fn.endswith("::from_bytes") and "ParsedProgram" in b.fn]
    reach = cg.reach(roots)
    local = [cg.bodies[f] for f in reach if f in cg.bodies and not f.startswith("<") or (f in cg.bodies and ("ConstElem" in f or "program" in f))]
    seen_fn = set()
    n_sites = 0
    per_fn = defaultdict(list)
    for b in local:
        if b.fn in seen_fn:
            continue
        seen_fn.add(b.fn)
        if re.search(r"fmt::|Debug|Display|pretty|to_string|::write_|write_to|to_bytes|serialize|Serialize", b.fn):
            continue
        taint = tainted_locals(b)
        if not taint:
            continue
        comps = compared_locals(b, taint)
        sl = Slice(b, passthrough=PASS)

        def discharged(blk_i, locs):
            feeding = set()
            for l in locs:
                feeding |= sl.locals_feeding([l, ""]) | {l}
            places = set()
            for l in feeding:
                places |= origin_places(b, l)
            for ci, cl, pl in comps:
                if b.dominates(ci, blk_i) and ci != blk_i:
                    if cl & feeding & taint:
                        return True
                    if pl & places and any(p_[0] in taint for p_ in pl & places):
                        return True      # the same field of the same file structure was compared (through another temporary)
            return False
        for i, t in b.calls():
            cal = t.get("f") or t["tf"]
            if ALLOC.search(cal):
                size_args = [a for a in t["args"] if isinstance(a, list) and a[0] in taint and ("usize" in b.locals[a[0]] or "u64" in b.locals[a[0]] or "u32" in b.locals[a[0]])]
                if size_args:
                    n_sites += 1
                    ok = discharged(i, [a[0] for a in size_args])
                    per_fn[(b.fn, "alloc", cal.split("::")[-1], ok)].append(t["l"])
            elif INDEX.search(cal) and len(t["args"]) == 2:
                a = t["args"][1]
                if isinstance(a, list) and a[0] in taint and re.search(r"usize|Range", b.locals[a[0]]):
                    n_sites += 1
                    ok = discharged(i, [a[0]])
                    per_fn[(b.fn, "index", re.sub(r"^.*<(alloc::vec::Vec|\[T\]|std::collections::\w+::\w+::HashMap).*$", r"\1", cal)[:40], ok)].append(t["l"])
        for i, blk in enumerate(b.blocks):
            t = blk["t"]
            if t["k"] == "assert" and not blk["cl"]:
                locs = [o[0] for o in t["ops"] if isinstance(o, list)] + ([t["cond"][0]] if isinstance(t["cond"], list) else [])
                feeding = set()
                for l in locs:
                    feeding |= sl.locals_feeding([l, ""]) | {l}
                if feeding & taint:
                    n_sites += 1
                    ok = discharged(i, locs)
                    per_fn[(b.fn, "assert", t["msg"], ok)].append(t["l"])
    rep.floor("C07-R3", "file-derived allocation/index/arithmetic sites found under the loader", n_sites, 20)
    for (fn, kind, what, ok), lines in sorted(per_fn.items()):
        rule = "C07-R4" if kind == "alloc" else "C07-R3"
        b = cg.bodies[fn]
        key = "%s:%s:%s:x%d" % (fn, kind, what, len(lines))
        if ok:
            rep.ok(rule, key, sample={"fn": fn, "site": kind + " " + what, "lines": lines, "discharged_by": "dominating comparison on the file-derived value"})
        else:
            msgs = {"alloc": "allocation whose size comes from the file with no dominating bound: a crafted file (valid CRC) makes the loader allocate without bound / panic with capacity overflow",
                    "index": "index computed from file bytes with no dominating bounds comparison: a crafted file (valid CRC) panics the loader",
                    "assert": "overflow/zero-checked arithmetic on file bytes with no dominating comparison: a crafted file (valid CRC) panics the loader"}
            rep.bad(rule, key, "%s: %s `%s` at line(s) %s — %s" % (fn, kind, what, lines, msgs[kind]), "%s:%d" % (b.file, lines[0]))
    rep.analysed = {"crate": crate, "bodies": len(bodies), "loader_reachable_bodies": len(seen_fn), "entries": [b.fn for b, _ in entries],
                    "parser": sorted(pnames), "verifier": sorted(vnames), "tainted_sites": n_sites}


    # ---- R2 two encoders agree
    from lib import codec as C
    from lib import fxn as X
    encs = [b for b in bodies if re.search(r"CompileCtx::compile$|ParsedProgram::to_bytes$", b.fn)]
    if rep.check(len(encs) == 2, "C07-R2", "anchor:encoders", "expected the two encoders CompileCtx::compile and ParsedProgram::to_bytes, found %s" % [b.fn for b in encs]):
        core = F.syn(crate)
        wt = {}
        for it in core:
            if it["k"] == "method" and it["name"] == "write_to" and not it["trait"]:
                wt[X.type_head(it["self"])] = [w for w, _ in C.io_seq(it["body"], "write")]
        seqs = []
        for b in encs:
            seq = sorted((t["l"], (t.get("f") or t["tf"])) for i, t in b.calls()
                         if re.search(r"::write_to$|WriteBytesExt::write_|Write>::write_all$|::write_all$|^crc32fast", t.get("f") or t["tf"]))
            seqs.append([c for _, c in seq])
        a, b2 = seqs
        rep.check(len(a) == len(b2), "C07-R2", "same-number-of-section-writes", "the two encoders perform %d and %d section writes: %s vs %s" % (len(a), len(b2), [x.split("::")[-2:] for x in a], [x.split("::")[-2:] for x in b2]))
        for i, (x, y) in enumerate(zip(a, b2)):
            if x == y:
                rep.ok("C07-R2", "section-write-%d" % i, sample={"position": i, "writer": x})
                continue
            tx, ty = x.split("::")[-2], y.split("::")[-2]
            lx, ly = wt.get(tx) or [], wt.get(ty) or []
            # the re-encoder may carry extra arms (e.g. DecodedInstr::Unknown) after the shared ones: per-opcode agreement is C06-R4
            same = x.endswith("::write_to") and y.endswith("::write_to") and lx and ly and (lx == ly or ly[:len(lx)] == lx or lx[:len(ly)] == ly)
            rep.check(bool(same), "C07-R2", "section-write-%d" % i, "section write %d differs between the encoders: %s (%s) vs %s (%s)" % (i, x, wt.get(tx), y, wt.get(ty)),
                      sample={"position": i, "compile": x, "to_bytes": y, "layout": wt.get(tx)})
        # header: write_to widths == read_from widths == HEADER_SIZE
        hw = hr = None
        hsize = None
        for it in core:
            if it["k"] == "method" and X.type_head(it["self"]) == "ByteCodeHeader" and not it["trait"]:
                if it["name"] == "write_to":
                    hw = C.io_seq(it["body"], "write")
                if it["name"] == "read_from":
                    hr = C.io_seq(it["body"], "read")
            if it["k"] == "iconst" and it["name"] == "HEADER_SIZE" and X.type_head(it["self"]) == "ByteCodeHeader":
                try:
                    hsize = eval(re.sub(r"[^0-9+*() ]", "", __import__("lib.facts", fromlist=["render"]).render(it["val"])))
                except Exception:
                    hsize = None
        if rep.check(hw is not None and hr is not None, "C07-R2", "anchor:header-codec", "ByteCodeHeader::write_to / read_from not found"):
            def total(seq):
                t = 0
                for w, a_ in seq:
                    if w in C.W:
                        t += C.W[w]
                    elif w == "bytes":
                        m = re.search(r"magic", a_)
                        t += 4 if m else 0
                return t
            ww = [w for w, _ in hw if w in C.W]
            rr = [w for w, _ in hr if w in C.W]
            rep.check(ww == rr, "C07-R2", "header:write-read-widths", "header is written as %s but read as %s" % (ww, rr), sample={"widths": ww})
            if hsize is not None:
                rep.check(total(hw) == hsize, "C07-R2", "header:size-constant", "ByteCodeHeader::write_to writes %d bytes but HEADER_SIZE = %s" % (total(hw), hsize), sample={"written": total(hw), "HEADER_SIZE": hsize})
    run_r5(F, rep, crate, cg)
    run_r6(F, rep, crate, tier)
    from rules.c07_fields import run_r7, run_r8, run_r9
    run_r7(F, rep, crate)
    run_r8(F, rep, crate, tier)
    run_r9(F, rep, crate)
    from rules import c07_sizes
    c07_sizes.run(F, rep, F.syn(crate))


def _int_eval(e):
    from lib.facts import is_node
    if not is_node(e):
        return None
    if e[0] == "int":
        try:
            return int(re.sub(r"[^0-9].*$", "", str(e[1])))
        except ValueError:
            return None
    if e[0] == "paren":
        return _int_eval(e[1])
    if e[0] == "bin" and e[1] in ("+", "*", "-"):
        a, b = _int_eval(e[2]), _int_eval(e[3])
        if a is None or b is None:
            return None
        return a + b if e[1] == "+" else a * b if e[1] == "*" else a - b
    return None


def _err_guards(stmts, off):
    """top-level `if VAR < N { .. return Err .. }` statements -> [(var, N + offset(var), text)]"""
    from lib.facts import is_node, walk, render
    out = []
    for st in stmts:
        if st[0] != "expr" or not is_node(st[1]) or st[1][0] != "if":
            continue
        c = st[1][1]
        if not (is_node(c) and c[0] == "bin" and c[1] in ("<", "<=") and is_node(c[2]) and c[2][0] == "path"):
            continue
        if not any(n[0] == "ret" and n[1] is not None and render(n[1]).startswith("Err(") for s2 in st[1][2] for n in walk(s2)):
            continue
        v = c[2][1]
        n = _int_eval(c[3])
        if v in off and n is not None:
            out.append((v, n + off[v] + (1 if c[1] == "<=" else 0), render(c)))
        elif v in off:
            out.append((v, None, render(c)))
    return out


def run_r5(F, rep, crate, cg):
    """C07-R5: the instruction decoder's truncation guards ask for no more bytes than the instruction occupies"""
    from lib.facts import find, walk, is_node, render, render_pat, path_of, last_seg
    from lib import codec as C
    from lib import fxn as X
    rep.rule("C07-R5", "decode_instructions: every `remaining < N => TruncatedInstruction` guard asks for at most the bytes the opcode's arm consumes (a stricter guard rejects a valid emitted file that ends with that instruction)")
    core = F.syn(crate)
    dec = [it for it in core if it["k"] == "fn" and it["name"] == "decode_instructions"]
    if not rep.check(len(dec) == 1, "C07-R5", "anchor:decode_instructions", "decode_instructions not found"):
        return
    loops = list(find(dec[0]["body"], "while")) + list(find(dec[0]["body"], "loop"))
    if not rep.check(len(loops) >= 1, "C07-R5", "anchor:loop", "decode loop not found"):
        return
    body = loops[0][2] if loops[0][0] == "while" else loops[0][1]
    off = {}
    for st in body:
        if st[0] == "let" and st[1][0] == "pident" and st[2] is not None:
            txt = render(st[2])
            if re.search(r"len\(\)\s*-\s*\(?\w+", txt) and "position" not in txt.split("-")[0]:
                off[st[1][1]] = 0
            elif is_node(st[2]) and st[2][0] == "bin" and st[2][1] == "-" and is_node(st[2][2]) and st[2][2][0] == "path" and st[2][2][1] in off and _int_eval(st[2][3]) is not None:
                off[st[1][1]] = off[st[2][2][1]] + _int_eval(st[2][3])
    top = _err_guards(body, off)
    # which opcodes can a compiled program contain: EncodedInstr variant -> OpCode (from the encoder), emitted iff its emit_* method has a caller
    enc_op = {}
    for it in core:
        if it["k"] == "method" and it["name"] == "write_to" and X.type_head(it["self"]) == "EncodedInstr":
            for v, a in C.arms_of(it["body"], "EncodedInstr").items():
                ops = [re.search(r"OpCode::(\w+)", x[1]).group(1) for x in walk(a[2]) if x[0] == "path" and re.search(r"OpCode::(\w+)", x[1])]
                if ops:
                    enc_op[v] = ops[0]
    emitted = set()
    called = set()
    for c in sorted(set(X.FXN_CRATES) | {"mech_core.lib", "mech_interpreter.lib"}):
        for b in F.bodies(c):
            for _, t in b.calls():
                mm = re.search(r"CompileCtx::(emit_\w+)$", t.get("f") or t.get("tf") or "")
                if mm:
                    called.add(mm.group(1))
    for it in core:
        if it["k"] == "method" and it["name"].startswith("emit_") and X.type_head(it["self"]) == "CompileCtx":
            vs = {re.match(r"EncodedInstr::(\w+)", s[1]).group(1) for s in find(it["body"], "struct") if re.match(r"EncodedInstr::(\w+)", s[1])}
            if it["name"] in called:
                emitted |= {enc_op.get(v) for v in vs}
    rep.floor("C07-R5", "opcodes a compiled program can contain", len(emitted - {None}), 5)
    n = 0
    for m in find(body, "match"):
        arms = {}
        for a in m[2]:
            mm = re.search(r"OpCode::(\w+)", render_pat(a[0]))
            if mm:
                arms[mm.group(1)] = a
        if len(arms) < 5:
            continue
        for op, a in sorted(arms.items()):
            fixed = 0
            loop_nodes = [id(x) for lp in (list(find(a[2], "for")) + list(find(a[2], "while"))) for x in walk(lp)]
            for nnode in walk(a[2]):
                if nnode[0] == "mcall" and id(nnode) not in loop_nodes:
                    w = re.match(r"read_(u8|u16|u32|u64|i8|i16|i32|i64|f32|f64)$", nnode[2])
                    if w:
                        fixed += C.W[w.group(1)]
            has_loop = bool(loop_nodes)
            size = 1 + fixed
            stm = a[2][1] if is_node(a[2]) and a[2][0] == "block" else []
            for scope, guards in (("instruction", top if op in emitted else []), ("arm", _err_guards(stm, off))):
                for v, need, txt in guards:
                    n += 1
                    key = "%s:%s:%s" % (op, scope, v)
                    if need is None:
                        rep.ok("C07-R5", key, sample={"opcode": op, "guard": txt, "verdict": "bound depends on a decoded count"})
                        continue
                    rep.check(need <= size or (has_loop and False), "C07-R5", key,
                              "decode_instructions, opcode %s: the guard `%s` requires %d bytes from the start of the instruction, but the instruction occupies %d%s: a valid program that ends with this instruction is rejected as truncated" % (
                                  op, txt, need, size, " (+ its variable-length tail)" if has_loop else ""),
                              "decode_instructions (%s)" % crate, sample={"opcode": op, "guard": txt, "required": need, "instruction_bytes": size})
        break
    rep.floor("C07-R5", "truncation guards compared with instruction sizes", n, 5)


def run_r6(F, rep, crate, tier="quick"):
    """C07-R6: the loader's alignment test accepts every alignment the compiler hands out"""
    from lib.facts import find, walk, is_node, path_of, render, render_pat, last_seg
    from lib.minieval import ev, NoEval
    from lib import fxn as X
    rep.rule("C07-R6", "decode_const_entries: check_alignment(offset, align) holds for every alignment ValueKind::align()/ConstElem::align() can return and every offset that is a "
                       "multiple of it (decided over the finite table) - a stricter test rejects constants of files the compiler itself emitted")
    core = F.syn(crate)
    aligns = set()
    for it in core:
        if it["k"] == "method" and it["name"] == "align" and it.get("body"):
            for x in walk(it["body"]):
                if x[0] == "int":
                    try:
                        v = int(re.sub(r"[^0-9].*$", "", str(x[1])))
                        if 0 < v <= 64:
                            aligns.add(v)
                    except ValueError:
                        pass
    rep.floor("C07-R6", "distinct alignments the compiler can hand out", len(aligns), 4)
    fns = [it for it in core if it["k"] == "fn" and it["name"] == "check_alignment"]
    if not rep.check(len(fns) == 1, "C07-R6", "anchor:check_alignment", "check_alignment not found"):
        return
    it = fns[0]
    params = [p[0][1] for p in it["sig"]["inputs"] if is_node(p[0]) and p[0][0] == "pident"]
    consts = {}
    for c in core:
        if c["k"] == "const" and c.get("val") is not None:
            try:
                consts[c["name"]] = ev(c["val"], {})
            except NoEval:
                pass
    if not rep.check(len(params) == 2, "C07-R6", "anchor:signature", "check_alignment no longer takes (offset, align)"):
        return
    wrong = []
    n = 0
    try:
        for a in sorted(aligns):
            for off in ((0, a, 3 * a) if tier != "thorough" else [k * a for k in range(0, 64)]):
                env = dict(consts)
                env[params[0]] = off
                env[params[1]] = a
                result = None
                for st in it["body"]:
                    if st[0] == "let" and st[2] is not None and st[1][0] == "pident":
                        env[st[1][1]] = ev(st[2], env)
                    elif st[0] == "expr" and is_node(st[1]) and st[1][0] == "if":
                        if bool(ev(st[1][1], env)):
                            rets = [x for s2 in st[1][2] for x in walk(s2) if x[0] == "ret"]
                            tails = [s2[1] for s2 in st[1][2] if s2[0] == "expr" and not s2[2]]
                            val = rets[0][1] if rets else (tails[0] if tails else None)
                            result = ev(val, env) if val is not None else None
                            break
                    elif st[0] == "expr" and not st[2]:
                        result = ev(st[1], env)
                n += 1
                if result is not True:
                    wrong.append("align %d at offset %d -> %s" % (a, off, result))
    except NoEval as ex:
        rep.note("C07-R6-undecided", "check_alignment not interpretable: %s" % ex)
        return
    rep.check(not wrong, "C07-R6", "check_alignment:accepts-every-emitted-alignment" if not wrong else "check_alignment:rejects:%s" % ",".join(sorted({w.split()[1] for w in wrong})),
              "check_alignment rejects alignments the compiler hands out (%s; ValueKind::align returns %s): decode_const_entries fails with ConstantEntryAlignmentError on a file the compiler emitted" % (
                  "; ".join(wrong[:3]), sorted(aligns)), "check_alignment (%s)" % crate, sample={"alignments": sorted(aligns), "combinations": n})
