"""C07 — bytecode files: integrity gate before parsing, verifier structure, loader entry points, file-controlled
allocation / index / arithmetic sites reachable from the loader."""
import re
from collections import defaultdict
from lib.facts import CallGraph
from lib.mirq import Slice, calls_matching, edge_dominates, result_exits, switch_on_call_result
from lib import guardsum as G

TECHNIQUE = ("MIR CFG must-precede (dominance) of the CRC verifier over the section parser at every loader entry, propagation of the verifier's Err edge, "
             "who-may-call for the parser, and a taint rule (file-derived values -> allocation sizes, indices, overflow-checked arithmetic) "
             "over every body reachable from the loader entries, with dominating-comparison discharge; a comparison may sit in a private guard helper "
             "(guard summaries: which parameters are compared on every Ok return / by a bool predicate; success-edge dominance at the call), named constants are resolved; "
             "file-derived arguments are followed into the integer parameters of private helpers (unless compared before the call); an undischarged site in a private helper is "
             "keyed by the decoders that reach it through private helpers (multi-caller, once per call path); record codecs are read off bodies with their private helpers "
             "expanded, loops and iterator adapters (`for`, `try_for_each`, `map(..).collect()`, index loops) labelled `elem(collection)`")
EXPLANATION = (
    "Decides the structural clauses of C07: (R1) every function that calls the section parser first calls the CRC verifier on the same reader, the call "
    "dominates the parser call and the verifier's Err is propagated (`?`), and the parser is only called from such gated entries; the verifier reads the "
    "last 4 bytes, hashes the rest and returns Err when they differ; (R3/R4) in every body reachable from the loader entries and from the constant "
    "decoder, a value read from the file (read_u*/from_le_bytes/header and table fields) never reaches an allocation size, a slice/Vec index or a "
    "panicking arithmetic assert without a dominating comparison of that value; undischarged sites are exact keyed findings. Not decided: the strength of "
    "CRC-32 itself, byte-exact re-encoding (value-level), mis-decoding without panic."
    " (R5) every `remaining < N => TruncatedInstruction` guard of decode_instructions asks for at most the bytes the opcode's arm consumes (opcodes a compiled program can contain only)."
    " (R1, extended) the verifier's mismatch edge ends in Err only and its match edge reaches Ok; (R6) check_alignment holds for every alignment the compiler can hand out and every offset that is a multiple of it."
    ' (R3/R4, field-sensitive) a bound established on a header or table field discharges only uses of that same field; a comparison of one field never discharges another.'
    ' (R7) record codecs agree field by field: each writer (header, const entry, symbol, dictionary, type entry, every instruction variant) writes its fields in the order and width the reader that rebuilds the record reads them, and the compile-side and load-side writers of one record agree.'
    " (R8) the compiler's align_up(len, align) is the smallest multiple of align >= len over the finite table of alignments and lengths, and the offset recorded in the constant entry is the padded offset."
    ' (R9) length prefixes measure the bytes they precede: a computed `write_uN(E)` directly followed by raw bytes B has E = len() of that byte sequence (UTF-8 length for strings).'
    ' (R10) the tag tables of the file format (TypeTag, OpCode and every other repr(uN) enum with a from_uN decoder): reader arm `n => V` holds exactly when the discriminant of V - what every writer emits with `V as uN` - is n, and every variant has a reader arm, so decoding yields the type and opcode the compiler wrote.'
)

READ_SRC = re.compile(r"ReadBytesExt::read_u(8|16|32|64|128)$|ReadBytesExt::read_i(8|16|32|64)$|::from_le_bytes$|::from_le$|ReadBytesExt::read_f(32|64)$")
ALLOC = re.compile(r"alloc::vec::from_elem$|Vec::<T>::with_capacity$|Vec::<T, A>::with_capacity_in$|Vec::<T, A>::resize$|Vec::<T, A>::reserve$|String::with_capacity$|Vec::<T, A>::reserve_exact$|alloc::vec::Vec::<T>::with_capacity$")
INDEX = re.compile(r"core::ops::index::Index(Mut)?<I>>::index(_mut)?$")
PASS = re.compile(r"(::into$|::from$|::try_into$|::unwrap$|::expect$|::clone$|::branch$|::deref$|::borrow$|::as_ref$|::unwrap_or$|::min$|::max$|::saturating_sub$|::wrapping_add$|::wrapping_sub$|::wrapping_mul$|::checked_add$|::checked_mul$|::checked_sub$|::try_from$|::to_owned$|::len$)")
# header / table structs whose fields hold values read from the file
FILE_STRUCT = re.compile(r"ByteCodeHeader|ParsedConstEntry|ConstEntry|SymbolEntry|DictEntry|TypeEntry")


SKIP_FN = re.compile(r"fmt::|Debug|Display|pretty|to_string|::write_|write_to|to_bytes|serialize|Serialize")


def tainted_locals(b, seed=()):
    """locals that (transitively) hold a value derived from bytes of the file: results of read_u*/from_le_bytes,
    fields of header/table structs, and anything computed from those (intra-procedural, flow-insensitive).
    `seed`: parameters that receive a file-derived argument at a call site (only used for private guard helpers)"""
    t = set(seed)
    for i, ty in enumerate(b.locals):
        if FILE_STRUCT.search(ty) and not ty.startswith("core::result") and "Vec<" not in ty[:20]:
            t.add(i)
    changed = True
    n = 0
    while changed and n < 50:
        changed = False
        n += 1
        for blk in b.blocks:
            for s in blk["s"]:
                d = s["d"][0]
                if d in t:
                    continue
                for o in s.get("src", []):
                    if isinstance(o, list) and o[0] in t:
                        t.add(d)
                        changed = True
                        break
            term = blk["t"]
            if term["k"] == "call":
                d = term["d"][0]
                if d in t:
                    continue
                cal = term.get("f") or term["tf"]
                if READ_SRC.search(cal):
                    t.add(d)
                    changed = True
                elif PASS.search(cal) and any(isinstance(a, list) and a[0] in t for a in term["args"]):
                    t.add(d)
                    changed = True
    return t


def _int_width(ty):
    m = re.match(r"^[ui](8|16|32|64|128|size)$", ty)
    return None if not m else (64 if m.group(1) == "size" else int(m.group(1)))


def _value_chain(b, defs, local):
    """follow plain copies and non-narrowing integer casts of a temporary back to where its value is produced:
    returns (last local of the chain, the place it copies or None)"""
    for _ in range(10):
        ds = defs.get(local, [])
        if len(ds) != 1:
            return local, None
        s = ds[0][1]
        if s.get("k") == "call" or s.get("rk") not in ("use", "cast") or not s.get("src") or not isinstance(s["src"][0], list):
            return local, None
        o = s["src"][0]
        if s["rk"] == "cast":
            w_to, w_from = _int_width(b.locals[s["d"][0]]), _int_width(b.locals[o[0]]) if not o[1] else None
            if o[1] or w_to is None or w_from is None or w_to < w_from:
                return local, None
        if o[1]:
            return local, (o[0], o[1])
        local = o[0]
    return local, None


def sum_minus_addend(b, ops):
    """`a - b` cannot underflow when a is an overflow-checked sum `x + y` of unsigned values (the `Some` payload of checked_add, or the
    result of a checked `+`) and b is a copy of the same place as x or y: a - b is the other addend"""
    if len(ops) != 2 or not all(isinstance(o, list) and not o[1] for o in ops):
        return False
    if not all((_int_width(b.locals[o[0]]) and b.locals[o[0]].startswith("u")) for o in ops):
        return False
    defs = b.defs()
    la, pa = _value_chain(b, defs, ops[0][0])
    lb, pb = _value_chain(b, defs, ops[1][0])
    if pa is None or pb is None:
        return False
    src, proj = pa
    addends = []
    for _, d in defs.get(src, []):
        if d.get("k") == "call" and (d.get("f") or d["tf"]).endswith("::checked_add") and proj == "@Some.0":
            addends = d["args"]
        elif d.get("rk") == "bin" and d.get("op") == "AddWithOverflow" and proj == ".0":
            addends = d["src"]
    if len(defs.get(src, [])) != 1:
        return False
    for x in addends:
        if isinstance(x, list):
            _, px = _value_chain(b, defs, x[0]) if not x[1] else (None, (x[0], x[1]))
            if px is not None and px == pb:
                return True
    return False


def zero_tested(b, blk_i, feeding):
    """a division / remainder by a file-derived value cannot trap when a comparison of that value with 0 dominates it: `if d == 0 { leave }`
    (through another temporary copy of the same place), `match d { 0 => .., n => x % n }` (a switch on the value itself).  The general
    dominating-comparison discharge does not count comparisons with 0 by place, because they say nothing about an upper bound; for the
    zero check of a divisor they are exactly the bound that is needed."""
    want = set()
    for l in feeding:
        want |= G.origins(b, l) | {(l, "")}
    defs = G._stmt_defs(b)
    for j, blk in enumerate(b.blocks):
        term = blk["t"]
        if term["k"] != "switch" or not isinstance(term.get("on"), list) or j == blk_i or not b.dominates(j, blk_i):
            continue
        on = term["on"][0]
        if _int_width(b.locals[on]) and any(str(v) == "0" for v, _ in term.get("targets", [])):
            if (G.origins(b, on) | {(on, "")}) & want:
                return True
        for s in defs.get(on, []):
            if s.get("rk") == "bin" and s.get("op") in G.CMP_OPS and any(isinstance(o, dict) and str(o.get("c", "")).split("_")[0] in ("0", "const 0") for o in s["src"]):
                for o in s["src"]:
                    if isinstance(o, list) and (G.origins(b, o[0]) | {(o[0], "")}) & want:
                        return True
    return False


def _listed_keys(rep):
    """keys of the listed findings / reviewed sites of this property (exact keys)"""
    import json, os
    from lib.report import VERIF
    out = set(rep._reviewed())
    p = os.path.join(VERIF, "known_findings.json")
    if os.path.exists(p):
        for e in json.load(open(p))["findings"]:
            if e["property"] == rep.prop:
                out.add(e["key"])
    return out


def _rule_of(kind):
    return "C07-R4" if kind == "alloc" else "C07-R3"


def _site_key(fn, kind, what, n):
    return "%s|%s:%s:%s:x%d" % (_rule_of(kind), fn, kind, what, n)


def _has_listed_kind(listed, fn, kind, what):
    """some multiplicity of this (function, kind, callee) site class is a listed finding"""
    pre = "%s|%s:%s:%s:x" % (_rule_of(kind), fn, kind, what)
    return any(k.startswith(pre) and k[len(pre):].isdigit() for k in listed)


def _is_private_helper(cg, fn):
    b = cg.bodies.get(fn)
    return b is not None and not b.pub and not fn.startswith("<")


def _call_counts(cg, fns):
    """callee -> {caller: number of call sites} over the analysed bodies (same-crate callees only)"""
    ncalls = defaultdict(lambda: defaultdict(int))
    for fn in fns:
        b = cg.bodies.get(fn)
        if b is None:
            continue
        for _, t in b.calls():
            c = t.get("f") or t["tf"]
            if c in cg.bodies and c != b.fn:
                ncalls[c][b.fn] += 1
    return ncalls


def entry_callers(cg, ncalls, listed, fn, kind, what, levels=2):
    """{caller: multiplicity}: the functions that reach a site of the private helper `fn` through private helpers only (at most `levels`
    levels of them): climbing stops at a public function / trait method (a decoder entry point), at a function that has a listed finding of
    this site class, and at a function nobody calls.  The multiplicity is the number of call paths (a helper called twice in one decoder is
    two inlined copies of its block)."""
    out = defaultdict(int)

    def climb(f, depth, mult, path):
        for g, n in sorted(ncalls.get(f, {}).items()):
            if g in path:
                continue
            if _has_listed_kind(listed, g, kind, what) or not _is_private_helper(cg, g) or depth >= levels or not ncalls.get(g):
                out[g] += mult * n
            else:
                climb(g, depth + 1, mult * n, path | {g})
    climb(fn, 1, 1, {fn})
    return dict(out)


def reattribute_moved_sites(rep, cg, per_fn, analysed):
    """A site key names the function the site is in.  When a block that contains a LISTED undischarged site is extracted into a private
    helper, the same site would appear under the helper's name - once, even when the identical block was extracted from several decoders
    into ONE shared helper.  An undischarged group in a private helper whose own key is not listed is therefore tried under the names of the
    functions that reach it through private helpers only (`entry_callers`): every such caller inherits the helper's sites (once per call
    path) on top of its own undischarged sites of the same kind and callee.  If at least one caller's key is listed that way, the group is
    reported under its callers (a caller whose resulting key is not listed is a new violation under the CALLER's name); otherwise it stays
    under the helper's own name as before.  Nothing is hidden by this: an additional site or an additional call changes the count in the key."""
    listed = _listed_keys(rep)
    if not listed:
        return per_fn, {}
    ncalls = _call_counts(cg, analysed)
    cand = {}
    for (fn, kind, what, ok), lines in sorted(per_fn.items()):
        if ok or _site_key(fn, kind, what, len(lines)) in listed or not _is_private_helper(cg, fn):
            continue
        ec = entry_callers(cg, ncalls, listed, fn, kind, what)
        if ec:
            cand[(fn, kind, what)] = ec

    def merged(g, kind, what, groups):
        own = list(per_fn.get((g, kind, what, False), [])) if (g, kind, what) not in groups else []
        extra = []
        for (h, k2, w2) in sorted(groups):
            if k2 == kind and w2 == what and g in cand[(h, k2, w2)]:
                extra += per_fn[(h, k2, w2, False)] * cand[(h, k2, w2)][g]
        return own, extra
    targets = {(g, k, w) for (h, k, w), ec in cand.items() for g in ec}
    hit = set()
    for (g, k, w) in targets:
        own, extra = merged(g, k, w, set(cand))
        if _site_key(g, k, w, len(own) + len(extra)) in listed:
            hit.add((g, k, w))
    moving = {grp for grp, ec in cand.items() if any((g, grp[1], grp[2]) in hit for g in ec)}
    out = dict(per_fn)
    via = {}
    for (h, k, w) in moving:
        del out[(h, k, w, False)]
    for (g, k, w) in sorted(targets):
        own, extra = merged(g, k, w, moving)
        if not extra:
            continue
        out[(g, k, w, False)] = sorted(own + extra)
        via[(g, k, w)] = sorted({h for (h, k2, w2) in moving if k2 == k and w2 == w and g in cand[(h, k2, w2)]})
    for (h, k, w) in sorted(moving):
        rep.note("site-moved-into-helper", {"site": "%s %s" % (k, w), "helper": h, "reported_under": sorted(cand[(h, k, w)])})
    return out, via


def run(F, rep, tier):
    crate = "mech_core.lib"
    cg = CallGraph(F, [crate])
    bodies = F.bodies(crate)
    rep.rule("C07-R1", "CRC verifier call dominates the section parser call at every caller of the parser, on the same reader, and its Err edge is propagated; the parser has no ungated caller; the verifier compares the stored trailer with the hash of the rest and returns Err on mismatch")
    rep.rule("C07-R2", "the two encoders (CompileCtx::compile, ParsedProgram::to_bytes) write the same sections in the same order with item writers of identical layout; header writer, reader and HEADER_SIZE agree")
    rep.rule("C07-R3", "file-derived value used as a Vec/slice index or in overflow-checked arithmetic without a dominating comparison (panic site reachable from the loader)")
    rep.rule("C07-R4", "file-derived value used as an allocation size without a dominating comparison against a length derived from the input (unbounded allocation)")

    consts = G.Consts(F, crate)
    sums = G.Summaries(cg, consts)
    # ---- roles
    parsers = [b for b in bodies if any(s["adt"].endswith("::ParsedProgram") for _, s in b.aggs()) and calls_matching(b, r"Read::read_exact$|ReadBytesExt::read_u")]
    verifiers = [b for b in bodies if calls_matching(b, r"^crc32fast::") and calls_matching(b, r"ReadBytesExt::read_u32$|Read::read_exact$")
                 and not any(s["adt"].endswith("::ParsedProgram") for _, s in b.aggs()) and not calls_matching(b, r"WriteBytesExt::write_|Write::write_all$")]
    rep.floor("C07-R1", "section parser (constructs ParsedProgram from a reader)", len(parsers), 1)
    rep.floor("C07-R1", "CRC verifier (hashes what it reads, writes nothing)", len(verifiers), 1)
    if not parsers or not verifiers:
        return
    pnames = {p.fn for p in parsers}
    vnames = {v.fn for v in verifiers}
    entries = []
    for b in bodies:
        pc = [(i, t) for i, t in b.calls() if (t.get("f") or t["tf"]) in pnames]
        if pc and b.fn not in pnames:
            entries.append((b, pc))
    rep.floor("C07-R1", "callers of the section parser", len(entries), 2)
    for b, pc in entries:
        sl = Slice(b)
        vc = [(i, t) for i, t in b.calls() if (t.get("f") or t["tf"]) in vnames]
        ok_exits, err_exits = result_exits(b)
        for pi, pt in pc:
            key = "%s:crc-before-parse" % b.fn
            good = False
            why = "no call to the CRC verifier"
            for vi, vt in vc:
                if not b.dominates(vi, pi):
                    why = "the CRC verifier call (line %d) does not dominate the parser call (line %d)" % (vt["l"], pt["l"])
                    continue
                # same reader
                r1 = sl.locals_feeding(vt["args"][0]) & {v[0] for v in b.vars.values()}
                r2 = sl.locals_feeding(pt["args"][0]) & {v[0] for v in b.vars.values()}
                if not (r1 & r2):
                    why = "the verifier and the parser do not read the same reader"
                    continue
                # Err propagated: the parser call is dominated by the success edge of the verifier's result (`?` Continue edge, the Ok arm
                # of a match / if-let on it, or the fall-through of unwrap) and is unreachable from the failure side
                edges = sums.success_edges(b, vi, vt, "result")
                if not edges:
                    why = "the verifier's result is not propagated with `?` (its Err is dropped)"
                    continue
                passed = False
                for sw, okt in edges:
                    if not edge_dominates(b, sw, okt, pi):
                        why = "the parser call is reachable without passing the verifier's Ok edge"
                        continue
                    others = [x for x in b.succ(sw) if x != okt]
                    if pi in b.reachable_from(others, avoid={okt}):
                        why = "the parser is still called when verification fails"
                        continue
                    passed = True
                if not passed:
                    continue
                good = True
                break
            rep.check(good, "C07-R1", key, "%s calls the section parser (line %d) but %s: a file with a damaged body reaches the parser" % (b.fn, pt["l"], why),
                      "%s:%d" % (b.file, pt["l"]), sample={"entry": b.fn, "verifier_call_line": vc[0][1]["l"] if vc else None, "parser_call_line": pt["l"]})
    # verifier structure
    for v in verifiers:
        sl = Slice(v)
        ok_exits, err_exits = result_exits(v)
        hashes = calls_matching(v, r"^crc32fast::")
        reads = calls_matching(v, r"ReadBytesExt::read_u32$")
        # a comparison of the hash result with the stored value leading to both an Err and an Ok exit
        cmp_ok = False
        for i, blk in enumerate(v.blocks):
            for s in blk["s"]:
                if s.get("rk") == "bin" and s.get("op") in ("Ne", "Eq"):
                    roots = set()
                    for o in s["src"]:
                        roots |= {r[1] for r in sl.roots(o) if r[0] == "call"}
                    if any(r.startswith("crc32fast") for r in roots) and any(re.search(r"read_u32$|u32>?::from_[lb]e_bytes$", r) for r in roots):
                        t = blk["t"]
                        if t["k"] == "switch":
                            false_t = [tgt for val, tgt in t.get("targets", []) if val == 0]
                            true_t = t.get("else")
                            if false_t and true_t is not None:
                                mismatch_t, match_t = (true_t, false_t[0]) if s["op"] == "Ne" else (false_t[0], true_t)
                                rm = v.reachable_from([mismatch_t])
                                rk = v.reachable_from([match_t])
                                # the mismatch edge must end in Err only, the match edge must be able to return Ok
                                if (rm & err_exits) and not (rm & ok_exits) and (rk & ok_exits):
                                    cmp_ok = True
        rep.check(cmp_ok, "C07-R1", "%s:compares-hash-with-trailer" % v.fn,
                  "the verifier does not branch to Err on (hash of the payload != stored trailer)", v.where(), sample={"hash_calls": len(hashes), "trailer_reads": len(reads)})
        # the hashed buffer length is total_len - 4 : a subtraction of the constant 4 (literal or named constant) from the length parameter
        sub4 = False
        for i, s in v.stmts():
            if s.get("rk") == "bin" and s.get("op") in ("Sub", "SubWithOverflow", "SubUnchecked") and len(s["src"]) == 2 and consts.operand_int(s["src"][1]) == 4:
                sub4 = True
        for i, t in v.calls():
            if re.search(r"::(checked|saturating|wrapping)_sub$", t.get("f") or t["tf"]) and len(t["args"]) == 2 and consts.operand_int(t["args"][1]) == 4:
                sub4 = True
        rep.check(sub4, "C07-R1", "%s:hashes-all-but-trailer" % v.fn, "the verifier does not hash exactly len-4 bytes", v.where())

    # ---- R3/R4 taint over bodies reachable from the loader entries + constant decoder
    roots = [b.fn for b, _ in entries] + [b.fn for b in bodies if b.fn.endswith("decode_const_entries") or b.fn.endswith("::from_bytes") and "ParsedProgram" in b.fn]
    reach = cg.reach(roots)
    local = [cg.bodies[f] for f in reach if f in cg.bodies and not f.startswith("<") or (f in cg.bodies and ("ConstElem" in f or "program" in f))]
    seen_fn = set()
    n_sites = 0
    per_fn = defaultdict(list)

    def discharger(b, taint):
        """discharged(block, locals): a comparison of (a value feeding) one of the locals dominates the block"""
        tests = sums.tests(b)
        sl = Slice(b, passthrough=PASS)

        def discharged(blk_i, locs):
            feeding = set()
            for l in locs:
                feeding |= sl.locals_feeding([l, ""]) | {l}
            places = set()
            for l in feeding:
                places |= G.origins(b, l)
            for ts in tests:
                if not ts.dominates(blk_i):
                    continue
                if ts.locals & feeding & taint:
                    return True
                if any(p_[0] in taint for p_ in ts.places & places):
                    return True      # the same field of the same file structure was compared (through another temporary, or inside a guard helper)
            return False
        return discharged, sl

    def sites_of(b, taint):
        """[(kind, what, line, discharged)] of the allocation / index / checked-arithmetic sites of `b` that use a file-derived value"""
        out = []
        discharged, sl = discharger(b, taint)
        for i, t in b.calls():
            cal = t.get("f") or t["tf"]
            if ALLOC.search(cal):
                size_args = [a for a in t["args"] if isinstance(a, list) and a[0] in taint and ("usize" in b.locals[a[0]] or "u64" in b.locals[a[0]] or "u32" in b.locals[a[0]])]
                if size_args:
                    out.append(("alloc", cal.split("::")[-1], t["l"], discharged(i, [a[0] for a in size_args])))
            elif INDEX.search(cal) and len(t["args"]) == 2:
                a = t["args"][1]
                if isinstance(a, list) and a[0] in taint and re.search(r"usize|Range", b.locals[a[0]]):
                    out.append(("index", re.sub(r"^.*<(alloc::vec::Vec|\[T\]|std::collections::\w+::\w+::HashMap).*$", r"\1", cal)[:40], t["l"], discharged(i, [a[0]])))
        for i, blk in enumerate(b.blocks):
            t = blk["t"]
            if t["k"] == "assert" and not blk["cl"]:
                locs = [o[0] for o in t["ops"] if isinstance(o, list)] + ([t["cond"][0]] if isinstance(t["cond"], list) else [])
                feeding = set()
                for l in locs:
                    feeding |= sl.locals_feeding([l, ""]) | {l}
                if feeding & taint:
                    ok = discharged(i, locs) or (t["msg"] == "Overflow(Sub)" and sum_minus_addend(b, t["ops"])) \
                        or (t["msg"] in ("DivisionByZero", "RemainderByZero") and zero_tested(b, i, feeding & taint))
                    out.append(("assert", t["msg"], t["l"], ok))
        return out
    # a bound check extracted into a private helper (`check(off, len, total)?`) takes the file-derived values as arguments: the taint
    # follows them into the parameters of such guard helpers, so the arithmetic of the extracted check stays a site.  The same holds for
    # a part of a decoder that was extracted into a private helper and is handed a count / length / offset the decoder has read
    # (`read_list(cur, count)`): the parameter is file-derived inside the helper, unless the decoder compared the value before the call.
    seeds = defaultdict(set)          # fn -> parameter locals that receive a file-derived argument
    guard_seeds = defaultdict(set)    # the part of `seeds` that guard helpers receive (the only part followed before)
    work = list(local)
    for _ in range(3):
        nxt = set()
        for b in work:
            if SKIP_FN.search(b.fn):
                continue
            taint = tainted_locals(b, seeds.get(b.fn, ()))
            if not taint:
                continue
            dis = None
            for i, t in b.calls():
                cal = t.get("f") or t["tf"]
                if cal == b.fn or cal not in cg.bodies or not any(isinstance(a, list) and a[0] in taint for a in t["args"]):
                    continue
                guard = bool(sums.summary(cal))
                if not guard and (not _is_private_helper(cg, cal) or SKIP_FN.search(cal)):
                    continue
                for k, a in enumerate(t["args"]):
                    if isinstance(a, list) and a[0] in taint and (k + 1) not in seeds[cal] and re.search(r"^(u|i)(8|16|32|64|128|size)$", cg.bodies[cal].locals[k + 1]):
                        if not guard:
                            if dis is None:
                                dis = discharger(b, taint)[0]
                            if dis(i, [a[0]]):
                                continue          # compared in the caller before it is handed over
                        else:
                            guard_seeds[cal].add(k + 1)
                        seeds[cal].add(k + 1)
                        nxt.add(cal)
        work = [cg.bodies[f] for f in sorted(nxt)]
        if not work:
            break
    local = local + [cg.bodies[f] for f in sorted(seeds) if seeds[f] and cg.bodies[f] not in local]
    param_only = defaultdict(list)     # group -> [is this site file-derived ONLY through a parameter of a (non-guard) private helper]
    for b in local:
        if b.fn in seen_fn:
            continue
        seen_fn.add(b.fn)
        if SKIP_FN.search(b.fn):
            continue
        taint = tainted_locals(b, seeds.get(b.fn, ()))
        if not taint:
            continue
        found = sites_of(b, taint)
        before = None
        if seeds.get(b.fn, set()) - guard_seeds.get(b.fn, set()):
            t0 = tainted_locals(b, guard_seeds.get(b.fn, ()))
            before = {(k, w, l) for k, w, l, _ in sites_of(b, t0)} if t0 else set()
        for kind, what, line, ok in found:
            n_sites += 1
            per_fn[(b.fn, kind, what, ok)].append(line)
            param_only[(b.fn, kind, what, ok)].append(before is not None and (kind, what, line) not in before)
    rep.floor("C07-R3", "file-derived allocation/index/arithmetic sites found under the loader", n_sites, 20)
    listed = _listed_keys(rep)
    per_fn, via = reattribute_moved_sites(rep, cg, per_fn, sorted(seen_fn))
    ncalls = _call_counts(cg, sorted(seen_fn))
    for (fn, kind, what, ok), lines in sorted(per_fn.items()):
        rule = _rule_of(kind)
        b = cg.bodies[fn]
        key = "%s:%s:%s:x%d" % (fn, kind, what, len(lines))
        if ok:
            rep.ok(rule, key, sample={"fn": fn, "site": kind + " " + what, "lines": lines, "discharged_by": "dominating comparison on the file-derived value"})
            continue
        po = param_only.get((fn, kind, what, ok))
        if po and all(po) and "%s|%s" % (rule, key) not in listed:
            # a site that is file-derived only because a decoder hands a file-derived count to this private helper.  Such sites were not
            # seen at all before parameters were followed; they are raised when they change a site class somebody has reviewed (a caller
            # has a listed finding of this kind and callee: the multiplicity differs) and recorded as candidates otherwise.
            ec = entry_callers(cg, ncalls, listed, fn, kind, what)
            if not any(_has_listed_kind(listed, g, kind, what) for g in ec) and not _has_listed_kind(listed, fn, kind, what):
                rep.note("candidate-site-through-helper-parameter", {"rule": rule, "site": "%s %s" % (kind, what), "in": fn, "lines": lines, "reached_from": sorted(ec),
                                                                     "why": "the size/index is a parameter of a private helper that receives a file-derived argument with no comparison before the call; no finding of this site class is listed for the callers"})
                continue
        msgs = {"alloc": "allocation whose size comes from the file with no dominating bound: a crafted file (valid CRC) makes the loader allocate without bound / panic with capacity overflow",
                "index": "index computed from file bytes with no dominating bounds comparison: a crafted file (valid CRC) panics the loader",
                "assert": "overflow/zero-checked arithmetic on file bytes with no dominating comparison: a crafted file (valid CRC) panics the loader"}
        through = " (in private helper(s) %s it calls)" % ", ".join(h.split("::")[-1] for h in via[(fn, kind, what)]) if (fn, kind, what) in via else ""
        rep.bad(rule, key, "%s: %s `%s` at line(s) %s%s — %s" % (fn, kind, what, lines, through, msgs[kind]), "%s:%d" % (b.file, lines[0]))
    rep.analysed = {"crate": crate, "bodies": len(bodies), "loader_reachable_bodies": len(seen_fn), "entries": [b.fn for b, _ in entries],
                    "parser": sorted(pnames), "verifier": sorted(vnames), "tainted_sites": n_sites}


    # ---- R2 two encoders agree
    from lib import codec as C
    from lib import fxn as X
    encs = [b for b in bodies if re.search(r"CompileCtx::compile$|ParsedProgram::to_bytes$", b.fn)]
    if rep.check(len(encs) == 2, "C07-R2", "anchor:encoders", "expected the two encoders CompileCtx::compile and ParsedProgram::to_bytes, found %s" % [b.fn for b in encs]):
        core = F.syn(crate)
        from lib.facts import find, render, render_pat, is_node
        from rules.c07_fields import codec_helpers, expand_helpers
        # a writer may hand part of its record to a private helper (`write_operands(w, args)?`): layouts are read off the expanded body
        helpers = codec_helpers([it for it in core if (it.get("mod") or "").startswith("program")])

        def expanded_body(it):
            return expand_helpers(it, helpers)["body"]
        wt = {}
        wt_arms = {}      # type -> {variant: widths} for writers that are one match over the variants of self (the order of the arms is free)
        for it in core:
            if it["k"] == "method" and it["name"] == "write_to" and not it["trait"] and it.get("body") is not None:
                body = expanded_body(it)
                th = X.type_head(it["self"])
                wt[th] = [w for w, _ in C.io_seq(body, "write")]
                for m in find(body, "match"):
                    if is_node(m[1]) and render(m[1]) in ("self", "*self") and len(m[2]) >= 3:
                        arms = {}
                        for a in m[2]:
                            mm = re.search(r"(\w+)::(\w+)", render_pat(a[0]))
                            if mm:
                                arms[mm.group(2)] = [w for w, _ in C.io_seq(a[2], "write")]
                        wt_arms[th] = arms
                        break
        seqs = []
        for b in encs:
            seq = sorted((t["l"], (t.get("f") or t["tf"])) for i, t in b.calls()
                         if re.search(r"::write_to$|WriteBytesExt::write_|Write>::write_all$|::write_all$|^crc32fast", t.get("f") or t["tf"]))
            seqs.append([c for _, c in seq])
        a, b2 = seqs
        rep.check(len(a) == len(b2), "C07-R2", "same-number-of-section-writes", "the two encoders perform %d and %d section writes: %s vs %s" % (len(a), len(b2), [x.split("::")[-2:] for x in a], [x.split("::")[-2:] for x in b2]))
        for i, (x, y) in enumerate(zip(a, b2)):
            if x == y:
                rep.ok("C07-R2", "section-write-%d" % i, sample={"position": i, "writer": x})
                continue
            tx, ty = x.split("::")[-2], y.split("::")[-2]
            lx, ly = wt.get(tx) or [], wt.get(ty) or []
            # the re-encoder may carry extra arms (e.g. DecodedInstr::Unknown) after the shared ones: per-opcode agreement is C06-R4
            same = x.endswith("::write_to") and y.endswith("::write_to") and lx and ly and (lx == ly or ly[:len(lx)] == lx or lx[:len(ly)] == ly)
            if not same and x.endswith("::write_to") and y.endswith("::write_to") and wt_arms.get(tx) and wt_arms.get(ty):
                # the same variants in another arm order: compared variant by variant (at least all variants of the smaller writer)
                ax, ay = wt_arms[tx], wt_arms[ty]
                common = set(ax) & set(ay)
                same = len(common) == min(len(ax), len(ay)) and all(ax[v] == ay[v] for v in common)
            rep.check(bool(same), "C07-R2", "section-write-%d" % i, "section write %d differs between the encoders: %s (%s) vs %s (%s)" % (i, x, wt.get(tx), y, wt.get(ty)),
                      sample={"position": i, "compile": x, "to_bytes": y, "layout": wt.get(tx)})
        # header: write_to widths == read_from widths == HEADER_SIZE
        hw = hr = None
        hsize = None
        for it in core:
            if it["k"] == "method" and X.type_head(it["self"]) == "ByteCodeHeader" and not it["trait"]:
                if it["name"] == "write_to" and it.get("body") is not None:
                    hw = C.io_seq(expanded_body(it), "write")
                if it["name"] == "read_from" and it.get("body") is not None:
                    hr = C.io_seq(expanded_body(it), "read")
            if it["k"] == "iconst" and it["name"] == "HEADER_SIZE" and X.type_head(it["self"]) == "ByteCodeHeader":
                try:
                    hsize = eval(re.sub(r"[^0-9+*() ]", "", __import__("lib.facts", fromlist=["render"]).render(it["val"])))
                except Exception:
                    hsize = None
        if rep.check(hw is not None and hr is not None, "C07-R2", "anchor:header-codec", "ByteCodeHeader::write_to / read_from not found"):
            def total(seq):
                t = 0
                for w, a_ in seq:
                    if w in C.W:
                        t += C.W[w]
                    elif w == "bytes":
                        m = re.search(r"magic", a_)
                        t += 4 if m else 0
                return t
            ww = [w for w, _ in hw if w in C.W]
            rr = [w for w, _ in hr if w in C.W]
            rep.check(ww == rr, "C07-R2", "header:write-read-widths", "header is written as %s but read as %s" % (ww, rr), sample={"widths": ww})
            if hsize is not None:
                rep.check(total(hw) == hsize, "C07-R2", "header:size-constant", "ByteCodeHeader::write_to writes %d bytes but HEADER_SIZE = %s" % (total(hw), hsize), sample={"written": total(hw), "HEADER_SIZE": hsize})
    run_r5(F, rep, crate, cg, consts)
    run_r6(F, rep, crate, tier)
    from rules.c07_fields import run_r7, run_r8, run_r9
    run_r7(F, rep, crate)
    run_r8(F, rep, crate, tier)
    run_r9(F, rep, crate)
    from rules import c07_sizes
    c07_sizes.run(F, rep, F.syn(crate))
    # R10: the tag tables of the file format (TypeTag, OpCode, ...): reader arm n => V exactly when V's discriminant - what every writer emits - is n
    from rules import c06_codec
    c06_codec.discriminant_tables(F, rep, F.syn(crate), rid="C07-R10")


# ---------------------------------------------------------------- R5: truncation guards vs. instruction sizes
#
# The guards are recognised by WHAT they compare, not by the names of the locals involved.  Walking the statements of one decoding step in
# order, every expression is evaluated to a small symbolic value over the bytes of the stream:
#   ("len",)      the length of the buffer behind the reader              (`cur.get_ref().len()`, also through a hoisted local)
#   ("pos", c)    the reader's position: start of the instruction + c     (`cur.position()`, c = bytes read so far in this step)
#   ("rem", k)    bytes left at the start of the instruction, minus k     (`len - pos`, `rem - 1`, ..)
#   ("int", n)    an integer (literal, named constant, arithmetic of those)
# A statement `if <rem(k) < N> { return Err(..) }` (any equivalent spelling: flipped, negated, `pos + N > len`, one disjunct of `||`)
# requires N + k bytes from the start of the instruction.

_READ_W = re.compile(r"^read_(u8|u16|u32|u64|u128|i8|i16|i32|i64|i128|f32|f64)$")


class _Step:
    def __init__(self, consts, mod, readers):
        self.consts = consts
        self.mod = mod
        self.readers = readers      # rendered receivers of the read_* calls (the cursor)
        self.env = {}
        self.consumed = 0

    def copy(self):
        c = _Step(self.consts, self.mod, self.readers)
        c.env = dict(self.env)
        c.consumed = self.consumed
        return c

    def is_reader(self, e):
        from lib.facts import render, strip_refs
        return render(strip_refs(e)) in self.readers

    def ev(self, e):
        from lib.facts import is_node
        if not is_node(e):
            return None
        t = e[0]
        if t == "int":
            try:
                return ("int", int(re.sub(r"[^0-9].*$", "", str(e[1]))))
            except ValueError:
                return None
        if t == "path":
            if e[1] in self.env:
                return self.env[e[1]]
            v = self.consts.value(e[1], self.mod)
            return ("int", v) if v is not None else None
        if t in ("paren", "cast"):
            return self.ev(e[1])
        if t == "ref" or (t == "un" and e[1] == "*"):
            return self.ev(e[2])
        if t == "try":
            return self.ev(e[1])
        if t == "mcall":
            name, recv, args = e[2], e[1], e[4]
            if name in ("get_ref", "get_mut", "into_inner") and self.is_reader(recv):
                return ("buf",)
            if name in ("as_ref", "as_slice", "clone", "to_owned", "into", "unwrap", "try_into", "min") and not (name == "min" and args):
                return self.ev(recv)
            if name == "len" and not args and self.ev(recv) == ("buf",):
                return ("len",)
            if name == "position" and not args and self.is_reader(recv):
                return ("pos", self.consumed)
            if name in ("saturating_sub", "wrapping_sub") and len(args) == 1:
                return self.arith("-", self.ev(recv), self.ev(args[0]))
            if name in ("saturating_add", "wrapping_add") and len(args) == 1:
                return self.arith("+", self.ev(recv), self.ev(args[0]))
            return None
        if t == "call":
            from lib.facts import path_of
            p = path_of(e[1]) or ""
            if re.search(r"(^|::)(from|try_from)$", p) and len(e[2]) == 1:
                return self.ev(e[2][0])
            return None
        if t == "bin" and e[1] in ("+", "-", "*", "/"):
            return self.arith(e[1], self.ev(e[2]), self.ev(e[3]))
        return None

    @staticmethod
    def arith(op, a, b):
        if a is None or b is None:
            return None
        if a[0] == "int" and b[0] == "int":
            try:
                return ("int", {"+": a[1] + b[1], "-": a[1] - b[1], "*": a[1] * b[1], "/": a[1] // b[1] if b[1] else 0}[op])
            except KeyError:
                return None
        if op == "-":
            if a[0] == "len" and b[0] == "pos":
                return ("rem", b[1])
            if a[0] in ("rem", "pos") and b[0] == "int":
                return (a[0], a[1] + b[1]) if a[0] == "rem" else ("pos", a[1] - b[1])
        if op == "+":
            if a[0] == "pos" and b[0] == "int":
                return ("pos", a[1] + b[1])
            if a[0] == "int" and b[0] == "pos":
                return ("pos", a[1] + b[1])
            if a[0] == "rem" and b[0] == "int":
                return ("rem", a[1] - b[1])
        return None

    def reads_in(self, node):
        """bytes consumed by the read_* calls of a statement that are not inside a nested loop / closure / match arm"""
        from lib.facts import is_node
        n = 0
        st = [node]
        while st:
            x = st.pop()
            if not isinstance(x, list):
                continue
            if is_node(x):
                if x[0] in ("for", "while", "loop", "closure", "match", "if"):
                    if x[0] in ("match", "if"):
                        st.append(x[1])      # the scrutinee / condition is evaluated unconditionally
                    continue
                if x[0] == "mcall":
                    m = _READ_W.match(x[2])
                    if m and self.is_reader(x[1]):
                        from lib import codec as C
                        n += C.W[m.group(1)]
            st.extend(y for y in x if isinstance(y, list))
        return n

    def required(self, cond):
        """[(bytes required from the start of the instruction or None, offset k)] for every `remaining < N` test in a guard condition"""
        from lib.facts import is_node
        out = []
        if not is_node(cond):
            return out
        if cond[0] == "paren":
            return self.required(cond[1])
        if cond[0] == "bin" and cond[1] == "||":
            return self.required(cond[2]) + self.required(cond[3])
        neg = False
        while is_node(cond) and ((cond[0] == "un" and cond[1] == "!") or cond[0] == "paren"):
            if cond[0] == "un":
                neg = not neg
                cond = cond[2]
            else:
                cond = cond[1]
        if not (is_node(cond) and cond[0] == "bin" and cond[1] in ("<", "<=", ">", ">=")):
            return out
        op, a, b = cond[1], self.ev(cond[2]), self.ev(cond[3])
        if neg:
            op = {"<": ">=", "<=": ">", ">": "<=", ">=": "<"}[op]
        if op in (">", ">="):                      # write every test as  small OP big
            op, a, b = {">": "<", ">=": "<="}[op], b, a
            big_first = True
        # now: a OP b with OP in (<, <=); the guard fires (error) when it holds
        if a is not None and a[0] == "rem":
            if b is not None and b[0] == "int":
                out.append((b[1] + a[1] + (1 if op == "<=" else 0), a[1]))
            else:
                out.append((None, a[1]))
        elif a is not None and a[0] == "len" and b is not None and b[0] == "pos":
            # len < pos + n  <=>  remaining at the start < c : requires c bytes (one more for <=)
            out.append((b[1] + (1 if op == "<=" else 0), 0))
        return out


def _ends_in_err(stmts):
    """the block leaves the function with an error: its last statement is `return Err(..)` / a tail `Err(..)` / `Err(..)?`"""
    from lib.facts import render, is_node
    if not stmts:
        return False
    last = stmts[-1]
    e = last[1] if last[0] == "expr" and is_node(last[1]) else None
    if e is None:
        return False
    if e[0] == "ret":
        return e[1] is not None and render(e[1]).startswith("Err(")
    if e[0] == "try":
        return render(e[1]).startswith("Err(")
    return render(e).startswith("Err(") and not last[2]


def _block_stmts(e):
    from lib.facts import is_node
    if is_node(e) and e[0] in ("block", "unsafe"):
        return e[1]
    return [["expr", e, False]]


def _linear(stmts):
    """guard clauses and nested ifs are the same thing: `if c { A } else { return Err }` == `if !c { return Err } A` and
    `if c { return Err } else { B }` == `if c { return Err } B`; plain nested blocks are spliced in"""
    from lib.facts import is_node
    out = []
    for st in stmts:
        e = st[1] if st[0] == "expr" and is_node(st[1]) else None
        if e is not None and e[0] == "if" and e[3] is not None:
            els = _block_stmts(e[3])
            if _ends_in_err(els) and not _ends_in_err(e[2]):
                out.append(["expr", ["if", ["un", "!", ["paren", e[1]]], els, None], False])
                out.extend(_linear(e[2]))
                continue
            if _ends_in_err(e[2]) and not _ends_in_err(els):
                out.append(["expr", ["if", e[1], e[2], None], False])
                out.extend(_linear(els))
                continue
        if e is not None and e[0] in ("block", "unsafe"):
            out.extend(_linear(e[1]))
            continue
        out.append(st)
    return out


def _scan(step, stmts, stop=None):
    """walk statements in order: bind locals, count consumed bytes, collect [(required, k, text)] of the error guards; stops at the
    statement that contains node `stop` (returns True then)"""
    from lib.facts import walk, render, is_node
    guards = []
    for st in _linear(stmts):
        if stop is not None and any(x is stop for x in walk(st)):
            if st[0] == "let" or st[0] == "expr":
                # bytes read by the scrutinee of the match itself (`match OpCode::from_u8(cur.read_u8()?)`)
                step.consumed += step.reads_in(stop[1])
            return guards, True
        if st[0] == "let":
            if st[2] is not None:
                v = step.ev(st[2])
                pat = st[1]
                while is_node(pat) and pat[0] == "ptype":
                    pat = pat[1]
                if is_node(pat) and pat[0] == "pident":
                    if v is not None:
                        step.env[pat[1]] = v
                    else:
                        step.env.pop(pat[1], None)
                step.consumed += step.reads_in(st[2])
        elif st[0] == "expr" and is_node(st[1]):
            e = st[1]
            if e[0] == "if" and e[3] is None and _ends_in_err(e[2]):
                for need, k in step.required(e[1]):
                    guards.append((need, k, render(e[1])))
            step.consumed += step.reads_in(e)
    return guards, False


def run_r5(F, rep, crate, cg, consts=None):
    """C07-R5: the instruction decoder's truncation guards ask for no more bytes than the instruction occupies"""
    from lib.facts import find, walk, is_node, render, render_pat, path_of, last_seg
    from lib import codec as C
    from lib import fxn as X
    rep.rule("C07-R5", "decode_instructions: every `remaining < N => TruncatedInstruction` guard asks for at most the bytes the opcode's arm consumes (a stricter guard rejects a valid emitted file that ends with that instruction)")
    core = F.syn(crate)
    consts = consts or G.Consts(F, crate)

    def opcode_arms(m):
        arms = {}
        for a in m[2]:
            mm = re.search(r"OpCode::(\w+)", render_pat(a[0]))
            if mm and any(x[0] == "mcall" and _READ_W.match(x[2]) for x in walk(a[2])):
                arms[mm.group(1)] = a
        return arms
    # the decoder: the function holding the match over opcodes whose arms read the operands (whatever it is called)
    dec = []
    for it in core:
        if it["k"] in ("fn", "method") and it.get("body"):
            for m in find(it["body"], "match"):
                arms = opcode_arms(m)
                if len(arms) >= 5:
                    dec.append((it, m, arms))
                    break
    if not rep.check(len(dec) == 1, "C07-R5", "anchor:decode_instructions", "instruction decoder (match over OpCode whose arms read the operands) not found (%d)" % len(dec)):
        return
    it, match, arms = dec[0]
    readers = {render(x[1]) for a in arms.values() for x in walk(a[2]) if x[0] == "mcall" and _READ_W.match(x[2])}

    def loop_around(body, node):
        """innermost loop of `body` that contains `node`: (loop body statements, statements of `body` before the loop)"""
        best = None
        for lp in walk(body):
            if lp[0] in ("while", "loop", "for"):
                lb = lp[3] if lp[0] == "for" else lp[2] if lp[0] == "while" else lp[1]
                if any(x is node for x in walk(lb)):
                    best = lb          # pre-order: later hits are nested deeper
        return best
    step = _Step(consts, it.get("mod"), readers)
    chain = []         # statement lists scanned in order up to the match
    lb = loop_around(it["body"], match)
    if lb is not None:
        pre_fn, pre_item = it["body"], it
        chain.append((lb, match))
    else:
        # the per-instruction step was extracted: the loop is in the caller
        caller = None
        for c in core:
            if c["k"] in ("fn", "method") and c.get("body") and c is not it:
                for x in walk(c["body"]):
                    if (x[0] == "call" and last_seg(path_of(x[1]) or "") == it["name"]) or (x[0] == "mcall" and x[2] == it["name"]):
                        l2 = loop_around(c["body"], x)
                        if l2 is not None:
                            caller = (c, l2, x)
        if caller is None:
            rep.bad("C07-R5", "anchor:loop", "decode loop not found")
            return
        pre_fn, pre_item = caller[0]["body"], caller[0]
        readers |= {render(a) for a in (caller[2][2] if caller[2][0] == "call" else caller[2][4]) if is_node(a)}
        chain.append((caller[1], caller[2]))
        chain.append((it["body"], match))
    rep.ok("C07-R5", "anchor:loop")
    # loop-invariant locals bound before the loop (`let stream_len = cur.get_ref().len();`)
    for st in pre_fn:
        if st[0] == "let" and st[2] is not None and is_node(st[1]) and st[1][0] == "pident":
            v = step.ev(st[2])
            if v is not None and v[0] in ("len", "buf", "int"):
                step.env[st[1][1]] = v
    top = []
    for stmts, stop in chain:
        g, _ = _scan(step, stmts, stop)
        top += g
    base = step.consumed          # bytes of the instruction read before the arms (the opcode)
    # which opcodes can a compiled program contain: EncodedInstr variant -> OpCode (from the encoder), emitted iff its emit_* method has a caller
    enc_op = {}
    for it2 in core:
        if it2["k"] == "method" and it2["name"] == "write_to" and X.type_head(it2["self"]) == "EncodedInstr":
            for v, a in C.arms_of(it2["body"], "EncodedInstr").items():
                ops = [re.search(r"OpCode::(\w+)", x[1]).group(1) for x in walk(a[2]) if x[0] == "path" and re.search(r"OpCode::(\w+)", x[1])]
                if ops:
                    enc_op[v] = ops[0]
    emitted = set()
    called = set()
    for c in sorted(set(X.FXN_CRATES) | {"mech_core.lib", "mech_interpreter.lib"}):
        for b in F.bodies(c):
            for _, t in b.calls():
                mm = re.search(r"CompileCtx::(emit_\w+)$", t.get("f") or t.get("tf") or "")
                if mm:
                    called.add(mm.group(1))
    for it2 in core:
        if it2["k"] == "method" and it2["name"].startswith("emit_") and X.type_head(it2["self"]) == "CompileCtx":
            vs = {re.match(r"EncodedInstr::(\w+)", s[1]).group(1) for s in find(it2["body"], "struct") if re.match(r"EncodedInstr::(\w+)", s[1])}
            if it2["name"] in called:
                emitted |= {enc_op.get(v) for v in vs}
    rep.floor("C07-R5", "opcodes a compiled program can contain", len(emitted - {None}), 5)
    n = 0
    for op, a in sorted(arms.items()):
        arm_step = step.copy()
        stm = a[2][1] if is_node(a[2]) and a[2][0] == "block" else [["expr", a[2], False]]
        fixed = sum(arm_step.copy().reads_in(s_) for s_ in _linear(stm))
        has_loop = any(x[0] in ("for", "while", "loop") for x in walk(a[2]))
        size = base + fixed
        arm_guards, _ = _scan(arm_step, stm)
        for scope, guards in (("instruction", top if op in emitted else []), ("arm", arm_guards)):
            for need, k, txt in guards:
                n += 1
                key = "%s:%s:remaining@%d" % (op, scope, k)
                if need is None:
                    rep.ok("C07-R5", key, sample={"opcode": op, "guard": txt, "verdict": "bound depends on a decoded count"})
                    continue
                rep.check(need <= size, "C07-R5", key,
                          "instruction decoder, opcode %s: the guard `%s` requires %d bytes from the start of the instruction, but the instruction occupies %d%s: a valid program that ends with this instruction is rejected as truncated" % (
                              op, txt, need, size, " (+ its variable-length tail)" if has_loop else ""),
                          "%s (%s)" % (it["name"], crate), sample={"opcode": op, "guard": txt, "required": need, "instruction_bytes": size})
    rep.floor("C07-R5", "truncation guards compared with instruction sizes", n, 5)


class _Return(Exception):
    def __init__(self, value):
        self.value = value


def eval_small_fn(body, env):
    """value of a small pure function body (a statement list) under `env`: `let`, early `return`, `if` / `else` (statement or expression),
    `match` over integers / booleans (literal, or-, range-, binding and wildcard patterns, guards), nested blocks, short-circuit `&&` / `||`;
    leaf expressions by lib.minieval.  A division / remainder by zero evaluates to the string "panic".  Raises NoEval for anything else."""
    from lib.minieval import ev, NoEval
    from lib.facts import is_node

    def lit(e):
        if is_node(e) and e[0] == "int":
            return int(re.sub(r"[^0-9].*$", "", str(e[1])) or 0)
        if is_node(e) and e[0] == "bool":
            return bool(e[1])
        if is_node(e) and e[0] == "un" and e[1] == "-":
            return -lit(e[2])
        if is_node(e) and e[0] == "path" and e[1] in env:
            return env[e[1]]
        raise NoEval("pattern literal")

    def match_pat(p, v, env):
        """bindings when pattern p matches v, else None"""
        if not is_node(p):
            raise NoEval("pattern")
        t = p[0]
        if t == "pwild":
            return {}
        if t == "ptype":
            return match_pat(p[1], v, env)
        if t == "pident":
            if p[4]:
                sub = match_pat(p[4], v, env)
                return None if sub is None else dict(sub, **{p[1]: v})
            if p[1] in env and p[1][:1].isupper():
                return {} if env[p[1]] == v else None
            return {p[1]: v}
        if t == "plit":
            return {} if lit(p[1]) == v else None
        if t == "ppath":
            if p[1] in env:
                return {} if env[p[1]] == v else None
            raise NoEval("pattern path")
        if t == "por":
            for q in p[1]:
                r = match_pat(q, v, env)
                if r is not None:
                    return r
            return None
        if t == "prange":
            m = re.match(r"^\s*(-?\s*\d+)?[a-z0-9_]*\s*(\.\.=|\.\.\.|\.\.)\s*(-?\s*\d+)?[a-z0-9_]*\s*$", str(p[1]))
            if not m:
                raise NoEval("range pattern")
            lo = int(m.group(1).replace(" ", "")) if m.group(1) else None
            hi = int(m.group(3).replace(" ", "")) if m.group(3) else None
            if lo is not None and v < lo:
                return None
            if hi is not None and (v > hi or (v == hi and m.group(2) == "..")):
                return None
            return {}
        raise NoEval("pattern " + t)

    def E(e, env, d=0):
        if d > 40 or not is_node(e):
            raise NoEval(str(e)[:30])
        t = e[0]
        if t == "if":
            if is_node(e[1]) and e[1][0] == "letc":
                raise NoEval("if let")
            if E(e[1], env, d + 1):
                return block(e[2], dict(env), d + 1)
            return E(e[3], env, d + 1) if e[3] else None
        if t == "match":
            v = E(e[1], env, d + 1)
            for arm in e[2]:
                bnd = match_pat(arm[0], v, env)
                if bnd is None:
                    continue
                env2 = dict(env, **bnd)
                if arm[1] is not None and not E(arm[1], env2, d + 1):
                    continue
                return E(arm[2], env2, d + 1)
            raise NoEval("no arm")
        if t in ("block", "unsafe"):
            return block(e[1], dict(env), d + 1)
        if t == "ret":
            raise _Return(E(e[1], env, d + 1) if e[1] is not None else None)
        if t == "paren":
            return E(e[1], env, d + 1)
        if t == "cast":
            v = E(e[1], env, d + 1)
            return int(v) if isinstance(v, bool) else v
        if t == "un" and e[1] == "!":
            return not E(e[2], env, d + 1)
        if t == "bin" and e[1] in ("&&", "||"):
            l = bool(E(e[2], env, d + 1))
            if e[1] == "&&":
                return l and bool(E(e[3], env, d + 1))
            return l or bool(E(e[3], env, d + 1))
        if t == "bin" and e[1] in ("%", "/"):
            l, r = E(e[2], env, d + 1), E(e[3], env, d + 1)
            if r == 0:
                raise _Return("panic")
            return l % r if e[1] == "%" else l // r
        if t == "bin" and e[1] in ("==", "!=", "<", ">", "<=", ">=", "+", "-", "*", "&", "|"):
            l, r = E(e[2], env, d + 1), E(e[3], env, d + 1)
            return ev(["bin", e[1], ["path", "$l"], ["path", "$r"]], {"$l": l, "$r": r})
        return ev(e, env)

    def block(stmts, env, d=0):
        last = None
        for st in stmts:
            if st[0] == "let":
                if st[2] is None:
                    raise NoEval("let")
                bnd = match_pat(st[1], E(st[2], env, d + 1), env)
                if bnd is None:
                    raise NoEval("let pattern")
                env.update(bnd)
                last = None
            elif st[0] == "expr":
                v = E(st[1], env, d + 1)
                last = v if not st[2] else None
            elif st[0] == "item":
                continue
            else:
                raise NoEval("stmt")
        return last
    try:
        return block(body, dict(env))
    except _Return as r:
        return r.value


def run_r6(F, rep, crate, tier="quick"):
    """C07-R6: the loader's alignment test accepts every alignment the compiler hands out"""
    from lib.facts import find, walk, is_node, path_of, render, render_pat, last_seg
    from lib.minieval import ev, NoEval
    from lib import fxn as X
    rep.rule("C07-R6", "decode_const_entries: check_alignment(offset, align) holds for every alignment ValueKind::align()/ConstElem::align() can return and every offset that is a "
                       "multiple of it (decided over the finite table) - a stricter test rejects constants of files the compiler itself emitted")
    core = F.syn(crate)
    aligns = set()
    for it in core:
        if it["k"] == "method" and it["name"] == "align" and it.get("body"):
            for x in walk(it["body"]):
                if x[0] == "int":
                    try:
                        v = int(re.sub(r"[^0-9].*$", "", str(x[1])))
                        if 0 < v <= 64:
                            aligns.add(v)
                    except ValueError:
                        pass
    rep.floor("C07-R6", "distinct alignments the compiler can hand out", len(aligns), 4)
    fns = [it for it in core if it["k"] == "fn" and it["name"] == "check_alignment"]
    if not rep.check(len(fns) == 1, "C07-R6", "anchor:check_alignment", "check_alignment not found"):
        return
    it = fns[0]
    params = [p[0][1] for p in it["sig"]["inputs"] if is_node(p[0]) and p[0][0] == "pident"]
    consts = {}
    for c in core:
        if c["k"] == "const" and c.get("val") is not None:
            try:
                consts[c["name"]] = ev(c["val"], {})
            except NoEval:
                pass
    if not rep.check(len(params) == 2, "C07-R6", "anchor:signature", "check_alignment no longer takes (offset, align)"):
        return
    wrong = []
    n = 0
    try:
        for a in sorted(aligns):
            for off in ((0, a, 3 * a) if tier != "thorough" else [k * a for k in range(0, 64)]):
                env = dict(consts)
                env[params[0]] = off
                env[params[1]] = a
                result = eval_small_fn(it["body"], env)
                n += 1
                if result is not True:
                    wrong.append("align %d at offset %d -> %s" % (a, off, result))
    except NoEval as ex:
        rep.note("C07-R6-undecided", "check_alignment not interpretable: %s" % ex)
        return
    rep.check(not wrong, "C07-R6", "check_alignment:accepts-every-emitted-alignment" if not wrong else "check_alignment:rejects:%s" % ",".join(sorted({w.split()[1] for w in wrong})),
              "check_alignment rejects alignments the compiler hands out (%s; ValueKind::align returns %s): decode_const_entries fails with ConstantEntryAlignmentError on a file the compiler emitted" % (
                  "; ".join(wrong[:3]), sorted(aligns)), "check_alignment (%s)" % crate, sample={"alignments": sorted(aligns), "combinations": n})
