"""Loop-shape rules shared by C16 / C17 / C19 (syntax-tree level, each anchored to one function)."""
import re
from lib.facts import find, walk, is_node, path_of, render, render_pat, last_seg


def loop_chain(body, pred):
    """for every node n with pred(n): the list of enclosing loop nodes (outermost first)"""
    out = []

    def rec(n, chain):
        if not isinstance(n, list):
            return
        if is_node(n):
            if pred(n):
                out.append((n, list(chain)))
            if n[0] in ("for", "while", "loop"):
                chain = chain + [n]
            if n[0] in ("closure", "item"):
                return
        for c in n:
            if isinstance(c, list):
                rec(c, chain)
    rec(body, [])
    return out


def loop_desc(lp):
    return render(lp[2])[:60] if lp[0] == "for" else lp[0]


# ---------------------------------------------------------------- C19-R5
def c19_step_nesting(F, rep):
    c19_step_nesting_items(F.syn("mech_interpreter.lib"), rep)


def c19_step_nesting_items(items, rep):
    rep.rule("C19-R5", "Interpreter::step: every solve() of a whole-plan pass sits in the plan traversal, and the plan traversal sits inside the step counter loop "
                       "(n requested steps = n passes over the plan in plan order, in every branch)")
    its = [it for it in items if it["k"] == "method" and it["name"] == "step" and "Interpreter" in str(it["self"])]
    if not rep.check(len(its) == 1, "C19-R5", "anchor:step", "Interpreter::step not found"):
        return
    # loops are roles: the counter is a range whose bound is the step-count PARAMETER (through named locals), the plan traversal is a loop over something read from
    # the field `plan`; both are followed through private helpers and iterator adaptors (lib/absint.py)
    from rules.c19 import StepRun
    from lib import absint as A
    sr = StepRun(items, its[0])
    n = 0
    for e in sr.solves:
        chain = list(e["loops"])
        descs = [A.show(sr.I.loops[l]["src"]) for l in chain]
        plans = [i for i, l in enumerate(chain) if sr.is_plan_loop(l)]
        counters = [i for i, l in enumerate(chain) if l in sr.counters or (i not in plans and sr.I.loops[l]["src"][0] == "range" and sr.I.loops[l]["src"][1] == ("int", 0))]
        if not counters or not plans:
            continue                # single-function stepping (`step_id != 0`) repeats one function, it is not a pass over the plan
        n += 1
        ok = bool(plans) and max(counters) < min(plans)
        rep.check(ok, "C19-R5", "step:solve#%d" % n if ok else "step:solve#%d:%s" % (n, "/".join("plan" if i in plans else "count" if i in counters else "?" for i in range(len(descs)))),
                  "Interpreter::step: solve() is nested in loops %s: the step counter must be the OUTER loop and the plan traversal the inner one, otherwise each function is run n times in a row instead of n passes over the plan" % descs,
                  "Interpreter::step (mech_interpreter.lib)", sample={"loops_outer_to_inner": descs})
    rep.floor("C19-R5", "whole-plan solve sites in step()", n, 2)


# ---------------------------------------------------------------- C16-R5
def c16_loop_carried_args(F, rep):
    rep.rule("C16-R5", "tail-call loop of execute_user_function: inside the loop only the loop-carried argument vector is read, never the arguments of the initial call")
    its = [it for it in F.syn("mech_interpreter.lib") if it["k"] == "fn" and it["name"] == "execute_user_function"]
    if not rep.check(len(its) == 1, "C16-R5", "anchor:execute_user_function", "execute_user_function not found"):
        return
    it = its[0]
    params = [p[0][1] for p in it["sig"]["inputs"] if is_node(p[0]) and p[0][0] == "pident"]
    n = 0
    for blk_owner in walk(it["body"]):
        if blk_owner[0] not in ("block", "if", "match", "let"):
            continue
    # find `let mut V = <expr over param P>` followed (same statement list) by a loop that reassigns V
    lists = [it["body"]] + [b[1] for b in walk(it["body"]) if b[0] == "block"] + [b[2] for b in walk(it["body"]) if b[0] == "if"]
    for stmts in lists:
        for i, st in enumerate(stmts):
            pat = st[1] if st[0] == "let" else None
            if pat is not None and pat[0] == "ptype":
                pat = pat[1]
            if st[0] == "let" and st[2] is not None and pat[0] == "pident" and pat[3]:
                v = pat[1]
                srcs = [p for p in params if any(x[1] == p for x in find(st[2], "path"))]
                if not srcs:
                    continue
                for st2 in stmts[i + 1:]:
                    for lp in ([st2[1]] if st2[0] == "expr" and is_node(st2[1]) and st2[1][0] in ("loop", "while", "for") else []):
                        body = lp[1] if lp[0] == "loop" else (lp[2] if lp[0] == "while" else lp[3])
                        if not any(a[0] == "assign" and render(a[1]) == v for a in find(body, "assign")):
                            continue
                        n += 1
                        stale = sorted({x[1] for x in find(body, "path") if x[1] in srcs})
                        rep.check(not stale, "C16-R5", "execute_user_function:%s" % v if not stale else "execute_user_function:%s:reads-%s" % (v, ",".join(stale)),
                                  "execute_user_function: the tail-call loop carries its arguments in `%s` (re-assigned on every tail call) but its body also reads `%s`, the arguments of the INITIAL call: "
                                  "after the first tail call that value is stale" % (v, ",".join(stale)), "execute_user_function (mech_interpreter.lib)",
                                  sample={"loop_carried": v, "initial": srcs})
    rep.floor("C16-R5", "tail-call loops with a loop-carried argument vector", n, 1)


# ---------------------------------------------------------------- C17-R5
# (moved: C17-R5 is decided on MIR - flag-sensitive exploration of the arm loop with must-call summaries of apply_transitions - in rules/c17.py;
#  the syntactic version recognised only `flag = true; break` / `if flag { break }`)


# ---------------------------------------------------------------- C14-R5
def c14_generator_source_per_environment(F, rep):
    """moved to rules/c14b.py (helpers inlined, roles by provenance instead of local names); kept here as an alias for callers of the old name"""
    from rules.c14b import generator_source_per_environment
    return generator_source_per_environment(F, rep)


# ---------------------------------------------------------------- C16-R7
def c16_pattern_value_pairing(F, rep):
    rep.rule("C16-R7", "pattern matcher: sub-patterns are paired with the matched value's parts in order - both operands of every `zip` are plain forward iterators over "
                       "a (sub)slice, and the suffix patterns are paired with the slice starting at len - suffix.len()")
    REORDER = {"rev", "step_by", "chain", "cycle", "filter", "filter_map", "rposition", "sorted", "sort", "reverse"}   # skip(1) over a tag element is order-preserving and used by TupleStruct patterns
    n = 0
    for it in F.syn("mech_interpreter.lib"):
        if it["k"] != "fn" or not it["mod"].endswith("patterns") or not it.get("body"):
            continue
        for lp in find(it["body"], "for"):
            zips = [m for m in find(lp[2], "mcall") if m[2] == "zip" and m[4]]
            for z in zips:
                ops = [z[1], z[4][0]]
                n += 1
                bad = []
                for o in ops:
                    for m in find(o, "mcall"):
                        if m[2] in REORDER:
                            bad.append(m[2])
                txt = render(z)
                key = "%s:zip#%d" % (it["name"], n)
                rep.check(not bad, "C16-R7", key if not bad else key + ":" + ",".join(sorted(set(bad))),
                          "%s pairs patterns with values through `%s`: an operand is re-ordered or truncated (%s), so sub-pattern i no longer meets part i of the matched value" % (it["name"], txt[:90], sorted(set(bad))),
                          "%s (mech_interpreter.lib)" % it["name"], sample={"fn": it["name"], "zip": txt[:120]})
                # suffix pairing: values[START..] with START = values.len() - <suffix>.len()
                if re.search(r"\bsuffix\b", render(ops[0])) or re.search(r"\bsuffix\b", render(ops[1])):
                    other = ops[1] if re.search(r"\bsuffix\b", render(ops[0])) else ops[0]
                    rng = [x for x in find(other, "range")]
                    ok = False
                    if rng and rng[0][1] is not None and rng[0][2] is None and is_node(rng[0][1]) and rng[0][1][0] == "path":
                        start = rng[0][1][1]
                        defs = [st[2] for st in find(it["body"], "let") if len(st) == 4 and st[2] is not None and st[1][0] == "pident" and st[1][1] == start]
                        ok = any(re.sub(r"\s", "", render(d)) in ("(values.len()-pattern_array.suffix.len())", "values.len()-pattern_array.suffix.len()") or
                                 re.match(r"^\(?\w+\.len\(\)-[\w.]*suffix\.len\(\)\)?$", re.sub(r"\s", "", render(d))) for d in defs)
                    rep.check(ok, "C16-R7", key + ":suffix-anchored-at-len-minus-suffix",
                              "%s: the suffix patterns are not paired with the slice `values[len - suffix.len()..]` (`%s`)" % (it["name"], render(other)[:60]), "%s (mech_interpreter.lib)" % it["name"])
    rep.floor("C16-R7", "pattern/value zips in the matcher", n, 2)


# ---------------------------------------------------------------- C11-R5
def fn_family(items, is_root, depth=2):
    """{id(item): root item} for every root fn (is_root(item)) and the private free functions of the same module it calls
    (directly or through `depth` levels): a dispatcher split into helper functions is still seen as a whole"""
    by_mod = {}
    for it in items:
        if it["k"] == "fn" and it.get("body"):
            by_mod.setdefault(it["mod"], {})[it["name"]] = it
    fam = {}
    for it in items:
        if it["k"] == "fn" and it.get("body") and is_root(it):
            fam[id(it)] = (it, it)
            frontier = [it]
            for _ in range(depth):
                nxt = []
                for g in frontier:
                    for c in find(g["body"], "call"):
                        pth = path_of(c[1]) or ""
                        pth = re.sub(r"^(self|Self|super)::", "", pth)
                        h = by_mod.get(it["mod"], {}).get(pth)
                        if h is not None and id(h) not in fam and not (h.get("vis") or "").startswith("pub") and not is_root(h):
                            fam[id(h)] = (h, it)
                            nxt.append(h)
                frontier = nxt
    return fam


def c11_offset_dimension(F, rep):
    rep.rule("C11-R5", "variadic concatenation: the running offset advances by 1 per scalar entry and by the block's extent ALONG the concatenation dimension per matrix entry "
                       "(columns = shape()[1] in horzcat, rows = shape()[0] in vertcat)")
    want = {"horzcat": "1", "vertcat": "0"}
    n = 0

    def advance_of(x):
        """(target text, increment expr) for `t += e`, `t = t + e`, `t = e + t` (t any place expression)"""
        if x[0] == "bin" and x[1] == "+=":
            return x[2], x[3]
        if x[0] == "assign" and is_node(x[2]) and x[2][0] == "bin" and x[2][1] == "+":
            t = render(x[1])
            if render(x[2][2]) == t:
                return x[1], x[2][3]
            if render(x[2][3]) == t:
                return x[1], x[2][2]
        return None

    fam = fn_family(F.syn("mech_interpreter.lib"), lambda x: x["mod"].split("::")[-1] in want and x["name"].startswith("impl_"))
    per_root = {}
    for it in F.syn("mech_interpreter.lib"):
        if it["k"] not in ("fn", "method") or not it.get("body"):
            continue
        mod = it["mod"].split("::")[-1]
        if mod not in want:
            continue
        dispatcher = it["name"].startswith("impl_") or id(it) in fam
        from lib.alpha import scoped_walk, resolve_local
        # a dispatcher split into private helpers is reported under the dispatcher's name (keys do not name helpers a refactoring introduces)
        kname = fam[id(it)][1]["name"] if id(it) in fam else it["name"]
        per = per_root.setdefault((mod, kname), {})
        for x, env in scoped_walk(it["body"]):
            adv = advance_of(x)
            if not adv:
                continue
            # a named local standing for the increment is read as its initialiser (`let width = e.shape()[1]; i += width`)
            inc = resolve_local(adv[1], env)
            rhs = re.sub(r"\s", "", render(inc))
            if re.fullmatch(r"\(?1(usize)?\)?", rhs):
                continue
            dims_ = set(re.findall(r"\.shape\(\)\[(\d)\]", rhs)) | {{"ncols": "1", "nrows": "0"}[m_] for m_ in re.findall(r"\.(ncols|nrows)\(\)", rhs)}
            if not dispatcher and not dims_:
                continue        # helper functions: only increments by a block extent are offsets
            n += 1
            dim = dims_.pop() if len(dims_) == 1 else None
            # the key names the form of the increment, not the locals it is written with
            form = re.sub(r"\b[A-Za-z_]\w*\.(?=shape\(\)|ncols\(\)|nrows\(\))", "", rhs) if (dim is not None) else "other"
            form = re.sub(r"[()]", "", form) if dim is not None else form
            per[form] = per.get(form, 0) + 1
            ok = dim == want[mod]
            rep.check(ok, "C11-R5", "%s:%s:advance-by-%s#%d" % (mod, kname, form, per[form]),
                      "%s (%s): the running offset `%s` advances by `%s`; a block occupies %s along the %s concatenation, so the next entry is placed inside or past the previous block" % (
                          it["name"], mod, render(adv[0]), rhs, "its column count (shape()[1])" if mod == "horzcat" else "its row count (shape()[0])", "horizontal" if mod == "horzcat" else "vertical"),
                      "%s (mech_interpreter.lib, %s)" % (it["name"], mod), sample={"module": mod, "increment": rhs})
    rep.floor("C11-R5", "matrix-entry offset increments in the variadic concatenation arms", n, 40)


# ---------------------------------------------------------------- C05-R7 / C10-R8
def scope_restored_on_every_exit(F, rep, rule):
    """every path from FunctionScope::enter to a return of the calling function - including the `?` early returns - restores the caller's
    symbol table / plan / environment: through the guard's Drop (a drop terminator of the guard local), mem::drop of it, or an explicit exit call"""
    rep.rule(rule, "user-function scope: every path from FunctionScope::enter to any return (Ok or Err) of the caller passes the restoration of the caller's symbols, plan and "
                   "environment (Drop of the guard or an explicit exit) - an error inside a user function must not leave the interpreter pointing at the function's local tables")
    bodies = {b.fn: b for b in F.bodies("mech_interpreter.lib")}
    has_drop = any(re.match(r"^<mech_interpreter::functions::FunctionScope as core::ops::drop::Drop>::drop$", f) for f in bodies)
    n = 0
    for fn, b in sorted(bodies.items()):
        for i, t in b.calls():
            if not (t.get("f") or t.get("tf") or "").endswith("FunctionScope::enter"):
                continue
            n += 1
            guard = t["d"][0]
            release = set()
            for j, bb in enumerate(b.blocks):
                tt = bb["t"]
                if tt["k"] == "drop" and tt["p"][0] == guard and tt["p"][1] == "" and has_drop:
                    release.add(j)
                if tt["k"] == "call":
                    cal = tt.get("f") or tt.get("tf") or ""
                    moved = any(isinstance(a, list) and a and a[0] == guard for a in tt.get("args", []))
                    if moved and (re.search(r"core::mem::drop", cal) and has_drop or re.search(r"FunctionScope::(exit|leave|restore)", cal)):
                        release.add(j)
            # explicit mem::drop moves the guard through a temporary: follow one copy
            tmp = {s["d"][0] for bb in b.blocks for s in bb["s"] if s.get("rk") in ("use",) and s.get("src") and isinstance(s["src"][0], list) and s["src"][0][0] == guard}
            for j, bb in enumerate(b.blocks):
                tt = bb["t"]
                if tt["k"] == "call":
                    cal = tt.get("f") or tt.get("tf") or ""
                    if any(isinstance(a, list) and a and a[0] in tmp for a in tt.get("args", [])) and (re.search(r"core::mem::drop", cal) and has_drop or re.search(r"FunctionScope::(exit|leave|restore)", cal)):
                        release.add(j)
            start = t.get("t")
            rets = {j for j, bb in enumerate(b.blocks) if bb["t"]["k"] == "ret"}
            reach = b.reachable_from([start], avoid=release) if start is not None else set()
            leak = sorted(reach & rets)
            key = "%s:enter#%d" % (fn.split("::")[-1], n)
            rep.check(not leak, rule, key,
                      "%s: after FunctionScope::enter (line %s) a return is reachable without restoring the caller's scope (%s): an error raised inside the user function leaves "
                      "the interpreter's symbol table, plan and environment switched to the function's local ones, so whatever is evaluated next (the rest of a literate document) sees the wrong variables" % (
                          fn, t.get("l"), "the guard has no Drop impl and the early returns skip the explicit exit" if not has_drop else "a path avoids every drop of the guard"),
                      b.where(), sample={"fn": fn, "guard_local": guard, "restoring_blocks": len(release), "guard_has_drop_impl": has_drop})
    rep.floor(rule, "FunctionScope::enter call sites", n, 2)


# ---------------------------------------------------------------- C06-R13 (and C14-R6 for Hash impls)
def no_unconditional_self_recursion(F, rep, rule, crates, only=None, floor=300):
    """a body in which every path from entry to a return passes a call to the body itself never returns: calling it overflows the stack and aborts the host"""
    rep.rule(rule, "no unconditional self-recursion: no function of the examined crates calls itself (same resolved callee) on every path to its return "
                   "(e.g. a trait method whose body is `self.method()` with no inherent method of that name) - such a call overflows the stack and aborts the process")
    n = 0
    for c in crates:
        for b in F.bodies(c):
            if only is not None and not re.search(only, b.fn):
                continue
            n += 1
            selfcalls = {i for i, t in b.calls() if (t.get("f") or "") == b.fn}
            if not selfcalls:
                continue
            rets = {j for j, bb in enumerate(b.blocks) if bb["t"]["k"] == "ret"}
            reach = b.reachable_from([0], avoid=selfcalls)
            rep.check(bool(reach & rets), rule, "self-recursive:%s" % re.sub(r"nalgebra::base::(\w+::)*", "", b.fn)[:140],
                      "%s calls itself on every path (line %s): any call overflows the stack and aborts the process" % (b.fn[:200], sorted({b.blocks[i]["t"].get("l") for i in selfcalls})), b.where(),
                      sample={"fn": b.fn[:160], "self_calls": len(selfcalls)})
    rep.floor(rule, "bodies examined for unconditional self-recursion", n, floor)


# ---------------------------------------------------------------- C14-R6
def c14_membership_complement(F, rep):
    """moved to rules/c14b.py (the output is the place `out()` returns, not a local called `out..`)"""
    from rules.c14b import membership_complement
    return membership_complement(F, rep)


# ---------------------------------------------------------------- C12-R5
def c12_reshape_allocation(F, rep):
    rep.rule("C12-R5", "reshape dispatch: in `match (matrix, shape[0], shape[1])` an arm's output is allocated with (rows, cols) = (second, third) pattern position "
                       "(DMatrix::from_element(rows, cols, ..); DVector of `rows` when cols is 1; RowDVector of `cols` when rows is 1)")
    n = 0
    for it in F.syn("mech_interpreter.lib"):
        if it["k"] != "fn" or not it.get("body") or "reshape" not in it["name"]:
            continue
        for m in find(it["body"], "match"):
            if not (is_node(m[1]) and m[1][0] == "tuple" and len(m[1][1]) == 3):
                continue
            # a scrutinee component may be a named local standing for shape[0] / shape[1] (`let (rows, cols) = (shape[0], shape[1]);`): read it as its initialiser
            fn_lets = {}
            for st_ in walk(it["body"]):
                if is_node(st_) and st_[0] == "let" and len(st_) > 2 and st_[2] is not None and is_node(st_[1]):
                    if st_[1][0] == "pident":
                        fn_lets.setdefault(st_[1][1], st_[2])
                    elif st_[1][0] == "ptuple" and is_node(st_[2]) and st_[2][0] == "tuple" and len(st_[1][1]) == len(st_[2][1]):
                        for p_, v_ in zip(st_[1][1], st_[2][1]):
                            if is_node(p_) and p_[0] == "pident":
                                fn_lets.setdefault(p_[1], v_)
            def _res(x):
                for _ in range(3):
                    if is_node(x) and x[0] == "path" and x[1] in fn_lets:
                        x = fn_lets[x[1]]
                return x
            sc = [re.sub(r"\s", "", render(_res(x))) for x in m[1][1]]
            if not (re.search(r"\[0\]$", sc[1]) and re.search(r"\[1\]$", sc[2])):
                continue
            for a in m[2]:
                pt = a[0]
                if pt[0] != "ptuple" or len(pt[1]) != 3:
                    continue
                # the names an arm binds are spelled canonically (v / r / c by pattern position): keys and the comparison do not depend on them
                ren = {}
                for role, sub in (("v", pt[1][0]), ("r", pt[1][1]), ("c", pt[1][2])):
                    for b_ in find(sub, "pident"):
                        if b_[1] and (b_[1][0].islower() or b_[1][0] == "_"):
                            ren.setdefault(b_[1], role)
                canon = lambda txt: re.sub(r"[A-Za-z_]\w*", lambda m_: ren.get(m_.group(0), m_.group(0)), txt)
                arm_lets = {}
                for st in walk(a[2]):
                    if st[0] == "let" and is_node(st[1]) and st[1][0] == "pident" and len(st) > 2 and st[2] is not None:
                        arm_lets.setdefault(st[1][1], []).append(st[2])

                def arg_txt(x):
                    # a named local standing for an extent is read as its initialiser
                    if is_node(x) and x[0] == "path" and x[1] in arm_lets and len(arm_lets[x[1]]) == 1 and x[1] not in ren:
                        x = arm_lets[x[1]][0]
                    return canon(re.sub(r"[\s()]", "", render(x)))
                rows_p, cols_p = canon(render_pat(pt[1][1])), canon(render_pat(pt[1][2]))
                for c in find(a[2], "call"):
                    pth = path_of(c[1]) or ""
                    mm = re.match(r"^(DMatrix|DVector|RowDVector)::from_element$", pth)
                    if not mm or len(c[2]) < 2:
                        continue
                    n += 1
                    got = [arg_txt(x) for x in c[2][:-1]]
                    want = [rows_p, cols_p] if mm.group(1) == "DMatrix" else ([rows_p] if mm.group(1) == "DVector" else [cols_p])
                    src_form = canon(render_pat(pt[1][0]))[:30]
                    rep.check(got == want, "C12-R5", "%s:%s:(%s,%s)->%s" % (it["name"], re.sub(r"[^A-Za-z0-9]+", "", src_form), rows_p, cols_p, mm.group(1)) if got == want else
                              "%s:%s:(%s,%s)->%s:%s" % (it["name"], re.sub(r"[^A-Za-z0-9]+", "", src_form), rows_p, cols_p, mm.group(1), ",".join(got)),
                              "%s: the arm for target shape (%s, %s) allocates %s::from_element(%s): the reshaped value comes out with rows and columns exchanged (or the wrong length)" % (
                                  it["name"], rows_p, cols_p, mm.group(1), ", ".join(got)), "%s (mech_interpreter.lib)" % it["name"],
                              sample={"arm": "(%s, %s, %s)" % (src_form, rows_p, cols_p), "allocation": got})
    rep.floor("C12-R5", "reshape output allocations", n, 6)


# ---------------------------------------------------------------- C19-R6
def c19_hash_order_sensitive_use(F, rep):
    rep.rule("C19-R6", "evaluators do not depend on std HashMap/HashSet iteration order: a sequence collected while iterating a hash-ordered field of a value "
                       "(MechTable::col_names, MechRecord::field_names, ...) is never used position-wise (first / last / [k] / next / pop)")
    hash_fields = set()
    for a in F.adts("mech_core.lib"):
        if a["enum"]:
            continue
        if a["name"].split("::")[-1] not in ("MechTable", "MechRecord", "MechEnum", "MechMap", "MechSet", "MechAtom"):
            continue
        for f in a["variants"][0]["fields"]:
            if re.search(r"hash::(map::HashMap|set::HashSet)", f[1]) and not f[0].isdigit():
                hash_fields.add(f[0])
    rep.floor("C19-R6", "hash-ordered fields of value structures", len(hash_fields), 2)
    POSITIONAL = {"first", "last", "pop", "remove", "swap_remove", "first_mut", "last_mut", "split_first", "split_last", "nth"}
    n_taint = 0
    for crate in ("mech_interpreter.lib", "mech_core.lib"):
        for it in F.syn(crate):
            if it["k"] not in ("fn", "method") or not it.get("body"):
                continue
            tainted = {}
            fld = re.compile(r"\.\s*(%s)\b" % "|".join(sorted(map(re.escape, hash_fields)))) if hash_fields else None
            if fld is None:
                break
            for lp in find(it["body"], "for"):
                src = render(lp[2])
                if fld.search(src):
                    for m in find(lp[3], "mcall"):
                        if m[2] in ("push", "push_back", "insert") and is_node(m[1]) and m[1][0] == "path":
                            tainted[m[1][1]] = fld.search(src).group(1)
            for st in find(it["body"], "let"):
                if len(st) == 4 and st[2] is not None and st[1][0] in ("pident", "ptype"):
                    nm = st[1][1] if st[1][0] == "pident" else (st[1][1][1] if is_node(st[1][1]) and st[1][1][0] == "pident" else None)
                    txt = render(st[2])
                    if nm and fld.search(txt) and re.search(r"\.(iter|keys|values|into_iter)\(\)", txt) and re.search(r"collect", txt) and not re.search(r"BTree|sort", txt):
                        tainted[nm] = fld.search(txt).group(1)
            if not tainted:
                continue
            n_taint += len(tainted)
            sorted_vars = {render(m[1]) for m in find(it["body"], "mcall") if m[2] in ("sort", "sort_by", "sort_by_key", "sort_unstable", "sort_unstable_by", "sort_unstable_by_key")}
            # keys carry the ordinal of the sequence in the function (order of first appearance), not the spelling of the local
            for k_, (v, field) in enumerate(tainted.items()):
                if v in sorted_vars:
                    rep.ok("C19-R6", "%s:#%d:sorted" % (it["name"], k_))
                    continue
                uses = []
                for m in find(it["body"], "mcall"):
                    base = m[1]
                    while is_node(base) and base[0] == "mcall" and base[2] in ("iter", "into_iter", "iter_mut", "as_slice", "clone", "copied", "cloned"):
                        base = base[1]
                    if is_node(base) and base[0] == "path" and base[1] == v:
                        if m[2] in POSITIONAL or (m[2] == "next" and m[1] is not base) or (m[2] == "get" and m[4] and m[4][0][0] == "int"):
                            uses.append(m[2])
                for ix in find(it["body"], "index"):
                    if is_node(ix[1]) and ix[1][0] == "path" and ix[1][1] == v and is_node(ix[2]) and ix[2][0] == "int":
                        uses.append("[%s]" % ix[2][1])
                key = "%s:#%d<-%s" % (it["name"], k_, field)
                rep.check(not uses, "C19-R6", key if not uses else key + ":" + ",".join(sorted(set(uses))),
                          "%s: `%s` is filled while iterating the hash-ordered `%s` and then used position-wise (%s): which element that is differs between interpreter instances, so the same program computes different values" % (
                              it["name"], v, field, sorted(set(uses))), "%s (%s)" % (it["name"], crate), sample={"fn": it["name"], "sequence": v, "from": field})
    rep.floor("C19-R6", "sequences collected from hash-ordered fields", n_taint, 1)


# ---------------------------------------------------------------- C04-R6 / C05-R8
def assignment_dispatchers(items):
    """{name: item} of the functions of a crate that build ASSIGNMENT kernels, recognised by what they do and not by what they are called: the first two parameters are `Value`s
    (by the protocol of the assignment compilers: the target, then the right-hand side) and the body constructs kernel structs that have both a `sink` and a `source` field whose
    `sink` is an operand handed in (a local, possibly cloned) - the read dispatchers also have `sink`/`source` kernels, but allocate the sink themselves."""
    out = {}
    for it in items:
        if it["k"] != "fn" or not it.get("body"):
            continue
        ps = _fn_params(it)
        if len(ps) < 2 or any(re.sub(r"\s", "", t) != "Value" for _, t in ps[:2]):
            continue
        for s_ in find(it["body"], "struct"):
            f = {x[0]: x[1] for x in s_[2]}
            if "sink" in f and "source" in f:
                p = path_of(_peel(f["sink"]))
                if p is not None and "::" not in p:
                    out[it["name"]] = it
                    break
    return out


def assign_compiler_operand_roles(F, rep, rule):
    """Roles come from the protocol, never from the spelling of a local: in a `NativeFunctionCompiler::compile` that calls an assignment dispatcher (see above), whatever is bound
    from element 0 of the argument-vector parameter is the sink operand and whatever is bound from element 1 the source operand (the order in which the statement evaluators build
    the vector, C04-R7).  The roles are carried through `let`s, `if let`, `match` (tuple scrutinees position by position) and into helper functions of the crate (parameters bound
    to the arguments), so the MutableReference fallback may be written as nested matches, `if let`, `or_else` closures or a private helper."""
    from collections import defaultdict
    rep.rule(rule, "assignment compilers hand (sink, source) to their dispatcher in that order in every arm, including the MutableReference fallback arms "
                   "(a swapped pair writes INTO the right-hand variable and leaves the target unchanged)")
    n = 0
    for crate in ("mech_interpreter.lib", "mech_math.lib"):
        items = F.syn(crate)
        D = assignment_dispatchers(items)
        fns = defaultdict(list)
        for it in items:
            if it["k"] == "fn" and it.get("body"):
                fns[it["name"]].append(it)
        reach_memo = {}

        def callee(c):
            """(kind, item): kind 'D' for a dispatcher call with (sink, source, ..) arguments, 'H' for a helper of the crate from which a dispatcher call is reachable (2 levels)"""
            p = path_of(c[1])
            if not p:
                return None, None
            nm = last_seg(p)
            if nm in D and len(c[2]) >= 2:
                return "D", D[nm]
            hs = fns.get(nm, ())
            if len(hs) == 1 and reaches(hs[0], 2):
                return "H", hs[0]
            return None, None

        def reaches(h, depth):
            k = (id(h), depth)
            if k not in reach_memo:
                reach_memo[k] = False
                for c in find(h["body"], "call"):
                    nm = last_seg(path_of(c[1]) or "")
                    if (nm in D and len(c[2]) >= 2) or (depth > 1 and len(fns.get(nm, ())) == 1 and fns[nm][0] is not h and reaches(fns[nm][0], depth - 1)):
                        reach_memo[k] = True
                        break
            return reach_memo[k]

        for it in items:
            if not (it["k"] == "method" and it["name"] == "compile" and it["trait"] and last_seg(it["trait"]) == "NativeFunctionCompiler" and it.get("body")):
                continue
            present = [c for c in find(it["body"], "call") if callee(c)[0]]
            if not present:
                continue
            owner = X_type_head(it["self"])
            ps = _fn_params(it)
            argv = ps[0][0] if ps else None

            def argv_role(e):
                """sink / source when `e` is element 0 / 1 of the argument vector (cloned, borrowed ...), "" for another element, None otherwise"""
                e = _peel(e)
                if is_node(e) and e[0] == "index" and path_of(_peel(e[1])) == argv and _int_of(e[2]) is not None:
                    return {0: "sink", 1: "source"}.get(_int_of(e[2]), "")
                return None

            established = {argv_role(x) for x in walk(it["body"])} if argv else set()
            if not {"sink", "source"} <= established:
                # the compiler does call an assignment dispatcher, but does not take its operands from argv[0] / argv[1] in a way the rule can read
                n += len(present)
                rep.note("undecided", {"rule": rule, "compiler": owner, "why": "calls an assignment dispatcher but its operands are not read as elements 0 and 1 of the argument vector: roles not decided"})
                continue
            seq = defaultdict(int)

            def roles_of(e, env):
                return {env[x[1]] for x in find(e, "path") if env.get(x[1])}

            def bind(pat, init, env):
                """bind the names of `pat` from `init`"""
                pat = pat[1] if is_node(pat) and pat[0] == "ptype" else pat
                if not is_node(pat):
                    return
                if pat[0] == "ptuple" and is_node(init) and _peel(init)[0] == "tuple" and len(pat[1]) == len(_peel(init)[1]):
                    for sp, se in zip(pat[1], _peel(init)[1]):
                        bind(sp, se, env)
                    return
                r = argv_role(init) if init is not None else None
                if r is None:
                    rs = roles_of(init, env) if init is not None else set()
                    r = next(iter(rs)) if len(rs) == 1 else ""
                for b in find(pat, "pident"):
                    if not b[1][:1].isupper():
                        env[b[1]] = r or None

            def check(c, d, env):
                nonlocal n
                n += 1
                nm = d["name"]
                seq[nm] += 1
                r0, r1 = roles_of(c[2][0], env), roles_of(c[2][1], env)
                ok = r0 == {"sink"} and r1 == {"source"}
                pending.append((bool(r0 or r1), (ok, rule, "%s:%s#%d" % (owner, nm, seq[nm]),
                                "%s::compile calls `%s` with (%s, %s) in the (sink, source) positions: the assignment writes into the wrong operand" % (
                                    owner, render(c)[:90], "/".join(sorted(r0)) or "?", "/".join(sorted(r1)) or "?"), "%s (%s)" % (owner, crate)),
                                {"compiler": owner, "call": render(c)[:100]}))

            def visit(x, env, depth):
                if isinstance(x, dict):
                    for v in x.values():
                        visit(v, env, depth)
                    return
                if not isinstance(x, list):
                    return
                if is_node(x):
                    t = x[0]
                    if t in ("block", "unsafe"):
                        env = dict(env)
                        for st in x[1]:
                            visit(st, env, depth)
                        return
                    if t == "let" and len(x) >= 3:
                        visit(x[2], env, depth)
                        if len(x) > 3:
                            visit(x[3], dict(env), depth)
                        bind(x[1], x[2], env)
                        return
                    if t == "letc":
                        visit(x[2], env, depth)
                        bind(x[1], x[2], env)
                        return
                    if t == "if":
                        env_then = dict(env)
                        visit(x[1], env_then, depth)          # an `if let` binds for the then-branch only
                        for st in x[2]:
                            visit(st, env_then, depth)
                        if x[3] is not None:
                            visit(x[3], dict(env), depth)
                        return
                    if t == "match":
                        sc = x[1]
                        visit(sc, env, depth)
                        comps = _peel(sc)[1] if is_node(_peel(sc)) and _peel(sc)[0] == "tuple" else None
                        for a in x[2]:
                            env2 = dict(env)
                            for alt in (a[0][1] if a[0][0] == "por" else [a[0]]):
                                if comps is not None and alt[0] == "ptuple" and len(alt[1]) == len(comps):
                                    for sp, se in zip(alt[1], comps):
                                        bind(sp, se, env2)
                                else:
                                    bind(alt, sc, env2)
                            visit(a[1], env2, depth)
                            visit(a[2], env2, depth)
                        return
                    if t == "closure":
                        env = dict(env)
                        for p_ in x[1]:
                            bind(p_, None, env)
                        visit(x[2], env, depth)
                        return
                    if t == "call":
                        kind, d = callee(x)
                        if kind == "D":
                            check(x, d, env)
                        elif kind == "H" and depth < 2:
                            env_h = {}
                            for (pn, _pt), a in zip(_fn_params(d), x[2]):
                                rs = roles_of(a, env)
                                env_h[pn] = next(iter(rs)) if len(rs) == 1 else None
                            for st in d["body"]:
                                visit(st, env_h, depth + 1)
                for y in x:
                    visit(y, env, depth)

            env0 = {}
            pending = []
            for st in it["body"]:
                visit(st, env0, 0)
            if pending and not any(known for known, _, _ in pending):
                # elements 0 and 1 of the argument vector are read, but no operand of any dispatcher call could be traced back to them
                rep.note("undecided", {"rule": rule, "compiler": owner, "why": "the operands of its dispatcher calls could not be traced to elements 0 / 1 of the argument vector: roles not decided"})
                continue
            for _, args, sample in pending:
                rep.check(*args, sample=sample)
    rep.floor(rule, "dispatcher calls in assignment compilers", n, 60)


def X_type_head(t):
    from lib import fxn as _X
    return _X.type_head(t)


# ---------------------------------------------------------------- trial environments are fresh per candidate (C14-R7 / C16-R8 / C17-R6)
MATCHERS = ("pattern_match_value", "pattern_matches_value", "pattern_matches_value_with_semantics", "pattern_matches_arguments")


def trial_env_fresh(F, rep, rule, fns, floor):
    """Every candidate (generator element, match arm, function arm, FSM arm) is matched against its OWN scratch environment: the `&mut X` handed to a pattern matcher
    inside a loop over candidates is declared by a `let` inside that loop's body, so bindings made by a match that later fails cannot survive into the next candidate."""
    rep.rule(rule, "trial matches use a fresh scratch environment: the environment passed `&mut` to pattern_match_value / pattern_matches_* inside a loop over candidates is declared inside "
                   "the body of the innermost such loop (a matcher binds sub-patterns left to right and leaves them behind when a later sub-pattern fails; reusing the environment "
                   "turns those leftovers into join constraints for the next candidate)")
    n = 0
    for it in F.syn("mech_interpreter.lib"):
        if it["k"] != "fn" or it["name"] not in fns or not it.get("body"):
            continue
        params = {p[0][1] for p in it["sig"]["inputs"] if is_node(p[0]) and p[0][0] == "pident"}

        def rec(stmts, loops):
            """loops: list of loop bodies (statement lists) enclosing, innermost last"""
            nonlocal n
            for st in stmts:
                for e in ([st[2]] if st[0] == "let" and len(st) > 2 and st[2] is not None else [st[1]] if st[0] == "expr" else []):
                    visit(e, loops)

        def visit(e, loops):
            nonlocal n
            if not is_node(e):
                if isinstance(e, list):
                    for x in e:
                        visit(x, loops)
                return
            t = e[0]
            if t == "for":
                visit(e[2], loops)
                rec(e[3], loops + [e[3]])
                return
            if t == "while":
                visit(e[1], loops)
                rec(e[2], loops + [e[2]])
                return
            if t == "loop":
                rec(e[1], loops + [e[1]])
                return
            if t in ("block", "unsafe"):
                rec(e[1], loops)
                return
            if t == "if":
                visit(e[1], loops)
                rec(e[2], loops)
                if e[3] is not None:
                    visit(e[3], loops)
                return
            if t == "call" and (path_of(e[1]) or "").split("::")[-1] in MATCHERS and loops:
                envs = [a for a in e[2] if is_node(a) and a[0] == "ref" and a[1] and is_node(a[2]) and a[2][0] == "path"]
                for a in envs:
                    x = a[2][1]
                    if x in params:
                        continue
                    n += 1
                    inner = loops[-1]
                    declared_inside = any(s[0] == "let" and any(p_[1] == x for p_ in find(s[1], "pident")) for s in walk(inner) if is_node(s) and s[0] == "let")
                    m = (path_of(e[1]) or "").split("::")[-1]
                    rep.check(declared_inside, rule, "%s:%s(&mut %s)" % (it["name"], m, x) + ("" if declared_inside else ":reused-across-candidates"),
                              "%s calls %s(.., &mut %s) inside a loop over candidates, but `%s` is declared outside that loop: bindings left behind by a match that fails part-way are still there when "
                              "the next candidate is matched and reject (or wrongly constrain) it" % (it["name"], m, x, x), "%s (mech_interpreter.lib)" % it["name"],
                              sample={"fn": it["name"], "matcher": m, "env": x})
            for x in e[1:]:
                if isinstance(x, list):
                    if x and all(is_node(y) and y[0] in ("let", "expr", "item") for y in x):
                        rec(x, loops)
                    else:
                        visit(x, loops)

        rec(it["body"], [])
    rep.floor(rule, "trial-match sites inside candidate loops", n, floor)


# ---------------------------------------------------------------- C16-R9 exhaustiveness checks are skipped only for a genuine wildcard arm
def c16_catch_all_predicate(F, rep):
    from lib import guards as G
    rep.rule("C16-R9", "non-exhaustive matches are rejected unless a genuine wildcard arm exists: every construction of a *NonExhaustive* error is reached under the negation of an "
                       "`arms.any(|arm| matches!(arm.pattern, P))` flag, and P is exactly Pattern::Wildcard (a wider P - e.g. Pattern::Expression, which also carries atom literals "
                       "like `:red` - switches the enum coverage check off for arm lists that are not exhaustive)")
    n = 0
    for it in F.syn("mech_interpreter.lib"):
        if it["k"] != "fn" or not it.get("body"):
            continue
        lets = {}
        for st in find(it["body"], "let"):
            if st[1][0] == "pident" and len(st) > 2 and st[2] is not None:
                lets.setdefault(st[1][1], st[2])
        for s, facts in G.sites(it["body"], "struct") + G.sites(it["body"], "path"):
            if "NonExhaustive" not in s[1]:
                continue
            flags = []
            for c, pol in G.atoms(facts):
                e = lets.get(c[1]) if c[0] == "path" else c
                if e is None or pol:
                    continue
                for mc in find(e, "mcall"):
                    if mc[2] != "any" or not mc[4] or not is_node(mc[4][0]) or mc[4][0][0] != "closure":
                        continue
                    for m in find(mc[4][0][2], "match"):
                        if not re.search(r"\.pattern$", render(m[1]).replace("&", "").replace("(", "").replace(")", "")):
                            continue
                        acc = set()
                        for a in m[2]:
                            if render(a[2]) == "true":
                                for alt in (a[0][1] if a[0][0] == "por" else [a[0]]):
                                    acc.add(re.sub(r"[({].*$", "", render_pat(alt)).strip())
                        flags.append((render(c)[:40], acc))
            n += 1
            ok = bool(flags) and all(acc == {"Pattern::Wildcard"} for _, acc in flags)
            desc = ";".join("%s=%s" % (f, "|".join(sorted(a))) for f, a in flags) or "none"
            rep.check(ok, "C16-R9", "%s:%s" % (it["name"], s[1].split("::")[-1]) + ("" if ok else ":catch-all=" + desc.replace("Pattern::", "")[:60]),
                      "%s raises %s only when no arm satisfies the catch-all predicate [%s]; expected exactly Pattern::Wildcard: arm lists with an arm of the other accepted shapes skip the "
                      "exhaustiveness check although they do not cover every variant" % (it["name"], s[1], desc), "%s (mech_interpreter.lib)" % it["name"],
                      sample={"fn": it["name"], "error": s[1], "flags": [[f, sorted(a)] for f, a in flags]})
    rep.floor("C16-R9", "NonExhaustive error constructions examined", n, 3)


# ---------------------------------------------------------------- C17-R7 the set of runnable states is the set of states with an arm
def _single_lets(body):
    """name -> initialiser for names bound exactly once in the function by a plain `let name [: T] = init` (never re-bound by another pattern)"""
    count, init = {}, {}
    for n in walk(body):
        if n[0] == "pident":
            count[n[1]] = count.get(n[1], 0) + 1
    for st in find(body, "let"):
        pat = st[1]
        while is_node(pat) and pat[0] == "ptype":
            pat = pat[1]
        if is_node(pat) and pat[0] == "pident" and len(st) > 2 and st[2] is not None and count.get(pat[1]) == 1:
            init[pat[1]] = st[2]
    return init


def _resolve_locals(e, inits, depth=3):
    """copy of expression e in which single-assignment locals are replaced by their initialiser (a named local for a sub-expression is transparent)"""
    if not isinstance(e, list):
        return e
    if is_node(e) and e[0] == "path" and e[1] in inits and depth > 0:
        r = inits[e[1]]
        # only pure-looking initialisers: paths, fields, references, method chains without arguments that could have effects are all fine for a rendering
        return _resolve_locals(r, inits, depth - 1)
    return [_resolve_locals(x, inits, depth) for x in e]


def _chain_root(e):
    while is_node(e) and e[0] in ("mcall", "try", "paren"):
        e = e[1]
    return e


def c17_state_set_from_arms(F, rep):
    rep.rule("C17-R7", "validate_fsm_state_coverage: the set the start state and every transition target are checked against is built from the implementation's arms and from nothing "
                       "else (a state that is only declared has no arm to run: the machine would stop there and return the raw state instead of FsmUndefinedState)")
    fns = {it["name"]: it for it in F.syn("mech_interpreter.lib") if it["k"] == "fn" and it["mod"].endswith("state_machines") and it.get("body") is not None}
    it = fns.get("validate_fsm_state_coverage")
    if not rep.check(it is not None, "C17-R7", "anchor:validate_fsm_state_coverage", "validate_fsm_state_coverage not found"):
        return
    body = it["body"]
    inits = _single_lets(body)
    ARMS = re.compile(r"^&?\(?\w+\.arms\)?$")

    def contains_receivers(b):
        return {render(m[1]).lstrip("&") for m in find(b, "mcall") if m[2] == "contains" and is_node(m[1]) and m[1][0] == "path"}
    # sets used for validation: `contains` is called on them here, or they are handed by reference to a helper of the module that tests its parameter (or to validate_*)
    tested = contains_receivers(body)
    for c in find(body, "call"):
        callee = last_seg(path_of(c[1]) or "")
        g = fns.get(callee)
        for i, a in enumerate(c[2]):
            if is_node(a) and a[0] == "ref" and is_node(a[2]) and a[2][0] == "path":
                if callee.startswith("validate_"):
                    tested.add(a[2][1])
                elif g is not None and i < len(g["sig"]["inputs"]):
                    pp = g["sig"]["inputs"][i][0]
                    if is_node(pp) and pp[0] == "pident" and pp[1] in contains_receivers(g["body"]):
                        tested.add(a[2][1])
    n = 0
    ADD = ("extend", "insert", "union", "append", "extend_from_slice", "push")
    for st in find(body, "let"):
        pat = st[1]
        while pat[0] == "ptype":
            pat = pat[1]
        if pat[0] != "pident" or len(st) < 3 or st[2] is None:
            continue
        s = pat[1]
        if s not in tested:
            continue
        # where the elements come from: collect() chains in the initialiser (or in the module helper that builds the set), and every later add
        init = st[2]
        roots = []
        chains = [m for m in find(init, "mcall") if m[2] == "collect"]
        if chains:
            roots = [render(_resolve_locals(_chain_root(init), inits))]
        else:
            e = init
            while is_node(e) and e[0] in ("try", "paren"):
                e = e[1]
            g = fns.get(last_seg(path_of(e[1]) or "")) if is_node(e) and e[0] == "call" else None
            if g is not None:
                gin = _single_lets(g["body"])
                params = [p_[0][1] for p_ in g["sig"]["inputs"] if is_node(p_[0]) and p_[0][0] == "pident"]
                for m in find(g["body"], "mcall"):
                    if m[2] == "collect":
                        r = render(_resolve_locals(_chain_root(m), gin))
                        # `param.arms` of the helper, where the argument is the implementation (or a field path of it)
                        roots.append(r)
        adders = []
        for m, chain in loop_chain(body, lambda x: x[0] == "mcall" and x[2] in ADD and is_node(x[1]) and render(x[1]).lstrip("&") == s):
            over_arms = any(lp[0] == "for" and ARMS.match(render(_resolve_locals(lp[2], inits)).replace(".iter()", "")) for lp in chain)
            if not over_arms:
                adders.append(render(m)[:60])
            else:
                roots.append("fsm.arms")
        if not roots and not adders:
            continue
        n += 1
        bad_roots = [r for r in roots if not ARMS.match(r)]
        ok = not bad_roots and not adders
        rep.check(ok, "C17-R7", "state-set#%d" % n if ok else ("state-set:grown-after-construction" if adders else "state-set:not-from-arms"),
                  "validate_fsm_state_coverage checks the start state and the transition targets against a set which is built from `%s`%s: states without an arm pass validation, and a machine "
                  "that reaches one halts there and returns the state value itself" % (", ".join(roots) or "?", (" and then grown by " + "; ".join(adders)) if adders else ""),
                  "validate_fsm_state_coverage (mech_interpreter.lib)", sample={"source": roots, "adders": adders})
    rep.floor("C17-R7", "state sets used for validation", n, 1)
    # the checks themselves (start state named / declared, unconditional and guarded transition targets) are decided on MIR in rules/c17.py: validator_checks;
    # the former floor counted copies of the FsmUndefinedStateError construction, i.e. today's duplication, not what is checked


# ---------------------------------------------------------------- subscript operands keep their position (C03-R7 / C04-R7)
def _peel(e):
    """strip what does not change which value an expression denotes: `&`, `&mut`, `*`, `?`, and clone / borrow / to_owned style method calls"""
    while is_node(e):
        if e[0] == "ref" or (e[0] == "un" and e[1] == "*"):
            e = e[2]
        elif e[0] == "try":
            e = e[1]
        elif e[0] == "mcall" and e[2] in ("clone", "to_owned", "borrow", "borrow_mut", "as_ref", "as_mut", "unwrap", "to_vec", "as_slice", "as_mut_slice") and len(e[4]) <= 0:
            e = e[1]
        elif e[0] == "block" and len(e[1]) == 1 and e[1][0][0] == "expr":
            e = e[1][0][1]
        else:
            break
    return e


def _fn_params(it):
    """[(name, type)] of the identifier parameters of a syn fn / method item (the receiver is skipped)"""
    out = []
    for p_ in it["sig"]["inputs"]:
        if is_node(p_[0]):
            pat = p_[0][1] if p_[0][0] == "ptype" else p_[0]
            if pat[0] == "pident":
                out.append((pat[1], p_[1] if len(p_) > 1 else ""))
    return out


def _block_stmts(e):
    """statement list of an expression used as a body (a block, or a single expression)"""
    if is_node(e) and e[0] in ("block", "unsafe"):
        return e[1]
    return [["expr", e]]


def _int_of(e):
    if is_node(e) and e[0] == "int":
        m = re.match(r"\d+", str(e[1]))
        return int(m.group(0)) if m else None
    return None


def subscript_operand_positions(F, rep, rule, fn_rx, floor):
    """In every `match <subscript list> { [A(i1), B(i2)] => .. }` arm, the j-th index operand put into the kernel compiler's argument vector is evaluated from the j-th subscript.

    Nothing is recognised by the spelling of a local.  The subscript list is whatever local the scrutinee of the slice-pattern match over `Subscript::..` patterns names; the
    argument vector is whatever local is handed to a `.compile(..)` call; the indexed value / right-hand side are the dispatcher's `&Value` parameters.  The dispatcher match is
    looked for in the named entry function and in the private helpers of the same module it calls (two levels), and inside an arm a call to a helper of the crate that receives
    the argument vector is analysed as its body with the parameters bound to the arguments - extracting an arm, or the evaluate-and-push step of an arm, into a function changes nothing."""
    from collections import defaultdict
    from lib.facts import strip_refs
    rep.rule(rule, "index operands keep their position: in each arm of the subscript dispatcher the j-th index value pushed to the compiler input is evaluated from `subs[j]` "
                   "(or is Value::IndexAll exactly where the j-th subscript is `:`) - evaluating one subscript twice, or exchanging them, addresses another block")
    crate = "mech_interpreter.lib"
    fns = defaultdict(list)
    for it in F.syn(crate):
        if it["k"] == "fn" and it.get("body"):
            fns[it["name"]].append(it)
    PUSHES = ("push", "extend", "extend_from_slice", "append", "insert")

    def local_fn(call, mod=None):
        p = path_of(call[1])
        if not p:
            return None
        cands = [h for h in fns.get(last_seg(p), ()) if mod is None or h["mod"] == mod]
        return cands[0] if len(cands) == 1 else None

    def cls(e, env, ctx):
        """provenance class of an expression: ("IDX", j) evaluated from the j-th subscript, ("ALL",) the IndexAll marker, ("SRC",) the indexed value / right-hand side, None unknown"""
        if not is_node(e):
            return None
        for x in walk(e):
            if x[0] == "index" and path_of(_peel(x[1])) in ctx["subs"] and _int_of(x[2]) is not None:
                return ("IDX", _int_of(x[2]))
            if x[0] == "mcall" and path_of(_peel(x[1])) in ctx["subs"]:
                if x[2] == "first" and not x[4]:
                    return ("IDX", 0)
                if x[2] in ("get", "get_unchecked") and len(x[4]) == 1 and _int_of(x[4][0]) is not None:
                    return ("IDX", _int_of(x[4][0]))
        src = False
        for x in walk(e):
            if x[0] == "path":
                if x[1].endswith("IndexAll"):
                    return ("ALL",)
                if x[1] in ctx["binders"]:
                    return ("IDX", ctx["binders"][x[1]])
                c = env.get(x[1])
                if c is not None and c != ("SRC",):
                    return c
                if c == ("SRC",) or (x[1] in ctx["src"] and x[1] not in env):
                    src = True
        return ("SRC",) if src else None

    def vec_of(e, ctx):
        p = path_of(_peel(e))
        return p if p in ctx["vecs"] else None

    def inline_target(e, ctx):
        """a call, anywhere in `e`, to a function of this crate that is handed the argument vector: (call node, callee item)"""
        for c in walk(e):
            if c[0] == "call" and any(vec_of(a, ctx) for a in c[2]):
                h = local_fn(c)
                if h is not None:
                    return c, h
        return None

    def seqs(stmts, env, acc, ctx, depth=0):
        """all sequences (lists of classes) the argument vector can hold after `stmts`, one per path"""
        accs = [list(acc)]
        for st in stmts:
            if not is_node(st):
                continue
            e = st[2] if st[0] == "let" and len(st) > 2 else (st[1] if st[0] == "expr" else None)
            if not is_node(e):
                continue
            tgt = inline_target(e, ctx) if depth < 2 else None
            if tgt is not None:
                c, h = tgt
                ctx["visited"].add(id(c))
                ctx2 = {"subs": set(), "vecs": set(), "src": set(), "binders": {}, "visited": ctx["visited"], "more": ctx["more"]}
                env2 = {}
                for (pn, _pt), a in zip(_fn_params(h), c[2]):
                    base = path_of(_peel(a))
                    if base in ctx["vecs"]:
                        ctx2["vecs"].add(pn)
                    elif base in ctx["subs"] and base not in env:
                        ctx2["subs"].add(pn)
                    else:
                        env2[pn] = cls(a, env, ctx)
                ctx["more"].append(h["body"])
                new = []
                for a in accs:
                    new += seqs(h["body"], dict(env2), a, ctx2, depth + 1)
                accs = new or accs
            if st[0] == "let":
                names = [b[1] for b in find(st[1], "pident")]
                pops = [x for x in walk(e) if x[0] == "mcall" and x[2] == "pop" and vec_of(x[1], ctx)]
                if pops:
                    ctx["visited"].add(id(pops[0]))
                    for a in accs:
                        v = a.pop() if a else None
                        for nm in names:
                            env[nm] = v
                elif len(names) == 1 and names[0] in ctx["vecs"] and tgt is None:
                    # the argument vector (re)built from a literal: `vec![a, b, c]` / `[a, b, c]` / `Vec::new()`
                    arr = next((x for x in walk(e) if x[0] == "array"), None)
                    empty = any(x[0] == "call" and re.search(r"(^|::)Vec(::<.*>)?::(new|with_capacity)$", path_of(x[1]) or "") for x in walk(e))
                    accs = [[cls(x, env, ctx) for x in arr[1]] if arr is not None else ([] if empty else [None]) for _ in accs]
                else:
                    c = cls(e, env, ctx)
                    for nm in names:
                        env[nm] = c
            elif e[0] == "assign" and vec_of(e[1], ctx) and tgt is None:
                # `v = vec![a, b, c]`: the same rebuild as an assignment
                arr = next((x for x in walk(e[2]) if x[0] == "array"), None)
                accs = [[cls(x, env, ctx) for x in arr[1]] if arr is not None else [None] for _ in accs]
            elif e[0] == "mcall" and e[2] in PUSHES and vec_of(e[1], ctx) and e[4]:
                ctx["visited"].add(id(e))
                if e[2] == "push":
                    items = [e[4][0]]
                elif e[2] in ("extend", "extend_from_slice") and is_node(_peel(e[4][0])) and _peel(e[4][0])[0] == "array":
                    items = list(_peel(e[4][0])[1])
                else:
                    items = None            # insert / append / extend from an iterator: not modelled
                for a in accs:
                    if items is None:
                        a.append(None)
                    else:
                        a.extend(cls(x, env, ctx) for x in items)
            elif e[0] == "if":
                new = []
                for a in accs:
                    new += seqs(e[2], dict(env), a, ctx, depth)
                    if e[3] is not None:
                        new += seqs(_block_stmts(e[3]), dict(env), a, ctx, depth)
                    else:
                        new.append(list(a))
                accs = new
            elif e[0] == "match":
                new = []
                for a in accs:
                    for ar in e[2]:
                        new += seqs(_block_stmts(ar[2]), dict(env), a, ctx, depth)
                accs = new or accs
            elif e[0] in ("block", "unsafe"):
                new = []
                for a in accs:
                    new += seqs(e[1], env, a, ctx, depth)
                accs = new or accs
        return accs

    def dispatcher_matches(it):
        """(match node, names of the subscript list) for every match whose arms are slice patterns over Subscript variants"""
        for m in find(it["body"], "match"):
            if any(a[0][0] == "pslice" and any("Subscript::" in render_pat(sp) for sp in a[0][1]) for a in m[2]):
                names = {x[1] for x in find(m[1], "path") if "::" not in x[1]}
                yield m, names

    n = 0
    for root in F.syn(crate):
        if root["k"] != "fn" or not re.search(fn_rx, root["name"]) or not root.get("body"):
            continue
        # the entry function and the private helpers of its module it calls (two levels): the dispatcher match may have been moved into one of them
        todo, seen, scope = [(root, 0)], set(), []
        while todo:
            it, d = todo.pop(0)
            if id(it) in seen:
                continue
            seen.add(id(it))
            scope.append(it)
            if d < 2:
                for c in find(it["body"], "call"):
                    h = local_fn(c, root["mod"])
                    if h is not None and h.get("vis", "") != "pub" and not re.search(fn_rx, h["name"]):
                        todo.append((h, d + 1))
        for it in scope:
            vecs = {path_of(_peel(a)) for mc in find(it["body"], "mcall") if mc[2] == "compile" for a in mc[4]} - {None}
            srcs = {pn for pn, pt in _fn_params(it) if re.sub(r"[&\s]|mut\b|'\w+", "", pt) == "Value"}
            for m, subs_names in dispatcher_matches(it):
                for arm in m[2]:
                    p = arm[0]
                    if p[0] != "pslice":
                        continue
                    kinds = []
                    binders = {}
                    for j, sp in enumerate(p[1]):
                        mm = re.search(r"Subscript::(\w+)", render_pat(sp))
                        kinds.append(mm.group(1) if mm else "?")
                        for b in find(sp, "pident"):
                            binders[b[1]] = j
                    ctx = {"subs": set(subs_names), "vecs": set(vecs), "src": set(srcs), "binders": binders, "visited": set(), "more": []}
                    all_seqs = seqs(_block_stmts(arm[2]), {}, [], ctx)
                    # what the walk above could not follow: the vector filled inside a loop / closure / initialiser, or handed to something that is not a function of this crate
                    unmodelled = []
                    for bdy in [arm[2]] + ctx["more"]:
                        for x in walk(bdy):
                            if id(x) in ctx["visited"]:
                                continue
                            if x[0] == "mcall" and x[2] in PUSHES + ("pop",) and path_of(_peel(x[1])) in (ctx["vecs"] | vecs):
                                unmodelled.append(render(x)[:80])
                            elif x[0] == "call" and any(is_node(a) and a[0] == "ref" and a[1] and path_of(_peel(a)) in ctx["vecs"] for a in x[2]):
                                unmodelled.append(render(x)[:80])
                    unknown = any(c is None for s_ in all_seqs for c in s_)
                    uniq = {tuple(c for c in s_ if c is not None and c[0] in ("IDX", "ALL")) for s_ in all_seqs}
                    uniq = {u for u in uniq if u}
                    if not uniq and not unknown and not unmodelled:
                        continue
                    n += 1
                    key = "%s:[%s]" % (root["name"], ",".join(kinds))
                    if unknown or unmodelled:
                        rep.note("undecided", {"rule": rule, "arm": key, "why": "the argument vector is filled in a way the rule does not model (%s): operand positions not decided" % (
                            "; ".join(unmodelled[:3]) or "an operand of unknown provenance")})
                        continue
                    want = tuple(("ALL",) if k == "All" else ("IDX", j) for j, k in enumerate(kinds))
                    bad = sorted(u for u in uniq if u != want)
                    show = lambda u: [("subs[%d]" % c[1]) if c[0] == "IDX" else ":" for c in u]
                    rep.check(not bad, rule, key if not bad else key + ":operands=" + "/".join(show(bad[0])),
                              "%s, arm [%s]: the index operands handed to the kernel compiler are %s, expected %s - the assignment / read addresses rows and columns taken from the wrong subscript" % (
                                  root["name"], ", ".join(kinds), show(bad[0]) if bad else "", show(want)), "%s (mech_interpreter.lib)" % root["name"], sample={"fn": root["name"], "arm": kinds, "operands": [show(u) for u in sorted(uniq)]})
    rep.floor(rule, "subscript dispatcher arms with index operands", n, floor)


# ---------------------------------------------------------------- C05-R9 an out-of-range (zero) index makes the assignment fail
def assign_index_zero_rejected(F, rep, rule):
    """1-based indices are turned into offsets by a CHECKED `ix - 1` in every assignment kernel: index 0 overflows and the statement fails; a saturating / wrapping / clamped form maps
    index 0 onto element 1 and the statement silently overwrites it"""
    from lib import fxn as X
    from lib.kernel import Kernel, Unrecognised, show
    rep.rule(rule, "a failing indexed assignment changes nothing: every assignment kernel converts its 1-based index with the overflow-checked `ix - 1` (index 0 is rejected), never with "
                   "saturating_sub / wrapping_sub / max / clamp forms that turn index 0 into a valid offset")
    S = X.load_fxn_structs(F, ["mech_interpreter.lib", "mech_math.lib"])
    n = 0
    SOFT = re.compile(r"saturating_sub|wrapping_sub|checked_sub|\bmax\(|\bclamp\(|unwrap_or\(")
    for (crate, name), fs in sorted(S.items()):
        if fs.solve is None or "sink" not in dict(fs.fields):
            continue
        try:
            k = Kernel(fs.solve, fs.fields)
        except Unrecognised:
            continue
        ws = [e for e in k.effects if e.kind == "write"]
        if not ws:
            continue
        n += 1
        soft = sorted({m.group(0) for e in ws for m in [SOFT.search(show(e.target))] if m})
        rep.check(not soft, rule, name if not soft else "%s:index-through-%s" % (name, soft[0].strip("(")),
                  "%s::solve addresses its sink through `%s`: index 0 no longer fails (the overflow of `ix - 1` was the only rejection) - `x[0] = v` succeeds and overwrites element 1 instead of "
                  "leaving every binding unchanged" % (name, [show(e.target) for e in ws if SOFT.search(show(e.target))][:1]), "%s (%s)" % (name, crate), sample={"struct": name})
    rep.floor(rule, "assignment kernels with recognised writes", n, 60)


# ---------------------------------------------------------------- C12-R7 the identity passthrough of a matrix annotation is taken only when no reshape is requested
def _bound_names(pat):
    return [b[1] for b in find(pat, "pident") if b[1] and (b[1][0].islower() or b[1][0] == "_")]


def _plain_alias_of(e):
    """the single name an expression merely passes on (`x`, `&x`, `*x`, `x.clone()`, `x.as_ref()`, `x.borrow()`, `Ref::new(x)` is NOT plain) else None"""
    while is_node(e):
        if e[0] == "path":
            return e[1] if "::" not in e[1] else None
        if e[0] in ("ref", "un") and len(e) > 2:
            e = e[2]
        elif e[0] == "paren":
            e = e[1]
        elif e[0] == "mcall" and e[2] in ("clone", "as_ref", "borrow", "to_owned", "as_mut", "borrow_mut", "deref") and not e[4]:
            e = e[1]
        elif e[0] == "try":
            e = e[1]
        else:
            return None
    return None


def _name_roles(it):
    """roles of the locals of a conversion dispatcher, from types and provenance (never from spelling):
       params  - the function's parameters and plain aliases of them
       kinds   - names bound to the element kind of a `ValueKind::Matrix(kind, dims)` pattern (and aliases)
       dims    - names bound to its dims list, or initialised from a `.shape()` call (and aliases)
       lets    - name -> list of initialisers"""
    params = set()
    for inp in it.get("sig", {}).get("inputs", []):
        if inp and is_node(inp[0]):
            params.update(_bound_names(inp[0]))
    kinds, dims = set(), set()
    for p_ in find(it["body"], "pts"):
        if re.search(r"(^|::)ValueKind::Matrix$", p_[1]) and len(p_[2]) == 2:
            kinds.update(_bound_names(p_[2][0]))
            dims.update(_bound_names(p_[2][1]))
    lets = {}
    for n in walk(it["body"]):
        if n[0] == "let" and is_node(n[1]) and len(n) > 2 and n[2] is not None:
            pt = n[1][1] if n[1][0] == "ptype" and is_node(n[1][1]) else n[1]
            if pt[0] == "pident":
                lets.setdefault(pt[1], []).append(n[2])
    changed = True
    while changed:
        changed = False
        for nme, inits in lets.items():
            for init in inits:
                al = _plain_alias_of(init)
                for role in (params, kinds, dims):
                    if al in role and nme not in role:
                        role.add(nme)
                        changed = True
                if nme not in dims and is_node(init) and init[0] == "mcall" and init[2] == "shape":
                    dims.add(nme)
                    changed = True
    return params, kinds, dims, lets


def _mentions(e, names):
    return bool(set(re.findall(r"[A-Za-z_]\w*", render(e))) & names)


def c12_identity_passthrough_guard(F, rep):
    from lib import guards as G
    rep.rule("C12-R7", "matrix annotation fast path: the source matrix is handed back unchanged (ConvertMatPassthrough { out: source }) only under guards that say no reshape is "
                       "requested - the target's shape list is empty (or equal to the source shape) - and the element kinds are equal; a looser test (e.g. `is_convertible_to`, which "
                       "only compares element counts) returns a 1x4 matrix for `<[f64]:2,2>`")
    n = 0
    for it in F.syn("mech_interpreter.lib"):
        if it["k"] != "fn" or not it.get("body"):
            continue
        roles = None
        for s, facts in G.sites(it["body"], "struct"):
            if s[1].split("::")[-1] != "ConvertMatPassthrough":
                continue
            outs = [f[1] for f in s[2] if f[0] == "out"]
            if not outs:
                continue
            if roles is None:
                roles = _name_roles(it)
            params, kinds, dims, lets = roles
            # the identity path hands back an INPUT of the function: `Ref::new(<param or plain alias of it>.clone())`
            v = outs[0]
            if is_node(v) and v[0] == "call" and (path_of(v[1]) or "").split("::")[-1] == "new" and len(v[2]) == 1:
                v = v[2][0]
            src_name = _plain_alias_of(v)
            if src_name is None or src_name not in params:
                continue
            n += 1
            at = list(G.atoms(facts))
            # a named condition (`let no_reshape = dims.is_empty() && ..; if no_reshape`) stands for its initialiser
            k = 0
            while k < len(at) and k < 200:
                c, pol = at[k]
                k += 1
                if c[0] == "path" and c[1] in lets and len(lets[c[1]]) == 1:
                    at += G.atoms([(lets[c[1]][0], pol)])
            is_dims = lambda e: _mentions(e, dims) or any(m[2] == "shape" for m in find(e, "mcall"))
            shape_ok = False
            kind_ok = False
            for c, pol in at:
                if c[0] == "mcall" and c[2] == "is_empty" and pol and is_dims(c[1]):
                    shape_ok = True
                if c[0] == "bin" and ((c[1] == "==" and pol) or (c[1] == "!=" and not pol)):
                    L, R = c[2], c[3]
                    for x, y in ((L, R), (R, L)):
                        if is_node(x) and x[0] == "mcall" and x[2] == "len" and is_dims(x[1]) and re.fullmatch(r"0(usize)?", re.sub(r"\s", "", render(y))):
                            shape_ok = True
                    if is_dims(L) and is_dims(R) and not any(x[0] == "index" for x in list(find(L, "index")) + list(find(R, "index"))):
                        shape_ok = True
                    if _mentions(L, kinds) and _mentions(R, kinds):
                        kind_ok = True
            conds = [("" if pol else "!") + render(c)[:50] for c, pol in at if c[0] in ("mcall", "bin")]
            ok = shape_ok and kind_ok
            rep.check(ok, "C12-R7", "%s:identity-passthrough" % it["name"] if ok else "%s:identity-passthrough:%s" % (it["name"], "no-shape-guard" if not shape_ok else "no-kind-guard"),
                      "%s returns the source matrix unchanged under %s: %s - an annotation that asks for another shape of equal element count (or another element kind) gets the source back as it is" % (
                          it["name"], conds, "nothing says the requested shape is empty or equal to the source's" if not shape_ok else "the element kinds are not compared"),
                      "%s (mech_interpreter.lib)" % it["name"], sample={"fn": it["name"], "guards": conds})
    rep.floor("C12-R7", "identity passthrough sites", n, 1)


# ---------------------------------------------------------------- C11-R7 the k-th block handed to a concatenation kernel is the k-th argument
def c11_block_operand_positions(F, rep):
    rep.rule("C11-R7", "block operands keep their position: in every arm of the horzcat / vertcat dispatchers the field eK of the concatenation struct is built from arguments[K] "
                       "(through `let eK = extract(&arguments[K])`, a tuple match over (&arguments[0], &arguments[1], ..), or directly) - a repeated or exchanged index writes one block twice "
                       "and never checks the kind of the block it dropped")
    n = 0
    fam7 = fn_family(F.syn("mech_interpreter.lib"), lambda x: x["name"] in ("impl_horzcat_fxn", "impl_vertcat_fxn"))
    for it_, root_ in fam7.values():
        # a dispatcher split into private helper functions is reported under the dispatcher's name
        it = dict(it_, name=root_["name"])

        # the argument list is the parameter of type &Vec<Value> (whatever it is called) and plain aliases of it
        argnames = set()
        for inp in it.get("sig", {}).get("inputs", []):
            if inp and is_node(inp[0]) and len(inp) > 1 and re.search(r"Vec\s*<\s*Value\s*>|\[\s*Value\s*\]", str(inp[1])):
                argnames.update(b_[1] for b_ in find(inp[0], "pident"))
        if not argnames:
            argnames = {"arguments"}
        for st in walk(it["body"]):
            if st[0] == "let" and is_node(st[1]) and st[1][0] == "pident" and len(st) > 2 and _plain_alias_of(st[2]) in argnames:
                argnames.add(st[1][1])

        def arg_ix(e, env):
            """index K if the expression is taken from arguments[K] (directly or through a name bound from it)"""
            if not is_node(e):
                return None
            for x in walk(e):
                if x[0] == "index" and is_node(x[1]) and x[1][0] == "path" and x[1][1] in argnames and is_node(x[2]) and x[2][0] == "int":
                    return int(re.sub(r"\D.*$", "", str(x[2][1])))
            for x in walk(e):
                if x[0] == "path" and x[1] in env:
                    return env[x[1]]
            return None

        def visit(e, env):
            nonlocal n
            if not is_node(e):
                if isinstance(e, list):
                    for x in e:
                        visit(x, env)
                return
            t = e[0]
            if t in ("block", "unsafe"):
                env2 = dict(env)
                for st in e[1]:
                    visit(st, env2)
                return
            if t == "let":
                if len(e) > 2 and e[2] is not None:
                    visit(e[2], env)
                    k = arg_ix(e[2], env)
                    for b in find(e[1], "pident"):
                        if k is not None:
                            env[b[1]] = k
                        else:
                            env.pop(b[1], None)
                return
            if t == "expr":
                visit(e[1], env)
                return
            if t == "match":
                scr = e[1]
                comps = scr[1] if is_node(scr) and scr[0] == "tuple" else [scr]
                ks = [arg_ix(c, env) for c in comps]
                for a in e[2]:
                    env2 = dict(env)
                    pats = a[0][1] if a[0][0] == "ptuple" and len(a[0][1]) == len(comps) else ([a[0]] if len(comps) == 1 else [])
                    for j, p_ in enumerate(pats):
                        for b in find(p_, "pident"):
                            if ks[j] is not None:
                                env2[b[1]] = ks[j]
                            else:
                                env2.pop(b[1], None)
                    if a[1] is not None:
                        visit(a[1], env2)
                    visit(a[2], env2)
                return
            if t == "for":
                env2 = dict(env)
                for b in find(e[1], "pident"):
                    env2.pop(b[1], None)
                visit(e[3], env2)
                return
            if t == "struct":
                fields = [(f[0], f[1]) for f in e[2] if re.match(r"^e\d+$", f[0])]
                if len(fields) >= 2:
                    n += 1
                    got = [(f, arg_ix(v, env)) for f, v in fields]
                    bad = [(f, k) for f, k in got if k is not None and k != int(f[1:])]
                    und = [f for f, k in got if k is None]
                    name = e[1].split("::")[-1]
                    rep.check(not bad, "C11-R7", "%s:%s" % (it["name"], name) if not bad else "%s:%s:%s" % (it["name"], name, ",".join("%s=arguments[%d]" % (f, k) for f, k in bad)),
                              "%s builds %s with %s: block %s of the row/column is not the block written at that position" % (
                                  it["name"], name, ", ".join("%s from arguments[%s]" % (f, k) for f, k in got), bad[0][0] if bad else ""), "%s (mech_interpreter.lib)" % it["name"],
                              sample={"struct": name, "operands": got, "untraced": und})
            for x in e[1:]:
                if isinstance(x, list):
                    visit(x, env)

        visit(["block", it["body"]], {})
    rep.floor("C11-R7", "concatenation struct constructions with >= 2 block operands", n, 20)


# ---------------------------------------------------------------- C14-R8 the kind of a set operator's result is the kind of its own elements
def c14_result_kind_from_result(F, rep):
    """moved to rules/c14b.py (operands / result are the struct fields a local was taken from)"""
    from rules.c14b import result_kind_from_result
    return result_kind_from_result(F, rep)


# ---------------------------------------------------------------- C14-R9 a kind test a set kernel applies silently is applied loudly when the kernel is built
def c14_kind_guard_mirrored(F, rep):
    """moved to rules/c14b.py (predicates are followed through named locals and private helpers on both sides)"""
    from rules.c14b import kind_guard_mirrored
    return kind_guard_mirrored(F, rep)


# ---------------------------------------------------------------- C16-R10 broadcasting a scalar function over a matrix keeps order and shape
def c16_broadcast_shape(F, rep):
    rep.rule("C16-R10", "try_broadcast_user_function: the function is applied to every element in storage order (one push per element of matrix_like_values(source), no reordering or "
                        "filtering adaptor, errors propagated) and the results are reassembled with (shape[0], shape[1]) of the SOURCE in that order; matrix_like_values enumerates every "
                        "matrix kind through as_vec() (storage order), the order ToMatrix::to_matrix consumes")
    its = [it for it in F.syn("mech_interpreter.lib") if it["k"] == "fn" and it["name"] == "try_broadcast_user_function" and it.get("body")]
    if not rep.check(len(its) == 1, "C16-R10", "anchor:try_broadcast_user_function", "try_broadcast_user_function not found"):
        return
    body = its[0]["body"]
    loops = [f for f in find(body, "for") if any(m[2] == "push" for m in find(f[3], "mcall")) and any((path_of(c[1]) or "").endswith("execute_user_function") for c in find(f[3], "call"))]
    if rep.check(len(loops) == 1, "C16-R10", "anchor:element-loop", "the element loop was not found (%d)" % len(loops)):
        lp = loops[0]
        it_txt = render(lp[2]).replace(" ", "")
        plain = re.match(r"^&?\w+(\.iter\(\)|\.into_iter\(\))?$", it_txt) is not None
        src_elems = None
        for st in find(body, "let"):
            if any(b[1] == re.sub(r"\W.*$", "", it_txt.lstrip("&")) for b in find(st[1], "pident")) and st[2] is not None:
                src_elems = render(st[2])
        from_all = src_elems is not None and "matrix_like_values" in src_elems
        pushes = [m for m in find(lp[3], "mcall") if m[2] == "push"]
        one_per = len(pushes) == 1 and not any(x[0] in ("if", "match", "continue", "break") for x in walk(lp[3]) if x is not lp[3])
        elem = [b[1] for b in find(lp[1], "pident")]
        arg_ok = any((path_of(c[1]) or "").endswith("execute_user_function") and len(c[2]) >= 2 and elem and re.search(r"\b%s\b" % re.escape(elem[0]), render(c[2][1])) for c in find(lp[3], "call"))
        ok = plain and from_all and one_per and arg_ok
        rep.check(ok, "C16-R10", "broadcast:every-element-in-order" if ok else "broadcast:element-loop:%s" % ("iterates-" + re.sub(r"\W+", "-", it_txt)[:30] if not plain else "not-all-elements" if not from_all else "conditional-push" if not one_per else "argument"),
                  "try_broadcast_user_function iterates `%s` (elements from `%s`) and pushes %d result(s) per element: the output does not hold f(element) for every element in storage order" % (
                      render(lp[2])[:40], (src_elems or "?")[:50], len(pushes)), "try_broadcast_user_function (mech_interpreter.lib)")
    builds = [c for c in find(body, "call") if (path_of(c[1]) or "").endswith("build_typed_matrix_from_values")]
    if rep.check(len(builds) == 1, "C16-R10", "anchor:reassembly", "build_typed_matrix_from_values call not found"):
        a = [render(x).replace(" ", "") for x in builds[0][2]]
        shape_src = None
        for st in find(body, "let"):
            if st[1][0] == "pident" and st[1][1] == "shape" and st[2] is not None:
                shape_src = render(st[2]).replace(" ", "")
        ok = len(a) == 4 and a[2] == "shape[0]" and a[3] == "shape[1]" and shape_src == "source.shape()"
        rep.check(ok, "C16-R10", "broadcast:source-shape" if ok else "broadcast:shape-%s" % re.sub(r"\W+", "-", ",".join(a[2:]))[:30],
                  "the broadcast result is reassembled with (%s) from `%s`: expected (shape[0], shape[1]) of source.shape() - a non-square matrix comes back transposed or reshaped" % (
                      ", ".join(a[2:]), shape_src), "try_broadcast_user_function (mech_interpreter.lib)")
    bt = [it for it in F.syn("mech_interpreter.lib") if it["k"] == "fn" and it["name"] == "build_typed_matrix_from_values" and it.get("body")]
    if rep.check(len(bt) == 1, "C16-R10", "anchor:build_typed_matrix_from_values", "build_typed_matrix_from_values not found"):
        params = [p_[0][1] for p_ in bt[0]["sig"]["inputs"] if is_node(p_[0]) and p_[0][0] == "pident"]
        n_c = 0
        if rep.check(len(params) == 4, "C16-R10", "anchor:build-signature", "build_typed_matrix_from_values no longer takes (kind, outputs, rows, cols): %s" % params):
            rname, cname = params[2], params[3]
            for c in list(find(bt[0]["body"], "call")) + list(find(bt[0]["body"], "mcall")):
                args = c[2] if c[0] == "call" else c[4]
                names = [render(a).replace(" ", "") for a in args]
                if rname in names and cname in names:
                    n_c += 1
                    okc = names.index(rname) < names.index(cname)
                    fn_ = (path_of(c[1]) or "?") if c[0] == "call" else c[2]
                    rep.check(okc, "C16-R10", "reassembly:%s:rows-then-cols" % fn_.split("::")[-1] if okc else "reassembly:%s:cols-before-rows" % fn_.split("::")[-1],
                              "build_typed_matrix_from_values calls %s(%s): the constructor takes (rows, cols) - a non-square broadcast result of this kind comes back with its dimensions exchanged" % (fn_, ", ".join(names)),
                              "build_typed_matrix_from_values (mech_interpreter.lib)")
        rep.floor("C16-R10", "matrix constructions in build_typed_matrix_from_values", n_c, 2)
    ml = [it for it in F.syn("mech_interpreter.lib") if it["k"] == "fn" and it["name"] == "matrix_like_values" and it.get("body")]
    if rep.check(len(ml) == 1, "C16-R10", "anchor:matrix_like_values", "matrix_like_values not found"):
        n_arm = n_ok = 0
        for m in find(ml[0]["body"], "match"):
            for arm in m[2]:
                if not re.search(r"Value::Matrix\w+\(", render_pat(arm[0])):
                    continue
                n_arm += 1
                txt = render(arm[2]).replace(" ", "")
                if re.search(r"\.as_vec\(\)(\.into_iter\(\)\.map\(|\)$)", txt) and not re.search(r"\.rev\(\)|\.skip\(|\.step_by\(|\.filter\(|transpose", txt):
                    n_ok += 1
                else:
                    rep.bad("C16-R10", "matrix_like_values:%s" % re.sub(r"[^A-Za-z0-9]+", "-", render_pat(arm[0]))[:40],
                            "matrix_like_values enumerates %s as `%s`, not as_vec() in storage order" % (render_pat(arm[0])[:30], render(arm[2])[:60]), "matrix_like_values (mech_interpreter.lib)")
        rep.floor("C16-R10", "matrix kinds enumerated through as_vec()", n_ok, 10)
