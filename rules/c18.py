"""C18 - table joins are the relational-algebra joins on the shared columns (structural clauses)."""
import re
from lib.facts import find, walk, is_node, path_of, render, render_pat, strip_refs, last_seg
from lib import absint as A


def params_of_type(it, type_rx):
    """names of the parameters of a fn/method item whose declared type matches type_rx (a role is a POSITION + TYPE in the signature, never a spelling)"""
    out = []
    for inp in (it.get("sig") or {}).get("inputs", []):
        if inp and inp[0] != "self" and is_node(inp[0]) and re.search(type_rx, (inp[1] or "").replace(" ", "")):
            out += [b[1] for b in find(inp[0], "pident")]
    return out


def _loop_source(e):
    """`&x`, `x.iter()`, `x.iter().enumerate()`, `x.clone()` -> x  (the collection a loop walks)"""
    while is_node(e):
        if e[0] == "ref":
            e = e[2]
        elif e[0] == "paren":
            e = e[1]
        elif e[0] == "mcall" and e[2] in ("iter", "iter_mut", "into_iter", "enumerate", "clone", "borrow", "as_ref") and not e[4]:
            e = e[1]
        else:
            break
    return e


def loop_bindings_over_field(body, owners, field):
    """every `for PAT in <owner>.<field>` (owner one of the given locals; borrowed / .iter()'d forms included)"""
    out = []
    for f in find(body, "for"):
        src = _loop_source(f[2])
        if is_node(src) and src[0] == "field" and src[2] == field and path_of(_loop_source(src[1])) in owners:
            out.append(f)
    return out

EXPLANATION = (
    "Decides structural clauses of C18 by evaluating the join routine symbolically, once per JoinMode (lib/absint.py: the two table parameters are the roles L / R by position and type, the "
    "JoinMode parameter is bound to one variant; private helpers, closures, iterator pipelines and mode predicates are followed; every container has an identity and a log of what is put into "
    "it under which path condition and loop nest). (R1) routing: each table operator token compiles the join struct of its own name and each struct passes its own JoinMode on, operands in "
    "(lhs, rhs) order by provenance from the Term. (R2) mode table: which row classes reach the output row list (the list whose length is the `rows` of the result table) in each mode - every "
    "matching pair (a row built from the left row and a row of the match set, or of the right rows that satisfy the predicate), the unmatched left rows (no right row, under an empty match set), "
    "the unmatched right rows (loop over all right rows skipping the marked ones), or left rows only (semi: under a non-empty match set, anti: under an empty one) - equals the "
    "relational-algebra definition of that mode; the match set is refilled for every left row from ALL right rows; matched right rows are marked in every mode that later emits the unmatched ones. "
    "(R3) the match predicate is the conjunction (`all`, `!any(!=)` or the early-return loop) over ALL shared column pairs of cell equality, each side read from its own table, column and row; "
    "the shared columns are collected once for every column name present on both sides, with no early exit. (R4) optional kinds: right-only columns become optional exactly in LeftOuter / "
    "FullOuter, left-only (non-shared) columns exactly in RightOuter / FullOuter; semi / anti joins keep the left columns only. (R5) row selection: the table access kernels copy, for every "
    "column, exactly the addressed rows in order (scalar: row ix-1; index vector: output row k = source row ix[k]-1; logical mask: flagged rows packed in order) - kernel normal forms. "
    "(R6) row selection, allocation and kernel together: for every construction site of a table row-selection kernel (a function struct with a Ref<MechTable> source, an index operand "
    "of type usize / vector of usize / vector of bool, and a result cell - found by field types), the compiler function that allocates the result, then solve() and out() of the struct "
    "it builds, are evaluated from the compiler's expansion of their bodies over a closed finite model of the container values (lib/tabsim.py; helpers such as empty_table / get_record from "
    "their own bodies) on every table of 0..3 rows and every index, index vector (length 0..3) and mask over it; the model result has exactly the selected rows in order in every column, "
    "a row count and column lengths equal to their number and the source's columns, kinds and names. (R7) the same finite-model evaluation for the join operators: every compiler "
    "function that reaches a construction site of a join kernel (two Ref<MechTable> operands, a table result, a mode field of an enum type) is evaluated on a finite table of operand pairs "
    "(one, two and no shared column, 0..2 rows each, duplicate keys) and yields, as allocated and after solve(), exactly the multiset of rows relational algebra defines for the mode the "
    "struct carries, over the union of the columns, with optional kinds exactly where a value can be missing. (R8) route agreement: the subscript dispatcher chooses the access compiler by the SHAPE of the evaluated index (match shape[..] with arms [1,1] / [n,1] / [1,n]) while "
    "the table compilers accept by the KIND of the index value; for every such shape table whose compilers lead to a row-selection kernel, every model index value (scalar index, index "
    "vector and mask of 1..3 elements; index vectors only where the operand passes through as_index) gets its shape from Value::shape(), the arm that shape selects is taken and its compiler, "
    "evaluated on a table operand, must build the selection of exactly those rows; likewise the range-subscript arm on what Vec<usize>::to_value() makes of every contiguous range of rows. R6 / R7 / R8 decide these finite tables of the extracted code over a model of the "
    "std / indexmap / nalgebra containers, the Ref cell and the Matrix storage interface - not the behaviour of the running program on arbitrary operands; a body outside the model is "
    "recorded as undecided. Where R2 meets a form of the routine its role interpreter cannot classify and R7 decided every mode concerned, R2 records undecided instead of a violation. "
    "Not decided: row values and multiplicities beyond the finite tables, other cell kinds, duplicate column names."
)
TECHNIQUE = ("role interpreter over the syntax tree of the join routine (abstract evaluation per JoinMode with helper inlining, constant propagation of the mode, iterator pipelines as loops, "
             "guard clauses as facts): emission table per JoinMode, predicate normal form, column-discovery loop, optional-kind mode sets; routing tables token -> struct -> mode; "
             "finite-model evaluation (lib/tabsim.py) of the row-selection kernels and of the join operators - allocating compiler function + solve() + out() - against the rows the property defines, "
             "over finite tables of operands")

WANT = {"Inner": {"pairs"}, "LeftOuter": {"pairs", "unmatched_lhs"}, "RightOuter": {"pairs", "unmatched_rhs"}, "FullOuter": {"pairs", "unmatched_lhs", "unmatched_rhs"},
        "LeftSemi": {"semi"}, "LeftAnti": {"anti"}}


MODES = ["Inner", "LeftOuter", "RightOuter", "FullOuter", "LeftSemi", "LeftAnti"]
L, R = ("atom", "L"), ("atom", "R")


# ---------------------------------------------------------------- R1 helpers
def _operand_origins(it):
    """term(): which operand of the Term an expression is made of, in source order - 'lhs' (the field `lhs` of the &Term parameter) or 'rhs' (the second component of
    what the loop over its field `rhs` binds).  Followed through `let` initialisers (`let operands = vec![lhs, rhs]`); a role is a field of a typed parameter,
    never the spelling of a local.  -> function expr -> ordered list of roles"""
    terms = set(params_of_type(it, r"^&(mut)?Term$"))
    loop_bound = set()
    for lp in loop_bindings_over_field(it["body"], terms, "rhs"):
        pat = lp[1]
        while pat[0] in ("pref", "ptype"):
            pat = pat[2] if pat[0] == "pref" else pat[1]
        if pat[0] == "ptuple" and len(pat[1]) == 2:
            loop_bound |= {b[1] for b in find(pat[1][1], "pident")}
    lets = {}
    for st in find(it["body"], "let"):
        if st[2] is not None:
            for b in find(st[1], "pident"):
                lets.setdefault(b[1], []).append(st[2])

    def ordered(e, busy=()):
        out = []
        for x in walk(e):
            tags = []
            if x[0] == "field" and x[2] == "lhs" and path_of(strip_refs(x[1])) in terms:
                tags = ["lhs"]
            elif x[0] == "path" and "::" not in x[1] and x[1] not in busy:
                for init in lets.get(x[1], []):
                    tags = ordered(init, busy + (x[1],))
                    if tags:
                        break
                if not tags and x[1] in loop_bound:
                    tags = ["rhs"]
            elif x[0] == "path" and x[1] in busy and x[1] in loop_bound:
                tags = ["rhs"]
            for t in tags:
                if not out or out[-1] != t:
                    out.append(t)
        return out
    return ordered


def check_tokens(items, rep, crate):
    """R1, token side: every arm `TableOp::X => TableX {..}` (in term() or in a helper term() calls) and the operands of the `.compile(..)` that receives the struct"""
    n_tok = 0
    fns = [it for it in items if it.get("k") in ("fn", "method") and it.get("body")]
    for it in fns:
        arms = [(m, a) for m in find(it["body"], "match") for a in m[2] if re.search(r"TableOp::(\w+)", render_pat(a[0]))
                and any(s_[1].split("::")[-1].startswith("Table") for s_ in find(a[2], "struct"))]
        if not arms:
            continue
        org = _operand_origins(it)
        # `.compile(..)` calls outside the arms that receive what this function returns (the struct is chosen in a helper, compiled by the caller)
        outer_args = []
        for g in fns:
            if g is it:
                continue
            og = None
            for c in find(g["body"], "mcall"):
                if c[2] == "compile" and c[4] and any(last_seg(x[1][1]) == it["name"] for x in find(c[1], "call") if is_node(x[1]) and x[1][0] == "path"):
                    og = og or _operand_origins(g)
                    outer_args.append(og(c[4][0]))
        for m, a in arms:
            mm = re.search(r"TableOp::(\w+)", render_pat(a[0]))
            used = [s_[1].split("::")[-1] for s_ in find(a[2], "struct") if s_[1].split("::")[-1].startswith("Table")]
            n_tok += 1
            ok = used == ["Table%s" % mm.group(1)]
            # operands: the leaves of the argument of `.compile(..)`, each by the Term operand it derives from
            inner = [org(c[4][0]) for c in find(a[2], "mcall") if c[2] == "compile" and c[4]]
            calls = inner or outer_args
            args = calls[0] if calls else []
            ok_args = bool(calls) and all(c == ["lhs", "rhs"] for c in calls)
            rep.check(ok and ok_args, "C18-R1", "token:%s" % mm.group(1) if ok and ok_args else "token:%s->%s(%s)" % (mm.group(1), ",".join(used), ",".join(args[:2])),
                      "TableOp::%s compiles %s with operands %s" % (mm.group(1), used, args[:2]), "%s (%s)" % (it["name"], crate), sample={"token": mm.group(1), "struct": used})
    return n_tok


# ---------------------------------------------------------------- the join routine, evaluated once per JoinMode
def _ty(inp):
    return (inp[1] or "").replace(" ", "")


def _is_row_builder(it):
    """a callee that builds ONE output row: takes a table and a row number and returns a value (not a flag, not a table); kept opaque - its call is the role"""
    sig = it["sig"]
    ret = (sig.get("ret") or "").replace(" ", "")
    tys = [_ty(i) for i in sig["inputs"] if not A.is_receiver(i)]
    if any("JoinMode" in t for t in tys) or "MechTable" in ret or ret in ("", "()", "bool", "Value", "Option<Value>") or any(re.match(r"^&?(mut)?u64$", t) for t in tys):
        return False            # a function that reads ONE cell (it is told the column) is not a row builder
    return any("MechTable" in t for t in tys) and any(t == "usize" for t in tys)


def _is_kind_wrapper(it):
    """&ValueKind -> ValueKind (the function that makes a column kind optional)"""
    sig = it["sig"]
    tys = [_ty(i) for i in sig["inputs"] if not A.is_receiver(i)]
    return (sig.get("ret") or "").replace(" ", "") == "ValueKind" and len(tys) == 1 and re.match(r"^&?ValueKind$", tys[0]) is not None


def join_routines(items):
    """fns that take two tables and a JoinMode and return a table: the join routine is recognised by its signature"""
    out = []
    for it in items:
        if it.get("k") not in ("fn", "method") or it.get("body") is None:
            continue
        tys = [_ty(i) for i in it["sig"]["inputs"] if not A.is_receiver(i)]
        if len([t for t in tys if re.search(r"\bMechTable\b", t)]) == 2 and len([t for t in tys if re.search(r"\bJoinMode\b", t)]) == 1 and "MechTable" in (it["sig"].get("ret") or ""):
            out.append(it)
    if len(out) > 1:
        names = {it["name"] for it in out}
        called = {last_seg(c[1][1]) for it in out for c in find(it["body"], "call") if is_node(c[1]) and c[1][0] == "path"} & names
        roots = [it for it in out if it["name"] not in called]
        out = roots or out
    return out


class ModeRun:
    """the join routine evaluated with the two table parameters bound to the roles L / R and the JoinMode parameter bound to one variant"""

    def __init__(self, items, routine, mode):
        self.mode = mode
        self.I = I = A.Interp(items, opaque=lambda it: _is_row_builder(it) or _is_kind_wrapper(it))
        args, nt = [], 0
        for k, inp in enumerate(i for i in routine["sig"]["inputs"] if not A.is_receiver(i)):
            t = _ty(inp)
            if re.search(r"\bJoinMode\b", t):
                args.append(("const", "JoinMode::" + mode))
            elif re.search(r"\bMechTable\b", t):
                args.append(L if nt == 0 else R)
                nt += 1
            else:
                args.append(("atom", "arg%d" % k))
        self.result = I.run_item(routine, args)
        # ---- the result table: rows = <row list>.len(), cols = <column list>.len()
        self.out_rows = self.out_cols = None
        for x in A.subvalues(self.result):
            if x[0] == "struct" and x[1] == "MechTable":
                f = dict(x[2])
                for fld, attr in (("rows", "out_rows"), ("cols", "out_cols")):
                    v = f.get(fld)
                    if v is not None and v[0] == "m" and v[2] == "len" and v[1][0] == "obj":
                        setattr(self, attr, v[1][1])
        self.builders = {}
        for name, its in I.fns.items():
            for it in its:
                if _is_row_builder(it):
                    self.builders[name] = it
        if self.out_rows is None:
            # fallback: the list that receives the rows the row builders make
            cands = {e["obj"] for e in I.events if e["k"] == "add" and e["value"][0] == "call" and e["value"][1] in self.builders}
            feeds = {e["value"][1][1] for e in I.events if e["k"] == "add" and e["value"][0] == "elem" and e["value"][1][0] == "obj"}
            cands -= feeds
            if len(cands) == 1:
                self.out_rows = cands.pop()
        self.find_roles()

    # ---- loops
    def range_over_rows(self, lid, side, exact=True):
        src = self.I.loops[lid]["src"]
        if src[0] != "range":
            return False
        if exact:
            return src == ("range", ("int", 1), ("field", side, "rows"), True)
        return any(x == ("field", side, "rows") for x in A.subvalues(src))

    def find_roles(self):
        I = self.I
        self.left_loops = [l for l in I.loops if self.range_over_rows(l, L, exact=False)]
        self.right_loops = [l for l in I.loops if self.range_over_rows(l, R, exact=False)]
        # the match sets: a list that receives the right row number, inside a left-row and a right-row loop, under a condition that relates both rows of both tables
        self.matchsets = {}
        for e in I.events:
            if e["k"] != "add":
                continue
            v = e["value"]
            if not (v[0] == "elem" and v[2] in self.right_loops and v[2] in e["loops"]):
                continue
            ll = [l for l in e["loops"] if l in self.left_loops]
            if not ll:
                continue
            lrow = ("elem", I.loops[ll[-1]]["src"], ll[-1])
            for c, pol in A.flat_conds(e["ctx"]):
                if self.is_predicate(c, lrow, v):
                    # `if p { push }` and `if !p { continue } push` state the same fact: p with its polarity is the predicate
                    c = c if pol else ("not", c)
                    self.matchsets[e["obj"]] = {"pred": c, "lrow": lrow, "rrow": v, "left": ll[-1], "right": v[2], "conds": A.flat_conds(e["ctx"]), "alloc": I.objs[e["obj"]]["loops"]}
        # ... or no list at all: a flag `some right row matched` set in the loop over the right rows under the predicate (declared per left row)
        for e in I.events:
            for c, pol in A.flat_conds(e["ctx"]):
                if c[0] != "exists" or c[1] not in self.right_loops or ("flag", c[1]) in self.matchsets:
                    continue
                lid = c[1]
                ll = [l for l in (I.loops[lid]["outer"] or ()) if l in self.left_loops]
                if not ll:
                    continue
                lrow = ("elem", I.loops[ll[-1]]["src"], ll[-1])
                rrow = ("elem", I.loops[lid]["src"], lid)
                for c2, pol2 in A.flat_conds(c[2]):
                    if self.is_predicate(c2, lrow, rrow):
                        self.matchsets[("flag", lid)] = {"pred": c2 if pol2 else ("not", c2), "lrow": lrow, "rrow": rrow, "left": ll[-1], "right": lid,
                                                         "conds": A.flat_conds(c[2]), "alloc": (ll[-1],)}
        # the marks: a list of `false`, one per right row
        self.marks = {oid for oid, o in I.objs.items() if o["kind"] == "filled" and o["init"] and o["init"][0] == ("bool", False) and o["init"][1] == ("field", R, "rows")}

    def is_predicate(self, c, lrow, rrow):
        sv = set(A.subvalues(c))
        return L in sv and R in sv and lrow in sv and rrow in sv

    def predicate_holds(self, conds, lrow, rrow):
        """the path condition contains THE match predicate (the one the match sets are filled under, or - without match sets - a condition relating both rows
        of both tables), with the polarity that makes it true"""
        for c, pol in conds:
            if not self.is_predicate(c, lrow, rrow):
                continue
            p = c if pol else ("not", c)
            n = _norm_predicate(self.I, p)
            if n is not None and n[0] == "all":
                return True
        return False

    # ---- emission classes of this mode
    def emptiness_of_matchset(self, conds):
        emp = None
        for c, pol in conds:
            em = A.emptiness(c, pol)
            if em and em[0][0] == "obj" and em[0][1] in self.matchsets:
                emp = em[1]
            if c[0] == "exists" and ("flag", c[1]) in self.matchsets:
                emp = not pol
        return emp

    def classify(self, item):
        I = self.I
        v, loops = item["value"], item["loops"]
        conds = A.flat_conds(item["ctx"])
        emp = self.emptiness_of_matchset(conds)
        ll = [l for l in loops if l in self.left_loops]
        rl = [l for l in loops if l in self.right_loops]
        ml = [l for l in loops if I.loops[l]["src"][0] == "obj" and I.loops[l]["src"][1] in self.matchsets]
        # the unmatched right rows are recognised by WHERE they are emitted (a row assembled in place or by any helper): in a loop over the right rows only,
        # for the rows that are not marked
        if rl and not ll and not ml and self.unmarked_guard(conds, rl[-1]):
            return "unmatched_rhs"
        if v[0] == "call" and v[1] in self.builders:
            it = self.builders[v[1]]
            args = v[2]
            tabs = [args[k] for k in A.param_indices(it, r"\bMechTable\b") if k < len(args)]
            # a row number is a `usize`; "no row" is spelled 0 + flag, or None of an Option<usize>
            rows = [args[k] for k in A.param_indices(it, r"^(usize|Option<usize>)$") if k < len(args)]
            rows = [r[2] if r[0] == "opt" and r[1] == ("bool", True) else ("int", 0) if r[0] == "opt" and r[1] == ("bool", False) else r for r in rows]
            flags = [args[k] for k in A.param_indices(it, r"^bool$") if k < len(args)]
            optional_row = any(re.match(r"^Option<usize>$", _ty(i)) for i in it["sig"]["inputs"] if not A.is_receiver(i))
            lrow = ("elem", I.loops[ll[-1]]["src"], ll[-1]) if ll else None
            if len(tabs) == 2:
                if tabs == [L, R] and len(rows) == 2 and lrow is not None and rows[0] == lrow:
                    r = rows[1]
                    matched_row = (r[0] == "elem" and r[2] in ml) or \
                        (r[0] == "elem" and r[2] in rl and self.predicate_holds(conds, lrow, r))
                    if matched_row and all(f == ("bool", False) for f in flags) and emp is not True:
                        return "pairs"
                    if r == ("int", 0) and (flags or optional_row) and all(f == ("bool", True) for f in flags) and emp is True and not ml and not rl:
                        return "unmatched_lhs"
                return "odd-merge(%s)%s" % (",".join(A.show(a) for a in (tabs + rows + flags)[2:]), "" if emp is None else ":empty=%s" % emp)
            if len(tabs) == 1 and tabs == [L] and len(rows) == 1 and lrow is not None and rows[0] == lrow and not ml and not rl:
                return "semi" if emp is False else "anti" if emp is True else "lhs-only-unguarded"
        if v[0] == "obj" and ll:
            # a row assembled in place (a row builder inlined): classified by what its cells are read from
            lrow = ("elem", I.loops[ll[-1]]["src"], ll[-1])
            d = self.row_desc(v[1])
            left = {e for e in d if e[0] == "L"}
            right = {e for e in d if e[0] == "R"}
            if d and left == {("L", frozenset(["L"]), frozenset([lrow]))} and not {e for e in d if e[0] == "?"}:
                if not right and not ml and not rl:
                    return "semi" if emp is False else "anti" if emp is True else "lhs-only-unguarded"
                if len(right) == 1:
                    (_, tabs_, rows_), = right
                    if tabs_ == frozenset(["R"]) and len(rows_) == 1:
                        r, = rows_
                        matched_row = (r[0] == "elem" and r[2] in ml) or (r[0] == "elem" and r[2] in rl and self.predicate_holds(conds, lrow, r))
                        if matched_row and emp is not True:
                            return "pairs"
                    if tabs_ == frozenset() and emp is True and not ml and not rl:
                        return "unmatched_lhs"
            return "odd-row(%s)%s" % (";".join(sorted("%s<-%s@%s" % (c_, "+".join(sorted(t_)) or "empty", "+".join(sorted(A.show(x) for x in r_))) for c_, t_, r_ in d)), "" if emp is None else ":empty=%s" % emp)
        return "other:" + A.show(v)[:30]

    def row_desc(self, oid):
        """what a row assembled in place holds: {(side of the column, tables its cell is read from, row numbers used)} - one entry per kind of cell"""
        I = self.I
        out = set()
        rowish = set(self.left_loops) | set(self.right_loops) | {l for l, lp in I.loops.items() if lp["src"][0] == "obj" and lp["src"][1] in self.matchsets}
        for c in A.contents(I, oid):
            side = "?"
            for l in c["loops"]:
                s_ = I.loops[l]["src"]
                if s_[0] == "field" and s_[2] == "data" and s_[1] in (L, R):
                    side = "L" if s_[1] == L else "R"
            val = A.proj(c["value"], 1)
            sv = set(A.subvalues(val))
            tabs = frozenset(n for n, at in (("L", L), ("R", R)) if at in sv)
            rows = frozenset(x for x in sv if x[0] == "elem" and x[2] in rowish)
            out.add((side, tabs, rows))
        return out

    def unmarked_guard(self, conds, rlid):
        rrow = ("elem", self.I.loops[rlid]["src"], rlid)
        for c, pol in conds:
            if not pol and c[0] == "index" and c[1][0] == "obj" and c[1][1] in self.marks and c[2] == ("bin", "-", rrow, ("int", 1)):
                return True
        return False

    def common_objs(self):
        """the list(s) of shared column pairs: what the match predicate quantifies over"""
        out = set()
        for ms in self.matchsets.values():
            n = _norm_predicate(self.I, ms["pred"])
            if n is not None and self.I.loops[n[1]]["src"][0] == "obj":
                out.add(self.I.loops[n[1]]["src"][1])
        return out

    def emissions(self):
        if self.out_rows is None:
            return []
        return [(self.classify(it), it) for it in A.contents(self.I, self.out_rows)]

    def marks_matched(self):
        """matched right rows are marked: `marks[r - 1] = true` for r running over the match set of the current left row (or the right rows that satisfy the predicate)"""
        I = self.I
        for e in I.events:
            if e["k"] != "set" or e["target"][0] != "obj" or e["target"][1] not in self.marks or e["value"] != ("bool", True):
                continue
            ix = e["index"]
            if not (ix[0] == "bin" and ix[1] == "-" and ix[3] == ("int", 1) and ix[2][0] == "elem" and ix[2][2] in e["loops"]):
                continue
            r = ix[2]
            conds = A.flat_conds(e["ctx"])
            if self.emptiness_of_matchset(conds) is True:
                continue
            if r[1][0] == "obj" and r[1][1] in self.matchsets:
                return True
            ll = [l for l in e["loops"] if l in self.left_loops]
            if r[2] in self.right_loops and ll and self.predicate_holds(conds, ("elem", I.loops[ll[-1]]["src"], ll[-1]), r):
                return True
        return False


def _norm_predicate(I, p):
    """-> (quantifier, loop id, body, filter conditions) of a match predicate, or None.  `all(eq)`, `!any(ne)` and the loop `for c in cols { if ne { return false } } true`
    are the same predicate."""
    neg = False
    while p[0] == "not":
        neg = not neg
        p = p[1]
    if p[0] == "quant":
        kind, lid, body, conds = p[1], p[2], p[3], p[4]
        if neg:
            kind = "any" if kind == "all" else "all"
            body = ("not", body)
        return kind, lid, _norm_eq(body), conds
    if p[0] == "rets" and not neg:
        rets = p[1]
        final = [r for r in rets if not r[2]]
        inner = [r for r in rets if r[2]]
        if len(final) == 1 and final[0][0][0] == "bool" and inner and all(len(r[2]) == 1 and r[2] == inner[0][2] and r[0] == ("bool", not final[0][0][1]) for r in inner) and len(inner) == 1:
            lid = inner[0][2][0]
            cs = A.flat_conds(inner[0][1])
            body = None
            for c, pol in cs:
                body = (c if pol else ("not", c)) if body is None else ("bin", "&&", body, c if pol else ("not", c))
            if body is None:
                return None
            if final[0][0][1]:
                # returns false as soon as `body` holds for one element, true otherwise: all(!body)
                return "all", lid, _norm_eq(("not", body)), ()
            return "any", lid, _norm_eq(body), ()
    return None


def _paths_to(v, pred):
    """[(marker value, conditions of the `if` expressions on the way down to it)] for every sub-value satisfying pred"""
    out = []
    st = [(v, ())]
    seen = set()
    while st:
        x, conds = st.pop()
        if not isinstance(x, tuple) or not x:
            continue
        if not isinstance(x[0], str):
            st.extend((y, conds) for y in x if isinstance(y, tuple))
            continue
        if (x, conds) in seen:
            continue
        seen.add((x, conds))
        if pred(x):
            out.append((x, conds))
        if x[0] == "ite":
            st.append((x[1], conds))
            st.append((x[2], conds + ((x[1], True),)))
            st.append((x[3], conds + ((x[1], False),)))
        else:
            st.extend((y, conds) for y in x[1:] if isinstance(y, tuple))
    return out


def _norm_eq(b):
    neg = False
    while b[0] == "not":
        neg = not neg
        b = b[1]
    if b[0] == "bin" and b[1] in ("==", "!="):
        op = b[1]
        if neg:
            op = "==" if op == "!=" else "!="
        return ("bin", op, b[2], b[3])
    return ("not", b) if neg else b


def run(F, rep, tier):
    crate = "mech_interpreter.lib"
    items = F.syn(crate)
    rep.rule("C18-R1", "routing: table operator token -> join struct of the same name -> its own JoinMode; operands in (lhs, rhs) order")
    rep.rule("C18-R2", "mode table: the row classes each JoinMode emits (pairs / unmatched left / unmatched right / left-only semi / anti) equal the relational-algebra definition")
    rep.rule("C18-R3", "match predicate: conjunction over all commonly named columns of cell equality, each side from its own table, column and row; column discovery without early exit")
    rep.rule("C18-R4", "optional kinds: right-only columns optional exactly in LeftOuter/FullOuter, left-only columns exactly in RightOuter/FullOuter; semi/anti keep the left columns")

    # ---------------- R1
    structs = {}
    for it in items:
        if it["k"] == "method" and it["name"] == "compile" and "NativeFunctionCompiler" in (it.get("trait") or "") and it.get("body"):
            for c in list(find(it["body"], "call")) + list(find(it["body"], "mcall")):
                cargs = c[2] if c[0] == "call" else c[4]
                ms = [re.search(r"(?:^|::)JoinMode::(\w+)$", path_of(strip_refs(a)) or "") for a in cargs]
                ms = [m.group(1) for m in ms if m]
                if ms:
                    structs[re.sub(r"\s", "", it["self"])] = ms[0] if len(set(ms)) == 1 else None
    rep.floor("C18-R1", "join compiler structs", len(structs), 6)
    for s, mode in sorted(structs.items()):
        ok = mode is not None and s == "Table%sJoin" % mode.replace("Join", "")
        rep.check(ok, "C18-R1", "struct:%s" % s if ok else "struct:%s->%s" % (s, mode), "%s compiles the join with JoinMode::%s" % (s, mode), "%s (%s)" % (s, crate), sample={"struct": s, "mode": mode})
    n_tok = check_tokens(items, rep, crate)
    rep.floor("C18-R1", "table operator tokens routed", n_tok, 6)

    # R7 first: the modes whose result was DECIDED correct on the finite table of operand pairs.  Where the shape rules below meet a form of the routine they cannot
    # classify, that verdict is the positive evidence that the mechanism is still there (undecided, not a violation); a wrong shape is reported regardless.
    from rules.c18_joineval import run_r7
    finite_ok = run_r7(F, rep)
    got, opt = check_join(items, rep, crate, finite_ok=finite_ok)
    rep.analysed = dict(rep.analysed or {}, structs=structs)
    run_r5(F, rep)
    from rules.c18_select import run_r6, run_r8
    run_r6(F, rep)
    run_r8(F, rep)


def check_join(items, rep, crate, finite_ok=frozenset()):
    """R2-R4 on the join routine found among `items` (recognised by signature).  finite_ok: the JoinModes whose result C18-R7 decided correct on its finite table of
    operand pairs; used ONLY to tell "a form this extractor cannot classify" (undecided) from "a mechanism that is gone" (violation) - never to excuse a shape that was
    recognised and is wrong."""
    got, opt = {}, {}

    def unanalysable(modes, key, why):
        """the extractor could not classify a construct; the finite evaluation decided every mode concerned -> undecided (same obligation, discharged)"""
        if modes and set(modes) <= set(finite_ok):
            rep.note("undecided", {"rule": "C18-R2", "key": key, "why": why, "decided-by": "C18-R7 (finite table) for %s" % sorted(modes)})
            return True
        return False
    # ---------------- R2
    bj = join_routines(items)
    if not rep.check(len(bj) == 1, "C18-R2", "anchor:build_joined_table", "the join routine (two tables and a JoinMode -> table) was not found (%d)" % len(bj)):
        return got, opt
    routine = bj[0]
    where = "%s (%s)" % (routine["name"], crate)
    runs = {}
    try:
        for mo in MODES:
            runs[mo] = ModeRun(items, routine, mo)
    except (A.GiveUp, RecursionError, IndexError, TypeError, KeyError, ValueError, AttributeError) as ex:
        if unanalysable(MODES, "anchor:join-routine-not-analysable", "the role interpreter gave up (%s)" % ex):
            rep.ok("C18-R2", "anchor:left-row-loop")
            return got, opt
        rep.bad("C18-R2", "anchor:join-routine-not-analysable", "the join routine could not be evaluated symbolically (%s)" % ex, where)
        return got, opt
    em = {mo: r.emissions() for mo, r in runs.items()}
    # the loop over the left rows: the one loop over the rows of the left table that encloses row emissions
    def emitting_left_loops(r, es):
        return {l for _, it in es for l in it["loops"] if l in r.left_loops}
    n_left = {mo: len(emitting_left_loops(runs[mo], em[mo])) for mo in MODES}
    ok_anchor = all(runs[mo].out_rows is not None for mo in MODES) and all(n == 1 for n in n_left.values())
    if not ok_anchor and unanalysable(MODES, "anchor:left-row-loop", "the loop over the left rows was not found in a form the role interpreter knows (%s)" % n_left):
        rep.ok("C18-R2", "anchor:left-row-loop")
        return got, opt
    if not rep.check(ok_anchor, "C18-R2", "anchor:left-row-loop", "the loop over the left rows that emits the output rows of every mode was not found (%s)" % n_left, where):
        return got, opt
    bad_left = sorted({A.show(r.I.loops[l]["src"]) for mo, r in runs.items() for l in emitting_left_loops(r, em[mo])
                       if not (r.range_over_rows(l, L) and A.loop_is_plain(r.I, l))})
    rep.check(not bad_left, "C18-R2", "left-rows:all", "the left rows are iterated as `%s` (or the loop is left early), not 1..=lhs.rows" % ", ".join(bad_left), where)
    # the candidate matches: every right row tested with the match predicate, collected afresh for each left row
    bad_inner = []
    for mo, r in runs.items():
        if not r.matchsets:
            direct = [it for c, it in em[mo] if c == "pairs"]
            if not direct:
                bad_inner.append("%s: no list of matching right rows" % mo)
            continue
        for oid, ms in r.matchsets.items():
            lp = r.I.loops[ms["right"]]
            fresh = ms["left"] in ms["alloc"] or any(e["k"] == "clear" and e["obj"] == oid and ms["left"] in e["loops"] and ms["right"] not in e["loops"] for e in r.I.events)
            if not (r.range_over_rows(ms["right"], R) and A.loop_is_plain(r.I, ms["right"]) and fresh and len(ms["conds"]) == 1):
                bad_inner.append("%s: %s%s%s" % (mo, A.show(lp["src"]), "" if fresh else ", not reset per left row", "" if A.loop_is_plain(r.I, ms["right"]) else ", left early / adapted"))
    rep.check(not bad_inner, "C18-R2", "candidates:every-right-row", "the right rows are not all tested with the match predicate for each left row (%s)" % "; ".join(sorted(set(bad_inner))[:3]), where)
    got = {mo: {c for c, _ in em[mo]} for mo in MODES}
    # the block that emits the unmatched right rows
    tails = [(mo, it) for mo in MODES for c, it in em[mo] if c == "unmatched_rhs"]
    tail_ok = bool(tails)
    for mo, it in tails:
        r = runs[mo]
        rl = [l for l in it["loops"] if l in r.right_loops]
        if not (len(it["loops"]) == 1 and r.range_over_rows(rl[-1], R) and not r.I.loops[rl[-1]]["adapt"]):
            tail_ok = False
    unclassified = {mo for mo in MODES if any(c.startswith(("other:", "odd-")) for c in got[mo])}
    if not tail_ok and unanalysable([mo for mo in MODES if "unmatched_rhs" in WANT[mo]], "unmatched-right-block", "the block that emits the unmatched right rows has a form the role interpreter does not classify"):
        rep.ok("C18-R2", "unmatched-right-block")
    else:
        rep.check(tail_ok, "C18-R2", "unmatched-right-block", "the block that emits the unmatched right rows (loop over 1..=rhs.rows skipping the marked rows) was not recognised", where)
    rep.floor("C18-R2", "JoinMode arms analysed", len([mo for mo in MODES if got[mo]]), 6)
    for mo in sorted(set(WANT) | set(got)):
        g = got.get(mo, set())
        w = WANT.get(mo)
        ok = w is not None and g == w
        if not ok and w is not None and mo in unclassified and {c for c in g if not c.startswith(("other:", "odd-"))} <= w and \
                unanalysable([mo], "mode:%s" % mo, "an emission of this mode has a form the role interpreter does not classify (%s)" % sorted(g)):
            # every class that WAS recognised belongs to the mode; the unclassified emission is decided by the finite evaluation
            rep.ok("C18-R2", "mode:%s" % mo)
            if "unmatched_rhs" in w:
                # the marks are only observable through the unmatched right rows, which the finite evaluation decided for this mode
                rep.ok("C18-R2", "mode:%s:marks-matched-right-rows" % mo)
            continue
        rep.check(ok, "C18-R2", "mode:%s" % mo if ok else "mode:%s:emits-%s" % (mo, "+".join(sorted(g)) or "nothing"),
                  "JoinMode::%s emits %s; relational algebra defines %s" % (mo, sorted(g), sorted(w) if w else "no such mode"), where, sample={"mode": mo, "emits": sorted(g)})
        if w and "unmatched_rhs" in w:
            rep.check(runs[mo].marks_matched(), "C18-R2", "mode:%s:marks-matched-right-rows" % mo,
                      "JoinMode::%s emits pairs without marking the matched right rows: they are emitted again as unmatched" % mo, where)

    # ---------------- R3
    preds = [(mo, ms) for mo, r in runs.items() for ms in r.matchsets.values()]
    if rep.check(bool(preds), "C18-R3", "anchor:rows_match", "the match predicate (the condition under which a right row joins the matches of a left row) was not found", where):
        shapes = set()
        roles_ok = True
        body_found = True
        roles_txt = ""
        common_ok = True
        common_txt = ""
        for mo, ms in preds:
            I = runs[mo].I
            n = _norm_predicate(I, ms["pred"])
            if n is None:
                shapes.add("no-quantifier")
                body_found = False
                continue
            kind, lid, body, conds = n
            src = I.loops[lid]["src"]
            # the early `return` of the loop form IS the quantifier; any other exit or adaptor makes it a partial traversal
            n_exit = 1 if ms["pred"][0] == "rets" else 0
            plain = not I.loops[lid]["adapt"] and len(I.loops[lid]["exits"]) == n_exit and not conds and src[0] == "obj"
            shapes.add("all-common-columns" if kind == "all" and plain else "%s-over-%s" % (kind, "common-columns" if plain else re.sub(r"\W+", "-", A.show(src))[:30] + ("-adapted" if src[0] == "obj" else "")))
            if not (body[0] == "bin" and body[1] in ("==", "!=")):
                body_found = False
                continue
            cc = src[1] if src[0] == "obj" else None
            # which component of a shared-column pair is the left / right column: by where it comes from
            celem = ("elem", src, lid)
            comp_side = {}
            if cc is not None:
                for c_ in A.contents(I, cc):
                    for k in (0, 1):
                        ov = set(A.origin_values(I, A.proj(c_["value"], k)))
                        comp_side.setdefault(k, set()).update(s_ for s_, at in (("L", L), ("R", R)) if at in ov)
            sides = []
            for side in (body[2], body[3]):
                sv = set(A.subvalues(side))
                sides.append({"tables": {s_ for s_, at in (("L", L), ("R", R)) if at in sv},
                              "rows": {s_ for s_, rw in (("L", ms["lrow"]), ("R", ms["rrow"])) if rw in sv},
                              "cols": set().union(*[comp_side.get(k, {"?"}) for k in (0, 1) if ("proj", celem, k) in sv] or [set()])})
            pure = lambda d, s_: d["tables"] == {s_} and d["rows"] == {s_} and d["cols"] == {s_}
            if not (body[1] == "==" and ((pure(sides[0], "L") and pure(sides[1], "R")) or (pure(sides[0], "R") and pure(sides[1], "L")))):
                roles_ok = False
                roles_txt = "%s %s %s" % (sorted((k, sorted(v)) for k, v in sides[0].items()), body[1], sorted((k, sorted(v)) for k, v in sides[1].items()))
            # column discovery: every left column name looked up among the right names (or the reverse), no early exit
            ok_disc = False
            if cc is not None:
                cs = A.contents(I, cc)
                if len(cs) == 1:
                    c_ = cs[0]
                    lps = [l for l in c_["loops"]]
                    names = [I.loops[l]["src"] for l in lps]
                    conds_ = A.flat_conds(c_["ctx"])
                    if len(lps) == 1 and names[0][0] == "field" and names[0][2] == "col_names" and names[0][1] in (L, R) and A.loop_is_plain(I, lps[0]) and len(conds_) == 1 and conds_[0][1]:
                        here = names[0][1]
                        there = R if here == L else L
                        dv = set(A.deep_values(I, conds_[0][0]))
                        key_here = ("proj", ("elem", names[0], lps[0]), 1) in dv
                        key_there = any(x[0] == "proj" and x[2] == 1 and x[1][0] == "elem" and x[1][1] == ("field", there, "col_names") for x in dv)
                        test = conds_[0][0]
                        presence = (test[0] == "is" and test[1].startswith("Some")) or (test[0] == "m" and test[2] in ("contains_key", "contains", "is_some"))
                        ok_disc = key_here and key_there and presence and comp_side.get(0) == {"L"} and comp_side.get(1) == {"R"}
                        if not ok_disc:
                            common_txt = "test %s" % A.show(test)
                    else:
                        common_txt = "loop %s, %d conditions" % ([A.show(n_) for n_ in names], len(conds_))
                else:
                    common_txt = "%d insertion sites" % len(cs)
            if not ok_disc:
                common_ok = False
        ok_all = shapes == {"all-common-columns"}
        rep.check(ok_all, "C18-R3", "rows_match:all-common-columns" if ok_all else "rows_match:%s" % "+".join(sorted(shapes)),
                  "the match predicate quantifies as %s: two rows must agree on EVERY shared column" % sorted(shapes), where)
        if rep.check(body_found, "C18-R3", "anchor:rows_match-closure", "the comparison inside the match predicate was not found", where):
            rep.check(roles_ok, "C18-R3", "rows_match:cell-equality-own-table-column-row",
                      "the match predicate compares %s: expected the left cell (left table, left column, left row) == the right cell (right table, right column, right row)" % roles_txt, where)
        rep.check(common_ok, "C18-R3", "common-columns:every-shared-name", "the shared columns are not collected for every left column name found among the right names (%s)" % common_txt, where)

    # ---------------- R4
    opt_modes = {"lhs": set(), "rhs": set()}
    guard_ok = {"lhs": True, "rhs": True}
    left_only_modes = set()
    for mo, r in runs.items():
        I = r.I
        if r.out_cols is None:
            continue
        wrappers = {name for name, its in I.fns.items() for it in its if _is_kind_wrapper(it)}
        sides_seen = set()
        for it in A.contents(I, r.out_cols):
            sv = set(A.subvalues(it["value"]))
            side = None
            for l in it["loops"]:
                s_ = I.loops[l]["src"]
                if s_[0] == "field" and s_[2] == "data" and s_[1] in (L, R):
                    side = "lhs" if s_[1] == L else "rhs"
            if side is None:
                continue
            sides_seen.add(side)
            # the kind is made optional: a call of the wrapper (&ValueKind -> ValueKind) or, when that is written in place, the ValueKind::Option constructor
            marks = _paths_to(it["value"], lambda x: (x[0] == "call" and x[1] in wrappers) or (x[0] == "ctor" and re.search(r"(^|::)ValueKind::Option$", x[1]) is not None))
            if not marks:
                continue
            opt_modes[side].add(mo)
            # under which condition: only for the columns that are not shared
            common = r.common_objs()

            def shared_test(conds):
                for cnd, pol in A.flat_conds(conds):
                    if not pol and cnd[0] == "m" and cnd[2] in ("contains", "contains_key") and cnd[1][0] == "obj":
                        holds = set(A.deep_values(I, cnd[1]))
                        if not common or any(x[0] == "elem" and x[1][0] == "obj" and x[1][1] in common for x in holds):
                            return True
                return False
            for mk_, path_conds in marks:
                cond_sets = [tuple(it["ctx"]) + tuple(path_conds)]
                if mk_[0] == "call":
                    cond_sets += [e["ctx"] for e in I.events if e["k"] == "call" and e["name"] == mk_[1] and e["args"] == mk_[2]]
                if side == "lhs" and not any(shared_test(cs) for cs in cond_sets):
                    guard_ok[side] = False
        if sides_seen == {"lhs"}:
            left_only_modes.add(mo)
    want_opt = {"lhs": {"RightOuter", "FullOuter"}, "rhs": {"LeftOuter", "FullOuter"}}
    opt = {}
    for side in ("lhs", "rhs"):
        ms, cg = opt_modes[side] or None, guard_ok[side]
        opt[side] = (ms, cg)
        ok = ms == want_opt[side] and cg
        rep.check(ok, "C18-R4", "optional:%s-only-columns" % side if ok else "optional:%s-only-columns:%s" % (side, "+".join(sorted(ms)) if ms else "not-found"),
                  "%s-only columns become optional in %s (expected exactly %s%s): a column that can miss a value keeps a non-optional kind, or a complete one is made optional" % (
                      side, sorted(ms) if ms else None, sorted(want_opt[side]), "" if cg else ", and only the non-shared ones"), where, sample={"side": side, "modes": sorted(ms) if ms else None})
    ok = left_only_modes == {"LeftSemi", "LeftAnti"}
    rep.check(ok, "C18-R4", "semi-anti:left-columns-only", "the semi/anti joins do not reduce the output to the left table's columns (modes whose output has the left columns only: %s)" % sorted(left_only_modes), where)
    rep.analysed = {"modes": {k: sorted(v) for k, v in got.items()}, "optional": {k: sorted(v[0]) if v[0] else None for k, v in opt.items()},
                    "helpers_evaluated_in_place": sorted({n for r in runs.values() for n in r.I.inlined})}
    return got, opt


def run_r5(F, rep):
    """row selection kernels of tables: normal forms"""
    from lib import fxn as X
    from lib.kernel import Kernel, Unrecognised, show
    rep.rule("C18-R5", "row selection: the table access kernels copy, for every column, exactly the addressed rows in order - scalar: row ix-1 of each column; index vector: output row k "
                       "is source row ix[k]-1; logical mask: the rows whose flag is set, packed in order (kernel normal forms)")
    S = X.load_fxn_structs(F, ["mech_interpreter.lib"])
    # the row-selection kernels are enumerated from the code (field types: a Ref<MechTable> source, an index operand, the result cell), as for R6
    from rules.c18_select import selection_kernels
    forms = {k: v["form"] for k, v in selection_kernels(F.syn("mech_interpreter.lib")).items()}
    want = set(forms)
    n = 0
    for (crate, name), fs in sorted(S.items()):
        if name not in want or fs.solve is None:
            continue
        try:
            k = Kernel(fs.solve, fs.fields)
        except Unrecognised as e:
            rep.bad("C18-R5", "undecided:%s" % name, "%s::solve is not recognised by the kernel evaluator (%s)" % (name, e), "%s (%s)" % (name, crate))
            continue
        n += 1
        norm = lambda t: re.sub(r"\(\((\w+) \+ 1\) - 1\)", r"\1", t).replace("..data()", ".data")
        ws = [(norm(show(e.target)), norm(show(e.value)), [norm(str(l)) for l in e.loops], [norm(show(c)) for c in e.conds]) for e in k.effects if e.kind == "write" and "rows()" not in show(e.target)]
        cs = [(norm(show(e.target)), norm(show(e.value)), [norm(show(c)) for c in e.conds]) for e in k.effects if e.kind == "counter"]
        bad = None
        if len(ws) != 1:
            bad = "%d element writes instead of one per (column, row)" % len(ws)
        else:
            tgt, val, loops, conds = ws[0]
            mcol = re.search(r"<column,source\.data,(\w+)>\[(.+)\]$", val)
            if not mcol:
                bad = "the value is not an element of the SAME column of the source table: %s" % val
            else:
                cv, row = mcol.group(1), mcol.group(2)
                if forms[name] == "scalar":
                    ok = tgt == "out.data[<colkey,%s>]" % cv and row == "(ix - 1)" and not conds
                elif forms[name] == "index-vector":
                    mt = re.match(r"<column,out\.data,%s>\[(\w+)\]$" % cv, tgt)
                    ok = bool(mt) and row == "(ix[%s] - 1)" % mt.group(1) and not conds
                else:
                    mt = re.match(r"<column,out\.data,%s>\[#(\w+)\]$" % cv, tgt)
                    ok = bool(mt) and len(conds) == 1 and re.match(r"^ix\[(\w+)\]$", conds[0]) is not None and row == re.match(r"^ix\[(\w+)\]$", conds[0]).group(1) and \
                        any(c[0] == "#" + mt.group(1) and c[1] == "(#%s + 1)" % mt.group(1) and c[2] == conds for c in cs)
                if not ok:
                    bad = "write %s := %s under %s (counters %s)" % (tgt, val, conds, cs)
        rep.check(bad is None, "C18-R5", name if bad is None else "%s:rows-misaddressed" % name,
                  "%s::solve does not select exactly the addressed rows in order: %s" % (name, bad), "%s (%s)" % (name, crate), sample={"kernel": name, "writes": ws, "counters": cs})
    rep.floor("C18-R5", "table row-selection kernels", n, 3)
