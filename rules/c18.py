"""C18 - table joins are the relational-algebra joins on the shared columns (structural clauses)."""
import re
from lib.facts import find, walk, is_node, path_of, render, render_pat
from lib import guards as G

EXPLANATION = (
    "Decides structural clauses of C18 from the syntax tree of the join routine. (R1) routing: each table operator token compiles the join struct of its own name and each struct passes its "
    "own JoinMode to compile_table_join, operands in (lhs, rhs) order. (R2) mode table: from the arms of `match mode` inside the row loop of build_joined_table and the trailing unmatched-"
    "right block, which row classes a mode emits - every matching pair (merge_rows with the matched right row), the unmatched left rows (merge_rows with the empty right side, under "
    "`matched.is_empty()`), the unmatched right rows, or left rows only (semi: under a non-empty match set, anti: under an empty one) - equals the relational-algebra definition of that "
    "mode; matched right rows are marked in every mode that later emits the unmatched ones. (R3) the match predicate is the conjunction (`all`) over ALL commonly named columns of cell "
    "equality, each side read from its own table, column and row; the common columns are collected for every left column name found among the right names, with no early exit. "
    "(R4) optional kinds: right-only columns become optional exactly in LeftOuter / FullOuter, left-only (non-shared) columns exactly in RightOuter / FullOuter; semi / anti joins keep "
    "the left columns only. (R5) row selection: the table access kernels copy, for every column, exactly the addressed rows in order (scalar: row ix-1; index vector: output row k = source "
    "row ix[k]-1; logical mask: flagged rows packed in order) - kernel normal forms. Not decided: the multiset of rows itself (values), duplicate column names."
)
TECHNIQUE = ("guard-context analysis of the join routine's syntax tree: emission table per JoinMode (push sites of the output row list with their guards and arguments), predicate shape of "
             "rows_match, column-discovery loop, optional-kind mode sets; routing tables token -> struct -> mode")

WANT = {"Inner": {"pairs"}, "LeftOuter": {"pairs", "unmatched_lhs"}, "RightOuter": {"pairs", "unmatched_rhs"}, "FullOuter": {"pairs", "unmatched_lhs", "unmatched_rhs"},
        "LeftSemi": {"semi"}, "LeftAnti": {"anti"}}


def _modes_of_cond(c):
    """JoinMode variants accepted by an expanded `matches!(mode, A | B)` condition"""
    out = set()
    for m in find(c, "match"):
        if render(m[1]).replace("&", "").strip("() ") != "mode":
            continue
        for a in m[2]:
            if render(a[2]) == "true":
                out |= set(re.findall(r"JoinMode::(\w+)", render_pat(a[0])))
    return out


def run(F, rep, tier):
    crate = "mech_interpreter.lib"
    items = F.syn(crate)
    rep.rule("C18-R1", "routing: table operator token -> join struct of the same name -> its own JoinMode; operands in (lhs, rhs) order")
    rep.rule("C18-R2", "mode table: the row classes each JoinMode emits (pairs / unmatched left / unmatched right / left-only semi / anti) equal the relational-algebra definition")
    rep.rule("C18-R3", "match predicate: conjunction over all commonly named columns of cell equality, each side from its own table, column and row; column discovery without early exit")
    rep.rule("C18-R4", "optional kinds: right-only columns optional exactly in LeftOuter/FullOuter, left-only columns exactly in RightOuter/FullOuter; semi/anti keep the left columns")

    # ---------------- R1
    structs = {}
    for it in items:
        if it["k"] == "method" and it["name"] == "compile" and "NativeFunctionCompiler" in (it.get("trait") or "") and it.get("body"):
            for c in find(it["body"], "call"):
                if (path_of(c[1]) or "").endswith("compile_table_join") and len(c[2]) == 2:
                    mm = re.search(r"JoinMode::(\w+)", render(c[2][1]))
                    structs[re.sub(r"\s", "", it["self"])] = mm.group(1) if mm else None
    rep.floor("C18-R1", "join compiler structs", len(structs), 6)
    for s, mode in sorted(structs.items()):
        ok = mode is not None and s == "Table%sJoin" % mode.replace("Join", "")
        rep.check(ok, "C18-R1", "struct:%s" % s if ok else "struct:%s->%s" % (s, mode), "%s compiles the join with JoinMode::%s" % (s, mode), "%s (%s)" % (s, crate), sample={"struct": s, "mode": mode})
    n_tok = 0
    for it in items:
        if it["k"] == "fn" and it["name"] == "term" and it.get("body"):
            for m in find(it["body"], "match"):
                for a in m[2]:
                    mm = re.search(r"TableOp::(\w+)", render_pat(a[0]))
                    if not mm:
                        continue
                    used = [s_[1].split("::")[-1] for s_ in find(a[2], "struct") if s_[1].split("::")[-1].startswith("Table")]
                    if not used:
                        continue
                    n_tok += 1
                    ok = used == ["Table%s" % mm.group(1)]
                    args = [render(x) for c in find(a[2], "mcall") if c[2] == "compile" and c[4] for x in walk(c[4][0]) if x[0] == "path" and x[1] in ("lhs", "rhs")]
                    ok_args = args[:2] == ["lhs", "rhs"]
                    rep.check(ok and ok_args, "C18-R1", "token:%s" % mm.group(1) if ok and ok_args else "token:%s->%s(%s)" % (mm.group(1), ",".join(used), ",".join(args[:2])),
                              "term(): TableOp::%s compiles %s with operands %s" % (mm.group(1), used, args[:2]), "term (%s)" % crate, sample={"token": mm.group(1), "struct": used})
    rep.floor("C18-R1", "table operator tokens routed", n_tok, 6)

    # ---------------- R2
    bj = [it for it in items if it["k"] == "method" and it["name"] == "build_joined_table" and it.get("body")]
    if not rep.check(len(bj) == 1, "C18-R2", "anchor:build_joined_table", "build_joined_table not found (%d)" % len(bj)):
        return
    body = bj[0]["body"]
    row_loops = [f for f in find(body, "for") if re.search(r"lhs\.rows", render(f[2])) and any(render(m[1]).strip("()& ") == "mode" and len(m[2]) >= 4 for m in find(f[3], "match"))]
    if not rep.check(len(row_loops) == 1, "C18-R2", "anchor:left-row-loop", "the loop over the left rows with the `match mode` was not found (%d)" % len(row_loops)):
        return
    loop = row_loops[0]
    rep.check(re.match(r"^1\.\.=lhs\.rows$", render(loop[2]).replace(" ", "")) is not None, "C18-R2", "left-rows:all", "the left rows are iterated as `%s`, not 1..=lhs.rows" % render(loop[2]), "build_joined_table")
    # the candidate matches: every right row tested with rows_match
    inner = [f for f in find(loop[3], "for") if re.search(r"rhs\.rows", render(f[2]))]
    ok_inner = len(inner) == 1 and re.match(r"^1\.\.=rhs\.rows$", render(inner[0][2]).replace(" ", "")) is not None and any((path_of(c[1]) or "").endswith("rows_match") for c in find(inner[0][3], "call")) \
        and not any(x[0] in ("break", "ret") for x in walk(inner[0][3]))
    rep.check(ok_inner, "C18-R2", "candidates:every-right-row", "the right rows are not all tested with rows_match for each left row (loop `%s`, or it is left early)" % (render(inner[0][2]) if inner else "?"), "build_joined_table")
    mm_ = [m for m in find(loop[3], "match") if render(m[1]).strip("()& ") == "mode" and len(m[2]) >= 4][0]
    got = {}
    marks = {}
    for arm in mm_[2]:
        modes = re.findall(r"JoinMode::(\w+)", render_pat(arm[0]))
        if not modes:
            continue
        classes = set()
        marked = any(x[0] == "assign" and re.match(r"^rhs_matched\[", render(x[1])) and render(x[2]) == "true" for x in walk(arm[2]))
        abody = arm[2][1] if is_node(arm[2]) and arm[2][0] == "block" else [["expr", arm[2]]]
        for site, facts in G.sites(abody, "mcall"):
            if site[2] != "push" or render(site[1]) != "out_rows" or not site[4]:
                continue
            arg = site[4][0]
            call = [c for c in find(arg, "call") if (path_of(c[1]) or "").split("::")[-1] in ("merge_rows", "lhs_only_row")]
            if not call:
                classes.add("other:" + render(arg)[:30])
                continue
            c = call[0]
            fn = path_of(c[1]).split("::")[-1]
            empt = None
            for cond, pol in G.atoms(facts):
                if cond[0] == "mcall" and cond[2] == "is_empty" and re.search(r"matched", render(cond[1])):
                    empt = pol
            in_match_loop = any(f_[0] == "for" and re.search(r"matched", render(f_[2])) and any(x is site for x in walk(f_[3])) for f_ in find(arm[2], "for"))
            if fn == "merge_rows":
                a_ = [render(x) for x in c[2]]
                if in_match_loop and len(a_) >= 6 and a_[0:4] == ["lhs", "lhs_row", "rhs", "rhs_row"] and a_[5] == "false" and empt is not True:
                    classes.add("pairs")
                elif not in_match_loop and len(a_) >= 6 and a_[3] == "0" and a_[5] == "true" and empt is True:
                    classes.add("unmatched_lhs")
                else:
                    classes.add("odd-merge(%s)%s" % (",".join(a_[3:6]), "" if empt is None else ":empty=%s" % empt))
            else:
                classes.add("semi" if empt is False else "anti" if empt is True else "lhs-only-unguarded")
        for mo in modes:
            got[mo] = classes
            marks[mo] = marked
    # trailing unmatched-right block
    tail_modes = set()
    tail_ok = False
    for st in body:
        e = st[1] if st[0] == "expr" else None
        if is_node(e) and e[0] == "if":
            ms = _modes_of_cond(e[1])
            loops = [f for f in find(e[2], "for") if re.search(r"rhs\.rows", render(f[2]))]
            if ms and loops:
                tail_modes = ms
                lp = loops[0]
                skips = any(x[0] == "if" and re.search(r"rhs_matched\[", render(x[1])) and any(y[0] == "continue" for y in walk(x[2])) for x in walk(lp[3]))
                pushes = any(x[0] == "mcall" and x[2] == "push" and render(x[1]) == "out_rows" for x in walk(lp[3]))
                tail_ok = skips and pushes and re.match(r"^1\.\.=rhs\.rows$", render(lp[2]).replace(" ", "")) is not None
    rep.check(tail_ok, "C18-R2", "unmatched-right-block", "the block that emits the unmatched right rows (loop over 1..=rhs.rows skipping rhs_matched rows) was not recognised", "build_joined_table")
    for mo in tail_modes:
        got.setdefault(mo, set()).add("unmatched_rhs")
    rep.floor("C18-R2", "JoinMode arms analysed", len(got), 6)
    for mo in sorted(set(WANT) | set(got)):
        g = got.get(mo, set())
        w = WANT.get(mo)
        ok = w is not None and g == w
        rep.check(ok, "C18-R2", "mode:%s" % mo if ok else "mode:%s:emits-%s" % (mo, "+".join(sorted(g)) or "nothing"),
                  "JoinMode::%s emits %s; relational algebra defines %s" % (mo, sorted(g), sorted(w) if w else "no such mode"), "build_joined_table (%s)" % crate, sample={"mode": mo, "emits": sorted(g)})
        if w and "unmatched_rhs" in w:
            rep.check(marks.get(mo, False), "C18-R2", "mode:%s:marks-matched-right-rows" % mo, "JoinMode::%s emits pairs without marking rhs_matched: the matched right rows are emitted again as unmatched" % mo, "build_joined_table")

    # ---------------- R3
    rm = [it for it in items if it["k"] == "fn" and it["name"] == "rows_match" and it.get("body")]
    if rep.check(len(rm) == 1, "C18-R3", "anchor:rows_match", "rows_match not found"):
        b = rm[0]["body"]
        alls = [m for m in find(b, "mcall") if m[2] in ("all", "any")]
        ok_all = len(alls) == 1 and alls[0][2] == "all" and re.match(r"^common_cols\.iter\(\)$", render(alls[0][1]).replace(" ", "")) is not None
        rep.check(ok_all, "C18-R3", "rows_match:all-common-columns" if ok_all else "rows_match:%s" % (alls[0][2] + "-over-" + re.sub(r"\W+", "-", render(alls[0][1]))[:30] if alls else "no-quantifier"),
                  "rows_match quantifies with `%s` over `%s`: two rows must agree on EVERY shared column" % (alls[0][2] if alls else "?", render(alls[0][1]) if alls else "?"), "rows_match (%s)" % crate)
        cl = alls[0][4][0] if alls and alls[0][4] and is_node(alls[0][4][0]) and alls[0][4][0][0] == "closure" else None
        if rep.check(cl is not None, "C18-R3", "anchor:rows_match-closure", "rows_match closure not found"):
            lets = {}
            for st in find(cl[2], "let"):
                if st[1][0] == "pident" and st[2] is not None:
                    lets[st[1][1]] = {x[1] for x in find(st[2], "path")}
            eqs = [x for x in find(cl[2], "bin") if x[1] in ("==", "!=")]
            ok_eq = len(eqs) == 1 and eqs[0][1] == "=="
            sides = []
            if ok_eq:
                for side in (eqs[0][2], eqs[0][3]):
                    names = set()
                    for x in find(side, "path"):
                        names |= lets.get(x[1], {x[1]})
                    sides.append(names)
            ok_roles = ok_eq and any({"lhs", "lhs_col", "lhs_row"} <= s_ and not ({"rhs", "rhs_col", "rhs_row"} & s_) for s_ in sides) and \
                any({"rhs", "rhs_col", "rhs_row"} <= s_ and not ({"lhs", "lhs_col", "lhs_row"} & s_) for s_ in sides)
            rep.check(ok_roles, "C18-R3", "rows_match:cell-equality-own-table-column-row",
                      "rows_match compares %s: expected the left cell (lhs, lhs_col, lhs_row) == the right cell (rhs, rhs_col, rhs_row)" % [sorted(s_) for s_ in sides], "rows_match (%s)" % crate)
    # column discovery
    disc = [f for f in find(body, "for") if re.search(r"lhs\.col_names", render(f[2]))]
    ok_disc = False
    if disc:
        d = disc[0]
        pushes = [m for m in find(d[3], "mcall") if m[2] == "push" and render(m[1]) == "common_cols"]
        early = any(x[0] in ("break", "ret") for x in walk(d[3]))
        by_name = any(m[2] == "get" and re.search(r"name", render(m[1])) and re.search(r"name", render(m[4][0]) if m[4] else "") for m in find(d[3], "mcall"))
        ok_disc = len(pushes) == 1 and not early and by_name and not re.search(r"take\(|skip\(|first\(|next\(", render(d[2]))
    rep.check(ok_disc, "C18-R3", "common-columns:every-shared-name", "the shared columns are not collected for every left column name found among the right names (loop `%s`)" % (render(disc[0][2]) if disc else "?"),
              "build_joined_table (%s)" % crate)

    # ---------------- R4
    opt = {}
    for f in find(body, "for"):
        side = "lhs" if re.search(r"lhs\.data", render(f[2])) else "rhs" if re.search(r"rhs\.data", render(f[2])) else None
        if side is None or not any(m[2] == "push" and render(m[1]) == "output_cols" for m in find(f[3], "mcall")):
            continue
        for st in find(f[3], "let"):
            if st[1][0] == "pident" and st[1][1] == "out_kind" and st[2] is not None and st[2][0] == "if":
                ms = _modes_of_cond(st[2][1])
                then_opt = any((path_of(c[1]) or "").endswith("make_optional_kind") for c in find(["block", st[2][2]], "call"))
                common_guard = bool(re.search(r"!\s*common_%s\.contains" % side, render(st[2][1]).replace(" ", ""))) or side == "rhs"
                if then_opt:
                    opt[side] = (ms, common_guard)
    want_opt = {"lhs": {"RightOuter", "FullOuter"}, "rhs": {"LeftOuter", "FullOuter"}}
    for side in ("lhs", "rhs"):
        ms, cg = opt.get(side, (None, False))
        ok = ms == want_opt[side] and cg
        rep.check(ok, "C18-R4", "optional:%s-only-columns" % side if ok else "optional:%s-only-columns:%s" % (side, "+".join(sorted(ms)) if ms else "not-found"),
                  "%s-only columns become optional in %s (expected exactly %s%s): a column that can miss a value keeps a non-optional kind, or a complete one is made optional" % (
                      side, sorted(ms) if ms else None, sorted(want_opt[side]), "" if cg else ", and only the non-shared ones"), "build_joined_table (%s)" % crate, sample={"side": side, "modes": sorted(ms) if ms else None})
    semi = None
    for st in body:
        e = st[1] if st[0] == "expr" else None
        if is_node(e) and e[0] == "if" and any(x[0] == "assign" and render(x[1]) == "output_cols" for x in walk(e[2])):
            semi = (_modes_of_cond(e[1]), bool(re.search(r"lhs\.data", render(["block", e[2]]))) and not re.search(r"rhs\.data", render(["block", e[2]])))
    ok = semi is not None and semi[0] == {"LeftSemi", "LeftAnti"} and semi[1]
    rep.check(ok, "C18-R4", "semi-anti:left-columns-only", "the semi/anti joins do not reduce the output to the left table's columns (%s)" % (semi,), "build_joined_table (%s)" % crate)
    rep.analysed = {"modes": {k: sorted(v) for k, v in got.items()}, "structs": structs, "optional": {k: sorted(v[0]) if v[0] else None for k, v in opt.items()}}
    run_r5(F, rep)


def run_r5(F, rep):
    """row selection kernels of tables: normal forms"""
    from lib import fxn as X
    from lib.kernel import Kernel, Unrecognised, show
    rep.rule("C18-R5", "row selection: the table access kernels copy, for every column, exactly the addressed rows in order - scalar: row ix-1 of each column; index vector: output row k "
                       "is source row ix[k]-1; logical mask: the rows whose flag is set, packed in order (kernel normal forms)")
    S = X.load_fxn_structs(F, ["mech_interpreter.lib"])
    want = {"TableAccessScalarF", "TableAccessRangeIndex", "TableAccessRangeBool"}
    n = 0
    for (crate, name), fs in sorted(S.items()):
        if name not in want or fs.solve is None:
            continue
        try:
            k = Kernel(fs.solve, fs.fields)
        except Unrecognised as e:
            rep.bad("C18-R5", "undecided:%s" % name, "%s::solve is not recognised by the kernel evaluator (%s)" % (name, e), "%s (%s)" % (name, crate))
            continue
        n += 1
        norm = lambda t: re.sub(r"\(\((\w+) \+ 1\) - 1\)", r"\1", t).replace("..data()", ".data")
        ws = [(norm(show(e.target)), norm(show(e.value)), [norm(str(l)) for l in e.loops], [norm(show(c)) for c in e.conds]) for e in k.effects if e.kind == "write" and "rows()" not in show(e.target)]
        cs = [(norm(show(e.target)), norm(show(e.value)), [norm(show(c)) for c in e.conds]) for e in k.effects if e.kind == "counter"]
        bad = None
        if len(ws) != 1:
            bad = "%d element writes instead of one per (column, row)" % len(ws)
        else:
            tgt, val, loops, conds = ws[0]
            mcol = re.search(r"<column,source\.data,(\w+)>\[(.+)\]$", val)
            if not mcol:
                bad = "the value is not an element of the SAME column of the source table: %s" % val
            else:
                cv, row = mcol.group(1), mcol.group(2)
                if name == "TableAccessScalarF":
                    ok = tgt == "out.data[<colkey,%s>]" % cv and row == "(ix - 1)" and not conds
                elif name == "TableAccessRangeIndex":
                    mt = re.match(r"<column,out\.data,%s>\[(\w+)\]$" % cv, tgt)
                    ok = bool(mt) and row == "(ix[%s] - 1)" % mt.group(1) and not conds
                else:
                    mt = re.match(r"<column,out\.data,%s>\[#(\w+)\]$" % cv, tgt)
                    ok = bool(mt) and len(conds) == 1 and re.match(r"^ix\[(\w+)\]$", conds[0]) is not None and row == re.match(r"^ix\[(\w+)\]$", conds[0]).group(1) and \
                        any(c[0] == "#" + mt.group(1) and c[1] == "(#%s + 1)" % mt.group(1) and c[2] == conds for c in cs)
                if not ok:
                    bad = "write %s := %s under %s (counters %s)" % (tgt, val, conds, cs)
        rep.check(bad is None, "C18-R5", name if bad is None else "%s:rows-misaddressed" % name,
                  "%s::solve does not select exactly the addressed rows in order: %s" % (name, bad), "%s (%s)" % (name, crate), sample={"kernel": name, "writes": ws, "counters": cs})
    rep.floor("C18-R5", "table row-selection kernels", n, 3)
