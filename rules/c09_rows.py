"""C09-R12 — the row counter of the lexer stays inside the text.

`graphemes::init_source` terminates the text with a sentinel new-line.  Every place where ParseString advances its row counter
(`X.row += 1`) must therefore be control-dependent on a test that is FALSE exactly when the new-line being consumed is the last
grapheme: otherwise an error located after the sentinel is reported on row `rows + 1`, a row the input does not have (C09: every
range of an error report lies within the input).

The rule does not look for a function of a particular name.  For every row increment in a ParseString method it takes the conditions
the increment is control-dependent on (enclosing `if`s with polarity, `&&` / `||` operands, earlier diverging guards), inlines
single-expression `&self` predicates of ParseString (parameters bound to the arguments), and evaluates each condition that is closed
over {the grapheme count, ONE index variable} for every count 1..N and every valid index 0..count-1.  One of them must hold exactly
for index != count-1.  A condition that is not closed (a call such as `is_new_line(g)`) takes no part; when no condition can be
evaluated but one of them calls something the rule cannot summarise with an index argument, the site is recorded as undecided."""
import copy
from lib.facts import is_node, render, walk
from lib import guards as G
from lib import fxn as X
from lib.minieval import ev, NoEval

LEN = "__len"
IX = "__ix"


def _is_glen(e):
    """`<anything>.graphemes.len()`"""
    return is_node(e) and e[0] == "mcall" and e[2] == "len" and not e[4] and is_node(e[1]) and e[1][0] == "field" and e[1][2] == "graphemes"


def _subst(e, params):
    """copy of e with parameter paths replaced by argument expressions"""
    if not is_node(e):
        if isinstance(e, list):
            return [_subst(x, params) for x in e]
        return e
    if e[0] == "path" and e[1] in params:
        return copy.deepcopy(params[e[1]])
    return [e[0]] + [_subst(x, params) for x in e[1:]]


def _single_expr(body):
    """the expression a single-expression body evaluates to (also `return e` / `{ e }`)"""
    if len(body) != 1 or body[0][0] != "expr":
        return None
    e = body[0][1]
    while is_node(e) and e[0] in ("paren", "ret") and e[1] is not None:
        e = e[1]
    return e if is_node(e) else None


def _inline(e, preds, depth=0):
    """replace `self.p(args)` / `X.p(args)` by p's single-expression body, up to 3 levels"""
    if not is_node(e):
        if isinstance(e, list):
            return [_inline(x, preds, depth) for x in e]
        return e
    if e[0] == "mcall" and e[2] in preds and depth < 3 and not _is_glen(e):
        names, body = preds[e[2]]
        args = e[4] or []
        if len(args) == len(names):
            b = _subst(body, dict(zip(names, args)))
            # `self` inside the predicate is the receiver of the call
            b = _subst(b, {"self": e[1]})
            return _inline(b, preds, depth + 1)
    return [e[0]] + [_inline(x, preds, depth) for x in e[1:]]


def _close(e):
    """(closed expression, set of index variables) - grapheme counts become LEN, every other free variable / `X.cursor` an index variable;
    None when the expression contains something else that cannot be evaluated"""
    ixs = set()

    def go(n):
        if not is_node(n):
            if isinstance(n, list):
                return [go(x) for x in n]
            return n
        if _is_glen(n):
            return ["path", LEN]
        if n[0] == "field" and n[2] == "cursor":
            ixs.add(render(n))
            return ["path", IX]
        if n[0] == "path":
            ixs.add(n[1])
            return ["path", IX]
        if n[0] in ("call", "macro", "index", "closure", "match", "if", "block"):
            raise NoEval(n[0])
        if n[0] == "mcall" and n[2] not in ("clone",):
            raise NoEval(n[2])
        return [n[0]] + [go(x) for x in n[1:]]
    try:
        c = go(e)
    except NoEval:
        return None, ixs
    return c, ixs


def run_r12(F, rep, tier):
    rep.rule("C09-R12", "the lexer's row counter stays inside the text: every `row += 1` of ParseString is control-dependent on a condition that is false exactly when the new-line "
                        "being consumed is the LAST grapheme (the sentinel appended by init_source) - decided by evaluating the condition, with single-expression ParseString "
                        "predicates inlined, for every grapheme count 1..N and every index: otherwise an error after the sentinel is reported on a row the input does not have")
    items = F.syn("mech_syntax.lib")
    meths = [it for it in items if it["k"] == "method" and X.type_head(it["self"]) == "ParseString" and it.get("body")]
    preds = {}
    for it in meths:
        e = _single_expr(it["body"])
        if e is None:
            continue
        names = []
        ok = True
        for p in (it.get("sig") or {}).get("inputs", []):
            if p and p[0] == "self":
                continue
            if is_node(p[0]) and p[0][0] == "pident":
                names.append(p[0][1])
            else:
                ok = False
        if not ok:
            continue
        preds[it["name"]] = (names, e)
    N = 6 if tier == "quick" else 12
    n_sites = 0
    for it in meths:
        for site, facts in G.sites(it["body"], "bin"):
            if site[1] != "+=" or not render(site[2]).endswith(".row"):
                continue
            n_sites += 1
            name = "ParseString::%s" % it["name"]
            verdicts = []
            opaque = False
            for cond, pol in G.atoms(facts):
                c = _inline(cond, preds)
                closed, ixs = _close(c)
                if closed is None:
                    # an unsummarised helper that is handed an index: could be the test, in a form the rule cannot evaluate
                    if any(n[0] in ("call", "mcall") and any(is_node(a) and (a[0] == "path" or (a[0] == "field" and a[2] == "cursor")) for a in (n[2] if n[0] == "call" else (n[4] or [])))
                           for n in walk(c) if is_node(n)) and any(_is_glen(n) or (n[0] == "mcall" and n[2] in preds) for n in walk(c) if is_node(n)):
                        opaque = True
                    continue
                if len(ixs) != 1 or not any(n == ["path", LEN] for n in walk(closed)):
                    continue
                table = []
                try:
                    for ln in range(1, N + 1):
                        for ix in range(0, ln):
                            table.append((ln, ix, bool(ev(closed, {LEN: ln, IX: ix})) == pol))
                except NoEval:
                    continue
                wrong = [(ln, ix) for ln, ix, v in table if v != (ix != ln - 1)]
                verdicts.append((render(cond), pol, wrong))
            good = [v for v in verdicts if not v[2]]
            if good:
                rep.ok("C09-R12", "row-increment:%s:not-at-last-grapheme" % name, sample={"fn": name, "condition": good[0][0], "polarity": good[0][1], "table": "count 1..%d x index" % N})
            elif verdicts:
                c, pol, wrong = verdicts[0]
                at_last = [w for w in wrong if w[1] == w[0] - 1]
                rep.bad("C09-R12", "row-increment:%s:%s" % (name, "advances-at-last-grapheme" if at_last else "skipped-before-last-grapheme"),
                        "%s advances the row under `%s%s`, which for (grapheme count, index) = %s does not equal `index is not the last grapheme`: %s" % (
                            name, "" if pol else "!", c, wrong[:4],
                            "consuming the sentinel new-line starts a row the input does not have, so error ranges leave the input" if at_last else "a new-line inside the text does not start a new row"),
                        "src/syntax/src/lib.rs (%s)" % name)
            elif opaque:
                rep.note("undecided", {"rule": "C09-R12", "fn": name, "why": "the row increment is guarded by a helper the rule cannot evaluate"})
            else:
                rep.bad("C09-R12", "row-increment:%s:unguarded" % name,
                        "%s advances the row without any test of the index against the grapheme count: consuming the sentinel new-line starts a row the input does not have" % name,
                        "src/syntax/src/lib.rs (%s)" % name)
    rep.floor("C09-R12", "row increments in ParseString", n_sites, 1)   # the two consume methods may share one bookkeeping helper
