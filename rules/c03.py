"""C03 — indexed reads: routing of index forms, access-kernel normal forms (1-based, row/column roles, column-major fill),
read-only source, mask-length guards, output shape in the dispatch arms."""
import re
from collections import defaultdict
from lib.facts import CallGraph, find, walk, is_node, path_of, render, render_pat, last_seg
from lib import fxn as X
from lib.kernel import Kernel, Unrecognised, show, roots_in, root_of
from lib.dispatch import boxed_structs

TECHNIQUE = ("routing table read from the arms of subscript() against the 11 documented index forms; kernel normal form (symbolic evaluation of every access "
             "kernel) checked per index position for the 1-based / mask / all idioms, row-column roles and column-major fill order; effect check (writes only "
             "the output); absence rule for mask-length guards; output-shape expressions of the dispatch arms against the index forms")
EXPLANATION = (
    "Decides structural clauses of C03: (R1) each syntactic index-form pair (formula of scalar/vector shape, range, `:`) in subscript() compiles the access "
    "family of that meaning; (R2) every access kernel reads source[(p1),(p2)] where each position is exactly one of: scalar index minus one, index-vector "
    "element minus one, a mask position guarded by `mask[v] == true`, or a full traversal of that dimension; the first index is the row and the second the "
    "column; linear outputs are filled column-major (column loop outside the row loop); (R3) kernels write only their output; (R4) mask kernels compare the "
    "mask length with the indexed dimension before reading; (R5) the output allocated by each dispatch arm has the shape the index forms determine "
    "(`:` -> that dimension of the source, index vector -> its length, mask -> its number of true entries, scalar -> 1). Out-of-range numeric indices go "
    "through nalgebra's checked indexing and `ix - 1` on usize (no clamping/unchecked access is searched for). Not decided: result kind conventions, numeric details of the index casts (`as usize`)."
    ' (R6) the per-variant arms of Value::as_vecusize/as_usize keep their frozen sibling partition (arms classified by what they compute on a value of their variant - concrete evaluation over the storage-form / shape table, element kind abstracted - and by their text only where that evaluation does not apply).'
    ' (R2, extended) bulk slice writes of the output (`clone_from_slice`, `copy_from_slice`, `fill` ...) are modelled and reported next to the element-wise gather, as is a gather that only runs under a condition on the index values.'
    ' (R7) index operands keep their position: in each arm of subscript() the j-th index value handed to the access compiler is evaluated from the j-th subscript (or is IndexAll exactly where that subscript is `:`).'
    ' (R8) index conversion is position-preserving: the read dispatcher and every helper it converts an index value with (as_index, as_usize, as_vecusize, as_vecbool, Matrix::as_vec, to_matrix, to_value, however they are split or named) '
    'are evaluated concretely on their syntax trees over a finite table (every Subscript form tuple x index position x index-capable Value variant x Matrix storage form x shapes incl. non-square), with the index value filled by position tokens; '
    'decided is the structural fact that the operand handed to the access compiler holds element i (column-major storage order) of the index value at position i, unaltered except for casts, in an index variant of the same class - '
    'the behaviour of the kernels on that operand (R2) and the numeric result of the casts are not decided here.'
    ' (R9) from the argument vector to the kernel: `<access compiler>.compile(args)` (front compilers, per-kind dispatcher functions, the arm that builds the kernel struct) is evaluated the same way for every argument-vector shape R8 observed '
    'x every matrix source variant x storage form; decided is the structural fact that the kernel struct built holds, in its index fields in declaration / tuple order, the index operands in subscript order with exactly their element sequences '
    '(an Err or panic is an error, not a wrong element) - which elements the kernel then reads through those fields is R2, not R9.'
)

FORMS = {"Scalar": "S", "Range": "R", "All": "A"}


def private_helper_bodies(F, crate, mod, node, depth=2):
    """bodies of the private functions of module `mod` that `node` calls (transitively, `depth` levels): a refactoring that extracts part of a
    function into a private helper of the same file moves the mechanism there, and a rule that reads the function must read the helper as its body"""
    by_name = {}
    for it in F.syn(crate):
        if it["k"] == "fn" and it["mod"] == mod and it.get("body") and it.get("vis", "") != "pub":
            by_name.setdefault(it["name"], []).append(it)
    out, seen, todo = [], set(), [(node, 0)]
    while todo:
        nd, d = todo.pop(0)
        if d >= depth:
            continue
        for c in find(nd, "call"):
            pth = path_of(c[1])
            hs = by_name.get(last_seg(pth), ()) if pth else ()
            if len(hs) == 1 and id(hs[0]) not in seen:
                seen.add(id(hs[0]))
                out.append(hs[0]["body"])
                todo.append((hs[0]["body"], d + 1))
    return out


def routing(F, fn_name="subscript", mod_suffix="expressions"):
    """(slot forms) -> native compiler names, from the Bracket arm of subscript() / subscript_ref() / <op>_assign().  The arm (or part of it) may live in
    private helpers of the same module: their bodies are read together with the arm."""
    out = []
    crate = "mech_interpreter.lib"
    for it in F.syn(crate):
        if it["k"] == "fn" and it["name"] == fn_name and it["mod"].endswith(mod_suffix):
            bracket_bodies = []
            for m0 in find(it["body"], "match"):
                for a0 in m0[2]:
                    if a0[0][0] == "pts" and a0[0][1] == "Subscript::Bracket":
                        bracket_bodies.append(a0[2])
                        bracket_bodies += private_helper_bodies(F, crate, it["mod"], a0[2])
            for m in (mm for bb in bracket_bodies for mm in find(bb, "match")):
                for arm in m[2]:
                    p = arm[0]
                    if p[0] != "pslice":
                        continue
                    slots = []
                    for e in p[1]:
                        if e[0] == "pts" and e[1].startswith("Subscript::"):
                            slots.append(e[1].split("::")[-1])
                        elif e[0] == "ppath" and e[1].startswith("Subscript::"):
                            slots.append(e[1].split("::")[-1])
                        else:
                            slots.append("?")
                    # direct compile calls in this arm, with the shape pattern of an inner match if any
                    arm_bodies = [arm[2]] + private_helper_bodies(F, crate, it["mod"], arm[2])
                    inner = [im for ab in arm_bodies for im in find(ab, "match")]
                    inner = [im for im in inner if any(mc[2] == "compile" and is_node(mc[1]) and mc[1][0] == "struct" for ia in im[2] for mc in find(ia[2], "mcall"))]
                    if inner:
                        for im in inner:
                            for ia in im[2]:
                                shp = render_pat(ia[0])
                                for mc in find(ia[2], "mcall"):
                                    if mc[2] == "compile" and is_node(mc[1]) and mc[1][0] == "struct":
                                        out.append((tuple(slots), shp, mc[1][1], ia[3]))
                    else:
                        for mc in (x for ab in arm_bodies for x in find(ab, "mcall")):
                            if mc[2] == "compile" and is_node(mc[1]) and mc[1][0] == "struct":
                                out.append((tuple(slots), None, mc[1][1], arm[3]))
    return out


def shape_class(s):
    """'[1, 1]' -> S ; '[1, n]' / '[n, 1]' -> R ; '(1, 1)' -> S ; '(n, 1)' -> R"""
    s = s.replace(" ", "")
    m = re.match(r"^[\[(](\w+),(\w+)[\])]$", s)
    if not m:
        return None
    a, b = m.group(1), m.group(2)
    if a == "1" and b == "1":
        return "S"
    if (a == "1") != (b == "1"):
        return "R"
    return None


def expected_nfc(slots, shp, one_d=None, prefix="MatrixAccess"):
    one_d = one_d or {"Scalar": "AccessScalar", "Range": "AccessRange", "All": "MatrixAccessAll"}
    forms = []
    shapes = []
    if shp:
        s = shp.replace(" ", "")
        if s.startswith("(("):
            shapes = [shape_class(x) for x in re.findall(r"\(\w+,\w+\)", s)]
        else:
            shapes = [shape_class(s)]
    si = 0
    for sl in slots:
        if sl == "All":
            forms.append("All")
        elif sl == "Range":
            forms.append("Range")
        elif sl == "Formula":
            if si < len(shapes) and shapes[si]:
                forms.append("Scalar" if shapes[si] == "S" else "Range")
                si += 1
            else:
                return None
        else:
            return None
    if len(forms) == 1:
        return one_d[forms[0]], forms
    return prefix + "".join(forms), forms


def classify_component(c, w, k):
    """classify one index component of a source read. returns (class, field, loopvar)"""
    # scalar: (root - 1)
    if c[0] == "op" and c[1] == "-" and c[3] == ("int", 1):
        a = c[2]
        if a[0] == "root":
            return ("S", a[1], None)
        if a[0] == "elem" and len(a[2]) == 1 and a[2][0][0] == "var":
            fld = root_of(a[1]) or show(a[1])
            return ("V", fld, a[2][0])
        if a[0] == "var":
            return ("BAD:loop-position-minus-one", None, a)
        return ("BAD:unrecognised-minus-one:%s" % show(c), None, None)
    if c[0] == "var":
        # mask position or full traversal: look at conditions of the write
        for cond in w.conds:
            if cond[0] == "op" and cond[1] == "==" and cond[2][0] == "elem" and cond[2][2] == (c,) and cond[3] == ("const", True):
                return ("B", root_of(cond[2][1]) or show(cond[2][1]), c)
            if cond[0] == "elem" and len(cond) > 2 and cond[2] == (c,):      # `if mask[v]` == `if mask[v] == true`
                return ("B", root_of(cond[1]) or show(cond[1]), c)
        return ("A", None, c)
    if c[0] == "elem" and len(c[2]) == 1:
        return ("BAD:index-value-used-without-minus-one:%s" % show(c), root_of(c[1]), None)
    if c[0] == "root":
        return ("BAD:scalar-index-without-minus-one:%s" % show(c), c[1], None)
    if c[0] == "counter":
        return ("BAD:running-counter-used-as-source-index", None, None)
    return ("BAD:unrecognised:%s" % show(c), None, None)


def loop_of(w, var):
    for i, lp in enumerate(w.loops):
        if lp[1] == var:
            return i, lp
    return None, None


def check_access_kernel(fs, k, forms):
    """forms: list of 'Scalar'|'Range'|'All' for each index position (1 or 2). returns list of problems"""
    probs = []
    writes = [e for e in k.effects if e.kind == "write"]
    src_fields = {"source"}
    for e in k.effects:
        if e.kind in ("write", "mutate", "resize") and root_of(e.target) in src_fields:
            probs.append("writes the source: %r" % e)
        if e.kind == "write" and root_of(e.target) not in ("out", "sink"):
            probs.append("writes %s (not the output)" % show(e.target))
    for e in k.effects:
        if e.kind == "mutate" and root_of(e.target) in ("out", "sink"):
            probs.append("the output is also written in bulk (%s) outside the element-wise gather: the elements placed that way are not the ones the index addresses one by one" % show(e.value)[:80])
    reads = [w for w in writes if "source" in roots_in(w.value)]
    if len(reads) != 1:
        probs.append("expected exactly one write that reads the source, found %d" % len(reads))
        return probs
    w = reads[0]
    v = w.value
    if not (v[0] == "elem" and v[1] == ("root", "source")):
        probs.append("value written is not a single source element: %s" % show(v))
        return probs
    comps = v[2]
    if len(comps) != len(forms):
        if len(forms) == 1 and len(comps) == 1:
            pass
        else:
            probs.append("source is read with %d index positions, the access form has %d" % (len(comps), len(forms)))
            return probs
    cls = [classify_component(c, w, k) for c in comps]
    fields_in_order = [f[0] for f in fs.fields]
    # an index-vector / scalar gather must not be bypassed depending on the VALUES of the index (masks are conditions by nature)
    if not any(c[0] == "B" for c in cls):
        for cond in w.conds:
            if any(r.startswith("ix") or r in ("ixes", "ix1", "ix2") for r in roots_in(cond)) and "elem" in str(cond):
                probs.append("the element-wise gather only runs when `%s`: for the other index vectors the output is produced differently" % show(cond)[:90])
                break
    for pos, (c, form) in enumerate(zip(cls, forms)):
        kind, fld, var = c
        if kind.startswith("BAD"):
            probs.append("index position %d: %s" % (pos + 1, kind[4:]))
            continue
        ok = {"Scalar": ("S",), "Range": ("V", "B"), "All": ("A",)}[form]
        if kind not in ok:
            probs.append("index position %d is a %s form but the kernel reads it as %s (%s)" % (pos + 1, form, {"S": "a scalar index", "V": "an index vector", "B": "a mask", "A": "a full traversal"}[kind], show(comps[pos])))
            continue
        if var is not None:
            li, lp = loop_of(w, var)
            if lp is None:
                probs.append("index position %d uses %s which is not a loop variable of the write" % (pos + 1, show(var)))
                continue
            if lp[0] == "range":
                lo, hi, incl = lp[2], lp[3], lp[4]
                if lo != ("int", 0) or incl:
                    probs.append("loop for position %d does not start at 0 / is inclusive: %s" % (pos + 1, show(lp)))
                # bound
                if kind in ("V", "B"):
                    # must run over the index operand (or, for masks, the matching source dimension)
                    hb = root_of(hi[1]) if hi[0] in ("len", "nrows", "ncols") else None
                    if hb is None and hi[0] in ("len", "nrows", "ncols"):
                        hb = show(hi[1])
                    good = (hb == fld) or (hb is not None and fld is not None and str(fld) in str(show(hi[1]))) or (kind == "B" and hb == "source")
                    if not good:
                        probs.append("loop for position %d runs to %s instead of the length of its index operand" % (pos + 1, show(hi)))
                else:
                    dim = hi[0]
                    if root_of(hi[1]) != "source" and not (hi[0] == "len" and hi[1][0] == "sub"):
                        probs.append("full traversal for position %d is bounded by %s, not by the source" % (pos + 1, show(hi)))
                    elif len(forms) == 2 and hi[0] in ("nrows", "ncols") and ((pos == 0) != (hi[0] == "nrows")):
                        probs.append("position %d (%s) traverses %s of the source" % (pos + 1, "row" if pos == 0 else "column", dim))
    # distinct operands / order of operands: first index field before second
    used = [c[1] for c in cls if c[1]]
    if len(used) == 2:
        if used[0] == used[1] and not ("." in str(used[0])):
            probs.append("both index positions read the same operand %s" % used[0])
        else:
            def order(f):
                f = str(f)
                if f in fields_in_order:
                    return fields_in_order.index(f)
                m = re.search(r"\.\.?(\d)", f)
                return int(m.group(1)) if m else 99
            if order(used[0]) > order(used[1]):
                probs.append("row position reads %s and column position reads %s (operands swapped)" % (used[0], used[1]))
    # fill order: linear output written with a running counter / loop var must be column-major
    t = w.target
    if t[0] == "elem" and len(t[2]) == 1 and len(comps) == 2:
        vr, vc = cls[0][2], cls[1][2]
        if vr is not None and vc is not None:
            ir, _ = loop_of(w, vr)
            ic, _ = loop_of(w, vc)
            if ir is not None and ic is not None and not (ic < ir):
                probs.append("2-D selection is written to linear (column-major) storage with the row loop outside the column loop: rows are filled first (row-major fill)")
    if t[0] == "elem" and len(t[2]) == 2 and len(comps) == 2:
        # out[r', c'] : each target component must advance with the loop of the same source position
        for pos in (0, 1):
            tc = t[2][pos]
            sv = cls[pos][2]
            if tc[0] == "counter":
                incs = [e for e in k.effects if e.kind == "counter" and e.target[1] == tc[1] and e.value[0] == "op"]
                if sv is not None and not any(e.loops and e.loops[-1][1] == sv for e in incs):
                    probs.append("output %s counter %s does not advance with the loop over index position %d" % ("row" if pos == 0 else "column", tc[1], pos + 1))
            elif tc[0] == "var":
                if sv is not None and tc != sv and loop_of(w, tc)[1] and loop_of(w, tc)[1][0] != "zip":
                    probs.append("output position %d follows %s but the source position follows %s" % (pos + 1, show(tc), show(sv)))
    return probs


def mask_guard_present(k, masks):
    """a comparison between len(mask) and a source dimension that is not merely the resize bookkeeping"""
    for e in k.effects:
        for c in e.conds:
            s = show(c)
            for m in masks:
                if re.search(r"len\(%s\)" % re.escape(str(m)), s) and re.search(r"(len|nrows|ncols)\(source", s):
                    return True
        if e.kind == "panic":
            for c in e.conds:
                if any(str(m) in show(c) for m in masks) and "source" in show(c):
                    return True
    return False


def norm_expr(e):
    s = render(e)
    s = s.replace(".borrow()", "").replace(" ", "")
    return s


def run(F, rep, tier):
    rep.rule("C03-R1", "subscript(): each index-form pair compiles the access family of that meaning (11 documented forms)")
    rep.rule("C03-R2", "access kernels: 1-based index arithmetic per position, row/column roles, loop bounds, column-major fill")
    rep.rule("C03-R3", "access kernels write only their output")
    rep.rule("C03-R4", "mask kernels compare the mask length with the indexed dimension before reading")
    rep.rule("C03-R5", "dispatch arms allocate the output with the shape the index forms determine")
    rt = routing(F)
    rep.floor("C03-R1", "index-form arms in subscript()", len(rt), 25)
    nfc_forms = {}
    for slots, shp, nfc, line in rt:
        if "?" in slots:
            continue
        exp = expected_nfc(slots, shp)
        if exp is None:
            rep.note("unclassified_routing_arm", {"slots": slots, "shape": shp, "nfc": nfc})
            continue
        want, forms = exp
        ok = nfc == want
        rep.check(ok, "C03-R1", "%s%s->%s" % ("x".join(slots), ("@" + shp.replace(" ", "")) if shp else "", want if ok else nfc),
                  "subscript(): index forms %s with shape pattern %s compile %s, expected %s" % (list(slots), shp, nfc, want), "src/interpreter/src/expressions.rs (expanded line %d)" % line,
                  sample={"slots": slots, "shape": shp, "compiles": nfc})
        nfc_forms[nfc] = forms
    # ---- kernels per native compiler
    crate = "mech_interpreter.lib"
    cg = CallGraph(F, [crate, "mech_core.lib"])
    S = X.load_fxn_structs(F, [crate])
    by_name = {fs.name: fs for fs in S.values()}
    checked = set()
    n_k = 0
    mask_missing = defaultdict(list)
    struct_forms = {}
    all_nfc = {f for f in cg.bodies if re.match(r"<.* as mech_core::functions::NativeFunctionCompiler>::compile$", f)}
    # generic front compilers (AccessScalar / AccessRange) delegate to the matrix family of the same forms
    for nfc, forms in sorted(list(nfc_forms.items())):
        root = [f for f in all_nfc if re.match(r"<.*::%s as " % re.escape(nfc), f)]
        if len(root) == 1:
            for g in cg.out(root[0]):
                if g in all_nfc and g != root[0]:
                    nm = re.match(r"<.*::(\w+) as ", g).group(1)
                    if nm == "MatrixAccess" + "".join(forms) and nm not in nfc_forms:
                        nfc_forms[nm] = forms
    for nfc, forms in sorted(nfc_forms.items()):
        root = [f for f in all_nfc if re.match(r"<.*::%s as " % re.escape(nfc), f)]
        if not rep.check(len(root) == 1, "C03-R2", "nfc:%s" % nfc, "native compiler %s not found" % nfc):
            continue
        reach = cg.reach(root, cut=all_nfc - set(root))
        if not nfc.startswith("MatrixAccess"):
            continue
        structs = set()
        for f in reach:
            b = cg.bodies.get(f)
            if not b or re.match(r"^<.* as ", f):
                continue
            for i, s in b.aggs():
                nm = s["adt"].split("::")[-1]
                fs = by_name.get(nm)
                if fs and fs.solve is not None and re.match(r"Access\dD", nm) and "source" in dict(fs.fields):
                    structs.add(nm)
        rep.floor("C03-R2", "access structs reachable from %s" % nfc, len(structs), 1)
        for nm in sorted(structs):
            fs = by_name[nm]
            struct_forms[nm] = forms
            key = "%s:%s" % (nfc, nm)
            if key in checked:
                continue
            checked.add(key)
            try:
                k = Kernel(fs.solve, fs.fields)
            except Unrecognised as e:
                # a kernel in a form the evaluator does not normalise (an iterator pipeline with closures ...) is UNDECIDED, not reported: the struct is still reachable from the
                # dispatcher (floor above) and the floor "access kernels normalised" below bounds how many kernels may be in that state
                rep.note("undecided", "C03-R2: access kernel %s is not normalised by the kernel evaluator (%s): its index arithmetic is not decided in this form" % (nm, e))
                continue
            n_k += 1
            probs = check_access_kernel(fs, k, forms)
            r3 = [p for p in probs if p.startswith("writes")]
            r2 = [p for p in probs if not p.startswith("writes")]
            rep.check(not r2, "C03-R2", key if not r2 else "%s:%s" % (key, re.sub(r"[^a-z0-9]+", "-", r2[0].lower())[:60]),
                      "%s (index forms %s): %s" % (nm, forms, "; ".join(r2)), "%s (%s)" % (nm, crate), sample={"struct": nm, "forms": forms, "normal_form": [repr(e) for e in k.effects][:4]})
            rep.check(not r3, "C03-R3", key, "%s: %s" % (nm, "; ".join(r3)), "%s (%s)" % (nm, crate))
            # R4
            masks = set()
            for e in k.effects:
                for c in e.conds:
                    if c[0] == "op" and c[1] == "==" and c[3] == ("const", True) and c[2][0] == "elem":
                        masks.add(root_of(c[2][1]) or show(c[2][1]))
            if masks:
                if mask_guard_present(k, masks):
                    rep.ok("C03-R4", "%s:mask-length-guard" % nm)
                else:
                    mask_missing[nm].append(sorted(map(str, masks)))
    rep.floor("C03-R2", "access kernels normalised", n_k, 25)
    for nm in sorted(mask_missing):
        rep.bad("C03-R4", "%s:mask-length-guard" % nm,
                "%s reads through a logical mask (%s) without comparing the mask length with the indexed dimension: a mask longer than the dimension is accepted and yields a padded/shifted result instead of an error" % (nm, mask_missing[nm][0]),
                "%s (%s)" % (nm, crate))

    # ---- R5: output shape in the dispatch arms
    resizing = set()
    for nm, fs in by_name.items():
        if fs.solve is not None and re.match(r"Access\dD", nm):
            try:
                kk = Kernel(fs.solve, fs.fields)
                if any(e.kind == "resize" and root_of(e.target) in ("out", "sink") for e in kk.effects):
                    resizing.add(nm)
            except Unrecognised:
                pass
    items = F.syn(crate)
    n_arms = 0
    for it in items:
        if it["k"] != "fn" or not it["mod"].endswith("access::matrix"):
            continue
        for m in find(it["body"], "match"):
            for arm in m[2]:
                p = arm[0]
                if p[0] != "ptuple" or len(p[1]) != 2 or p[1][1][0] != "pslice":
                    continue
                srcp = p[1][0]
                src_binder = None
                for x in find(srcp, "pident"):
                    src_binder = x[1]
                slots = []
                for e in p[1][1][1]:
                    if e[0] == "ppath" and e[1].endswith("IndexAll"):
                        slots.append(("A", None))
                    elif e[0] == "pts":
                        v = e[1].split("::")[-1]
                        b = [x[1] for x in find(e, "pident")]
                        b = b[0] if b else None
                        if v == "Index":
                            slots.append(("S", b))
                        elif v == "MatrixIndex":
                            slots.append(("V", b))
                        elif v == "MatrixBool":
                            slots.append(("B", b))
                        elif v == "Bool":
                            slots.append(("Sb", b))
                        else:
                            slots.append(("?", b))
                    else:
                        slots.append(("?", None))
                if any(s[0] in ("?", "Sb") for s in slots) or not slots:
                    continue
                bs = boxed_structs(arm[2])
                if len(bs) != 1:
                    continue
                s = bs[0]
                fields = {f[0]: f[1] for f in s[2]}
                outf = fields.get("out") or fields.get("sink")
                if outf is None:
                    continue
                ctor = None
                for c in find(outf, "call"):
                    pth = path_of(c[1]) or ""
                    mm = re.match(r"(DMatrix|DVector|RowDVector)::from_element$", pth)
                    if mm:
                        ctor = (mm.group(1), [norm_expr(a) for a in c[2][:-1]])
                if ctor is None:
                    continue   # scalar outputs (T::default()) etc.
                # local definitions (e.g. let cols = ix.iter().filter(..).count())
                locals_ = {}
                stmts = arm[2][1] if arm[2][0] == "block" else []
                for st in stmts:
                    if st[0] == "let" and st[2] is not None and st[1][0] == "pident":
                        locals_[st[1][1]] = norm_expr(st[2])
                guard = norm_expr(arm[1]) if arm[1] else ""

                def dim(slot, pos, two_d):
                    kind, b = slot
                    if kind == "A":
                        if not two_d:
                            return {"%s.len()" % src_binder}
                        return {"%s.%s()" % (src_binder, "nrows" if pos == 0 else "ncols")}
                    if kind == "S":
                        return {"1"}
                    if kind == "V":
                        return {"%s.len()" % b, "%s.nrows()" % b}
                    if kind == "B":
                        cands = {n for n, e in locals_.items() if b in e and "filter" in e and "count" in e}
                        if re.search(r"%s\.iter\(\)\.filter\(.*\)\.count\(\)==1" % re.escape(b), guard):
                            cands.add("1")
                        # an inline count expression
                        cands.add("%s.iter().filter(|&&b|b).count()" % b)
                        if s[1] in resizing:
                            # the kernel counts the true entries and resizes its output itself
                            cands.add("%s.len()" % b)
                        return cands
                    return set()
                two_d = len(slots) == 2
                exp = [dim(sl, i, two_d) for i, sl in enumerate(slots)]
                kind, args = ctor
                # a size passed through a named local (`let n = ix.len(); from_element(n, ..)`) is the expression the local was bound to
                for _ in range(3):
                    args = [locals_[a] if (a in locals_ and not any(a in ex for ex in exp)) else a for a in args]
                n_arms += 1
                why = None
                if two_d:
                    if kind == "DMatrix":
                        if len(args) != 2 or args[0] not in exp[0] or args[1] not in exp[1]:
                            why = "allocates DMatrix(%s) but the index forms give (%s, %s)" % (", ".join(args), sorted(exp[0]), sorted(exp[1]))
                    elif kind == "DVector":
                        cols_one = "1" in exp[1] or slots[1][0] == "S"
                        if not (len(args) == 1 and args[0] in exp[0]):
                            why = "allocates a column vector of length %s but the row position gives %s" % (args, sorted(exp[0]))
                    elif kind == "RowDVector":
                        if not (len(args) == 1 and args[0] in exp[1]):
                            why = "allocates a row vector of length %s but the column position gives %s" % (args, sorted(exp[1]))
                else:
                    if kind in ("DVector", "RowDVector"):
                        if not (len(args) == 1 and (args[0] in exp[0] or (slots[0][0] == "A" and args[0] in ("%s.len()" % src_binder, "%s.nrows()*%s.ncols()" % (src_binder, src_binder))))):
                            why = "allocates a vector of length %s but the index form gives %s" % (args, sorted(exp[0]))
                    elif kind == "DMatrix":
                        why = None
                sname = s[1]
                key = "%s:%s:%s:%s" % (it["name"], sname, "".join(x[0] for x in slots), kind)
                if why:
                    rep.bad("C03-R5", key + ":" + re.sub(r"[^A-Za-z0-9]+", "-", ",".join(args))[:40],
                            "%s: arm %s%s constructs %s and %s" % (it["name"], render_pat(p)[:120], (" if " + guard[:80]) if guard else "", sname, why), "expanded line %d" % arm[3])
                else:
                    rep.ok("C03-R5", key, sample={"fn": it["name"], "pattern": render_pat(p)[:120], "alloc": "%s(%s)" % (kind, ",".join(args))})
    rep.floor("C03-R5", "access dispatch arms with an allocated output", n_arms, 300)
    rep.analysed = {"routing_arms": len(rt), "native_compilers": sorted(nfc_forms), "kernels": n_k, "dispatch_arms_with_output": n_arms}
    from rules.k2_targets import run_k2
    from rules.c03_ixconv import behaviour_partition
    run_k2(F, rep, "C03", "C03-R6", semantic=behaviour_partition(F))
    from rules.loopshape import subscript_operand_positions
    subscript_operand_positions(F, rep, "C03-R7", r"^subscript$", 12)
    from rules.c03_ixconv import run_r8
    run_r8(F, rep, "C03-R8", r"^subscript$", rule9="C03-R9")
