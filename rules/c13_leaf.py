"""C13-R12 - parser leaf vs evaluator: every component of a numeric literal node holds the text that was consumed at the place where the
evaluator spells that component.

The EVALUATOR side gives, per node kind (RealNumber variant / C64Node), its SPELLING TEMPLATES: the order in which it writes the node's
components and the fixed texts between them when it re-spells the literal to obtain its value -
    float():       "{0}.{1}"           -> [payload.0  "."  payload.1]
    scientific():  "{0}.{1}e{2}{3}"    -> [payload.0.0 "." payload.0.1 "e" _ payload.1.1],  [payload.1.1 "." payload.1.2]
    rational():    R64::new(n, d)      -> [payload.0  "/"  payload.1]         (Ratio::new(numer, denom) denotes numer/denom)
    complex():     C64::new(re, im)    -> [real  "+"|"-"  imaginary.number  "i"|"j"]
extracted from the arms of real() / the evaluator of the node type with lib.inline + lib.provenance (components of the payload, independent of
the spelling of locals and of helper extraction).  A component written directly before a "." is a WHOLE-digits component, one written directly
after it a FRACTION-digits component; the payload of a variant whose evaluator parses its bare text is whole digits.

The PARSER side is read off the MIR of every function of mech_syntax with a parser signature (and every other public function) that builds
such a node - found by the aggregates of the payload types of `Number`, never by name; private helpers and public non-parser node
constructors are expanded with lib.mirinline, so a node built in a helper is its caller's obligation: lib.parsesites finds the parser applications (by type), their order on the input thread and the fixed text a token parser
accepts (`period` -> ".", `alt((tag("e"), tag("E")))` -> e|E); lib.mirfields gives, per COMPONENT of the node built, the parser applications
(and the component of their result) it is taken from, or that it is `Token::default()`.

Obligations per builder and template step  a <text> b:
  order       the parser applications that feed a consumed their text before the application that accepts <text>, those that feed b after it (when
              the builder applies such a parser itself); in any case nothing that feeds b was consumed before something that feeds a; two
              components of ONE sub-literal (the pair of a float literal handed on as mantissa) keep the order they have in that sub-literal's template
  point-side  a component that the evaluator writes before the point takes from a sub-literal only that literal's whole digits, one written
              after the point only its fraction digits (an integer's digits are whole digits)
  consumed-text-stored   (every builder that returns `Ok((input, node))`) every application of a variable-text parser on the input thread of the
              returned input feeds some component of the node: digits that were consumed cannot be dropped / replaced by an empty token
  built-under-minus-sign (builders of a wrapper variant, RealNumber::Negated) the construction runs exactly on the branch on which the parser of `-`
              succeeded: Some of `opt(dash)`, `is_some()`, the TokenKind of the dash leaf in a match / `==` on the sign token's kind
Decided: the positional / conditional agreement of the two tables.  Not decided: what the evaluator then computes from the spelling (R3, R8, R9).
Undecided (evidence note, nothing raised): a node built inside a closure handed to a combinator, a component computed from a parameter of a
public builder, a sign test against a promoted constant (`kind == TokenKind::Dash`: the constant's body is not in the facts).
"""
import re
from lib.facts import CallGraph, find, walk, is_node, path_of, render
from lib.provenance import Prov, split_top, const_items
from lib.inline import module_fns, inline_item
from lib.mirinline import inline_body
from lib.mirfields import tuple_types, generic_args, parse_proj
from lib.parsesites import ParseSites, INPUT_TYPE

RULE = "C13-R12"
NODES_MOD = "mech_core::nodes::"
# constructors of external numeric types whose operand order has a fixed written form: (texts between operand i and i+1 ..., texts after the last)
CTOR_FORMS = {"R64::new": [("/",), ()], "C64::new": [("+", "-"), ("i", "j")]}
_HOLE = re.compile(r"\{(\d*)(?::[^{}]*)?\}")


# ---- types ------------------------------------------------------------------------------------------------------------------------------

class Types:
    def __init__(self, F):
        self.adt = {a["name"]: a for a in F.adts("mech_core.lib")}
        num = self.adt.get(NODES_MOD + "Number")
        # the numeric literal nodes: what the variants of `Number` carry
        self.nodes = []
        for v in (num or {}).get("variants", []):
            for f in v["fields"]:
                if f[1] in self.adt:
                    self.nodes.append(f[1])
        self.variant_names = {v["name"] for n in self.nodes for v in self.adt[n]["variants"] if self.adt[n].get("enum")}
        self._contains = {}

    def strip(self, ty):
        ty = ty.strip()
        while ty.startswith("&"):
            ty = re.sub(r"^&\s*(mut\s+)?", "", ty)
        return ty

    def contains_node(self, ty, depth=0):
        ty = self.strip(ty)
        if ty in self._contains:
            return self._contains[ty]
        self._contains[ty] = False
        r = False
        if ty in self.nodes:
            r = True
        elif depth < 6:
            tt = tuple_types(ty)
            if tt is not None:
                r = any(self.contains_node(t, depth + 1) for t in tt)
            elif ty in self.adt and not self.adt[ty].get("enum"):
                r = any(self.contains_node(f[1], depth + 1) for f in self.adt[ty]["variants"][0]["fields"])
            elif re.match(r"^(core::option::Option|alloc::boxed::Box)<", ty):
                r = self.contains_node(generic_args(ty)[0], depth + 1)
        self._contains[ty] = r
        return r

    def open(self, ty, path):
        """look through Option / Box wrappers: (type, path) of the value inside"""
        ty = self.strip(ty)
        for _ in range(4):
            if ty.startswith("core::option::Option<"):
                ty, path = self.strip(generic_args(ty)[0]), path + ("@Some", ".0")
            elif ty.startswith("alloc::boxed::Box<"):
                ty = self.strip(generic_args(ty)[0])
            else:
                break
        return ty, path

    def step(self, ty, path, member):
        """one member access (tuple index or field name) on a value of type ty at MIR path `path` -> (type, path) or None when the value is a leaf"""
        ty, path = self.open(ty, path)
        tt = tuple_types(ty)
        if tt is not None:
            if str(member).isdigit() and int(member) < len(tt):
                return self.strip(tt[int(member)]), path + (".%d" % int(member),)
            return None
        a = self.adt.get(ty)
        if a is not None and not a.get("enum") and (ty in self.nodes or self.contains_node(ty)):
            for i, f in enumerate(a["variants"][0]["fields"]):
                if f[0] == str(member):
                    return self.strip(f[1]), path + (".%d" % i,)
        return None

    def comp_path(self, ty, base, members):
        """MIR path of the evaluator component reached from a value of type ty (at MIR path base) by `members`; stops at the first leaf
        (a Token: `.chars` below it is the token's text, not a component of the node)"""
        path = base
        for m in members:
            nx = self.step(ty, path, m)
            if nx is None:
                break
            ty, path = nx
        ty, path = self.open(ty, path)
        return path


def pstr(p):
    return "".join(p) if p else "(whole)"


def readable(T, adt, path):
    """component path for messages: `payload.0.1` for the payload of an enum variant, field names for a struct node (`imaginary.number`)"""
    a = T.adt.get(adt)
    if a is None or not path:
        return pstr(path)
    if a.get("enum"):
        return "payload" + "".join(path[1:])
    out, ty = [], adt
    for e in path:
        rec = T.adt.get(ty)
        if e.startswith(".") and rec is not None and not rec.get("enum") and int(e[1:]) < len(rec["variants"][0]["fields"]):
            f = rec["variants"][0]["fields"][int(e[1:])]
            out.append(f[0])
            ty = T.open(f[1], ())[0]
        elif e.startswith("@") or (e == ".0" and out):
            continue
        else:
            out.append(e.lstrip("."))
    return ".".join(out)


# ---- evaluator side: spelling templates -------------------------------------------------------------------------------------------------------

def _fmt_items(spec):
    """['lit' text | 'hole' index] of a format string literal (as rendered in the macro text: with its quotes)"""
    s = spec.strip()
    if not (s.startswith('"') and s.endswith('"')):
        return None
    s = s[1:-1].replace("{{", "\x00").replace("}}", "\x01")
    out, pos, auto = [], 0, 0
    for m in _HOLE.finditer(s):
        if m.start() > pos:
            out.append(("lit", s[pos:m.start()]))
        if m.group(1):
            out.append(("hole", int(m.group(1))))
        else:
            out.append(("hole", auto))
            auto += 1
        pos = m.end()
    if pos < len(s):
        out.append(("lit", s[pos:]))
    return [(k, v.replace("\x00", "{").replace("\x01", "}") if k == "lit" else v) for k, v in out]


def _is_parsed(body, P, node):
    """the text built by `node` is parsed as a number: it is (inside) the receiver of a `.parse()`, directly or through a named local"""
    def holds(e, depth=4):
        if e is node or any(x is node for x in walk(e)):
            return True
        if depth > 0:
            for x in walk(e):
                if x[0] == "path":
                    i = P.init(x)
                    if i is not None and holds(i, depth - 1):
                        return True
        return False
    for m in find(body, "mcall"):
        if m[2] == "parse" and holds(m[1]):
            return True
    for c in find(body, "call"):
        if (path_of(c[1]) or "").endswith("from_str_radix") and c[2] and holds(c[2][0]):
            return True
    return False


class Evaluators:
    """spelling templates and point sides of the components of every numeric literal node kind, read off the literal evaluator"""

    def __init__(self, F, T):
        self.T = T
        self.templates = {}        # (adt, variant) -> [template]; template = [("hole", path | None) | ("lit", frozenset of lower-cased texts)]
        self.side = {}             # (adt, variant) -> {path: "whole" | "fraction"}
        self.where = {}            # (adt, variant) -> evaluator function(s) for messages
        items = F.syn("mech_interpreter.lib")
        self.lit = module_fns(items, "literals")
        self.consts = const_items(items)
        self._rewrap = []
        self._enum_arms()
        self._struct_evaluators()
        self._close_rewraps()

    def _prov(self, params, body):
        P = Prov(params=params, body=body)
        P.consts = self.consts
        return P

    def _hole_path(self, P, roots, ty_of_param, base_of_param, only_param=None):
        paths = set()
        for r in roots:
            if only_param is not None and r[0] != only_param:
                continue
            if r[0] not in ty_of_param:
                return None
            paths.add(self.T.comp_path(ty_of_param[r[0]], base_of_param[r[0]], r[1:]))
        return paths.pop() if len(paths) == 1 else None

    def _templates_of(self, body, P, hole):
        """templates of one evaluator body; `hole(roots)` maps the provenance of an operand to a component path (or None)"""
        out, bare = [], set()
        for m in find(body, "macro"):
            if m[1].split("::")[-1] not in ("format_args", "format"):
                continue
            parts = split_top(m[2] or "")
            items = _fmt_items(parts[0]) if parts else None
            if not items or not any(k == "hole" for k, _ in items) or not _is_parsed(body, P, m):
                continue
            args = P.macro_args(m)[1:]
            t = []
            for k, v in items:
                if k == "lit":
                    t.append(("lit", frozenset([v.lower()])))
                else:
                    t.append(("hole", hole(args[v][1]) if v < len(args) else None))
            out.append(t)
        for c in find(body, "call"):
            p = path_of(c[1]) or ""
            for ctor, seps in CTOR_FORMS.items():
                if (p == ctor or p.endswith("::" + ctor)) and len(c[2]) == len(seps):
                    t = []
                    for a, sep in zip(c[2], seps):
                        t.append(("hole", hole(P.roots(a))))
                        if sep:
                            t.append(("lit", frozenset(x.lower() for x in sep)))
                    out.append(t)
        if not out:
            # no re-spelling: the component whose bare text is parsed is the number's digits as written
            for m in find(body, "mcall"):
                if m[2] == "parse":
                    h = hole(P.roots(m[1]))
                    if h is not None:
                        bare.add(h)
            for c in find(body, "call"):
                if (path_of(c[1]) or "").endswith("from_str_radix") and c[2]:
                    h = hole(P.roots(c[2][0]))
                    if h is not None:
                        bare.add(h)
        return out, bare

    def _sides(self, key, templates, bare):
        side = {}
        for t in templates:
            for i, (k, v) in enumerate(t):
                if k != "hole" or v is None:
                    continue
                s = None
                if i + 1 < len(t) and t[i + 1] == ("lit", frozenset(["."])):
                    s = "whole"
                if i > 0 and t[i - 1] == ("lit", frozenset(["."])):
                    s = "fraction" if s is None else "both"
                if s is not None:
                    side[v] = s if side.get(v, s) == s else "both"
        for p in bare:
            side.setdefault(p, "whole")
        for p, s in side.items():
            if s != "both":
                self.side.setdefault(key, {}).setdefault(p, s)

    def _enum_arms(self):
        from rules.c13 import variant_arms, pat_variants, DISPATCH
        T = self.T
        for node in T.nodes:
            a = T.adt[node]
            if not a.get("enum"):
                continue
            short = node.split("::")[-1]
            fields = {v["name"]: v["fields"] for v in a["variants"]}
            for name, item in sorted(self.lit.items()):
                it = inline_item(item, self.lit, 4, stop=tuple(x for x in DISPATCH if x != name))
                params = [p for p in it["sig"]["inputs"] if isinstance(p, list)]
                # the dispatcher over this node type: a function with a parameter of the node type whose body matches it by variant
                if not any(re.search(r"\b%s\b" % short, p[1] or "") for p in params):
                    continue
                Pf = self._prov([p[0] for p in params], it["body"])
                for scrut, pat, arm in variant_arms(it["body"], short):
                    ex = Pf.exact(scrut)
                    if ex is None or len(ex) != 1:
                        continue
                    vs = pat_variants(pat, short)
                    if len(vs) != 1:
                        continue
                    v = sorted(vs)[0]
                    pp = pat
                    while is_node(pp) and pp[0] in ("ptype", "pref", "pident"):
                        pp = pp[1] if pp[0] == "ptype" else (pp[2] if pp[0] == "pref" else pp[4])
                    if not (is_node(pp) and pp[0] == "pts") or v not in fields or len(pp[2]) != len(fields[v]):
                        continue
                    P = self._prov(list(pp[2]), [["expr", arm, False]])
                    ty = {i: f[1] for i, f in enumerate(fields[v])}
                    base = {i: (".%d" % i,) for i in range(len(fields[v]))}
                    hole = lambda roots, P=P, ty=ty, base=base: self._hole_path(P, roots, ty, base)
                    ts, bare = self._templates_of(arm, P, hole)
                    key = (node, v)
                    if ts:
                        self.templates.setdefault(key, []).extend(t for t in ts if t not in self.templates.get(key, []))
                    self._sides(key, self.templates.get(key, []), bare)
                    # an arm that re-wraps a component in another variant and evaluates that: the component has the side of that variant's payload
                    for c in find(arm, "call"):
                        m = re.match(r"^(?:.*::)?%s::(\w+)$" % short, path_of(c[1]) or "")
                        if m and len(c[2]) == 1:
                            h = hole(P.roots(c[2][0]))
                            if h is not None:
                                self._rewrap.append((key, h, (node, m.group(1)), (".0",)))

    def _struct_evaluators(self):
        T = self.T
        for node in T.nodes:
            a = T.adt[node]
            if a.get("enum"):
                continue
            short = node.split("::")[-1]
            for name, item in sorted(self.lit.items()):
                params = [p for p in item["sig"]["inputs"] if isinstance(p, list)]
                idx = [i for i, p in enumerate(params) if re.search(r"^&?\s*%s$" % short, (p[1] or "").strip())]
                if len(idx) != 1:
                    continue
                from rules.c13 import DISPATCH
                it = inline_item(item, self.lit, 3, stop=DISPATCH)
                P = self._prov([p[0] for p in it["sig"]["inputs"] if isinstance(p, list)], it["body"])
                i0 = idx[0]
                hole = lambda roots, P=P, i0=i0, node=node: self._hole_path(P, roots, {i0: node}, {i0: ()}, only_param=i0)
                ts, bare = self._templates_of(it["body"], P, hole)
                key = (node, short)
                if ts:
                    self.templates.setdefault(key, []).extend(t for t in ts if t not in self.templates.get(key, []))
                    self._sides(key, self.templates[key], bare)

    def _close_rewraps(self):
        for _ in range(3):
            for key, h, tgt, tp in self._rewrap:
                s = self.side.get(tgt, {}).get(tp)
                if s and h not in self.side.setdefault(key, {}):
                    self.side[key][h] = s



# ---- the sign: a negation node is built exactly where the minus sign was consumed ---------------------------------------------------------------

def wrapper_variants(T):
    """variants of a node enum whose payload is (a box of) the enum itself: RealNumber::Negated(Box<RealNumber>)"""
    out = set()
    for n in T.nodes:
        a = T.adt[n]
        if a.get("enum"):
            for v in a["variants"]:
                if len(v["fields"]) == 1 and T.open(v["fields"][0][1], ())[0] == n:
                    out.add((n, v["name"]))
    return out


def place_type(b, T, local, proj):
    """type of the place `local.proj` (tuples, structs of mech_core, Option / Result payloads), or None"""
    ty = T.strip(b.locals[local]) if local < len(b.locals) else None
    for e in proj:
        if ty is None:
            return None
        if e.startswith("@"):
            m = re.match(r"^core::(option::Option|result::Result)<(.*)>$", ty)
            if not m:
                return None
            args = generic_args(ty)
            ty = T.strip(args[0] if e in ("@Some", "@Ok") else (args[1] if len(args) > 1 else ""))
            continue
        if e.startswith("."):
            i = int(e[1:])
            tt = tuple_types(ty)
            if tt is not None:
                ty = T.strip(tt[i]) if i < len(tt) else None
            elif ty in T.adt and not T.adt[ty].get("enum"):
                fs = T.adt[ty]["variants"][0]["fields"]
                ty = T.strip(fs[i][1]) if i < len(fs) else None
            elif i == 0:
                continue                      # the single field of an Option / Result payload after its downcast
            else:
                return None
        else:
            return None
    return ty


def _leaf_kind(cg, T, fn):
    """the TokenKind variant of the token a leaf parser function builds, or None"""
    from lib.mirfields import FieldFlow
    b = cg.bodies.get(fn)
    if b is None:
        return None
    kinds = set()
    ff = FieldFlow(b)
    for _, st in b.aggs():
        if st["adt"].endswith("nodes::Token") and "kind" in st.get("fields", []):
            for x in ff.sources(st["src"][st["fields"].index("kind")]):
                if x.kind == "agg" and "::TokenKind::" in x.key:
                    kinds.add(x.key.split("::")[-1])
    return kinds.pop() if len(kinds) == 1 else None


def _switch_subject(b, on, depth=6):
    """what a switch operand tests: ("discr", [local, proj], True) for the discriminant of a place, ("some", place, polarity) for the bool of
    Option::is_some / is_none (polarity False = negated), following copies and `!`; None otherwise"""
    defs = b.defs()
    pol = True
    cur = on
    while depth > 0 and isinstance(cur, list):
        depth -= 1
        ds = [d for d in defs.get(cur[0], []) if d[1]["d"][1] == ""]
        if len(ds) != 1:
            return None
        st = ds[0][1]
        if st.get("k") == "call":
            cal = st.get("f") or st["tf"]
            m = re.search(r"option::Option::<T>::(is_some|is_none)$", cal)
            if m and st["args"] and isinstance(st["args"][0], list):
                return ("some", st["args"][0], pol == (m.group(1) == "is_some"))
            m = re.search(r"cmp::PartialEq(?:<[^>]*>)?>?::(eq|ne)$", cal)
            if m and len(st["args"]) == 2 and all(isinstance(a, list) for a in st["args"]):
                return ("eq", st["args"], pol == (m.group(1) == "eq"))
            return None
        rk, src = st.get("rk"), st.get("src") or []
        if rk == "discr" and src and isinstance(src[0], list):
            return ("discr", src[0], pol)
        if rk in ("use", "copy") and src and isinstance(src[0], list):
            cur = src[0]
        elif rk == "un" and st.get("op") == "Not" and src and isinstance(src[0], list):
            pol, cur = not pol, src[0]
        else:
            return None
    return None


def negation_condition(b, ps, T, cg, blk):
    """under which condition the block `blk` (where a negation node is built) runs, in terms of the parser applications that can consume a minus
    sign: -> (verdict, text); verdict "ok" (runs exactly when the minus was consumed), "inverted" (runs exactly when it was NOT: on the other
    sign / on no sign), "unconditional", "undecided" """
    # parser applications able to consume "-": by their own language, or (a sequence / choice applied in one step) by a leaf function they are given
    minus_sites = {}
    for x in ps.sites:
        l = ps.lang(x)
        if l is not None and "-" in l:
            minus_sites[x] = None
        else:
            for f in ps.leaf_fns(x):
                from lib.parsesites import fn_lang
                if fn_lang(cg, f) == frozenset(["-"]):
                    minus_sites[x] = f
    if not minus_sites:
        return "undecided", "the builder applies no parser of `-`"
    for x in sorted(minus_sites):
        if ps.lang(x) == frozenset(["-"]) and b.dominates(x, blk):
            return "ok", "built after the mandatory minus-sign parser `%s`" % ps.describe(x)
    idom = b.idom()
    seen_switch = False
    x = blk
    while x != 0 and x in idom:
        x = idom[x]
        t = b.blocks[x]["t"]
        if t["k"] != "switch" or not isinstance(t["on"], list):
            continue
        explicit = {v: tg for v, tg in t["targets"]}

        def runs(v):
            tg = explicit.get(v, t["else"])
            return blk in b.reachable_from([tg], avoid=(x,))
        if all(blk in b.reachable_from([tg], avoid=(x,)) for tg in set(explicit.values()) | {t["else"]}):
            continue                                   # every branch of this switch leads to the construction: it does not decide it
        sub = _switch_subject(b, t["on"])
        if sub is not None and sub[0] == "discr" and re.match(r"^core::(ops::control_flow::ControlFlow|result::Result)<", place_type(b, T, sub[1][0], parse_proj(sub[1][1])) or ""):
            continue                                   # `?` / match on a parser's Result: the construction is not reached on failure, which says nothing about the sign
        seen_switch = True
        if sub is None:
            continue
        kind, place, pol = sub
        if kind == "eq":
            # `tok.kind == TokenKind::K`: one operand is the kind of a token the sign parser returned, the other a constant kind
            from lib.parsesites import fn_lang
            res = None
            for tok, const in ((place[0], place[1]), (place[1], place[0])):
                ks = {y.key.split("::")[-1] for y in ps.ff.sources(const) if y.kind == "agg" and "::TokenKind::" in y.key}
                ss = [y for y in ps.ff.sources(tok) if y.kind == "site" and y.key in minus_sites]
                if len(ks) == 1 and ss and not any(y.kind == "site" for y in ps.ff.sources(const)):
                    res = (ks.pop(), ss[0].key)
            if res is None:
                continue
            k, site = res
            leafs = {f: _leaf_kind(cg, T, f) for f in ps.leaf_fns(site)}
            minus_kinds = {kk for f, kk in leafs.items() if kk and fn_lang(cg, f) == frozenset(["-"])}
            other_kinds = {kk for f, kk in leafs.items() if kk and fn_lang(cg, f) not in (None, frozenset(["-"]))}
            if not minus_kinds or k not in minus_kinds | other_kinds:
                continue
            when_equal, when_not = (runs(1), runs(0)) if pol else (runs(0), runs(1))
            on_minus, on_other = (when_equal, when_not) if k in minus_kinds else (when_not, when_equal)
            what = "`%s`" % ps.describe(site)
            if on_minus and not on_other:
                return "ok", "built when the sign token of %s is TokenKind::%s" % (what, "/".join(sorted(minus_kinds)))
            if on_other and not on_minus:
                return "inverted", "built when the sign token of %s is not TokenKind::%s (the minus sign), and not when it is" % (what, "/".join(sorted(minus_kinds)))
            continue
        srcs = [s for s in ps.ff.sources(place) if s.kind == "site" and s.key in minus_sites]
        if not srcs:
            continue
        pty = place_type(b, T, place[0], parse_proj(place[1])) or ""
        if kind == "some" or pty.startswith("core::option::Option<"):
            if kind == "some":
                on_some, on_none = (runs(1), runs(0)) if pol else (runs(0), runs(1))
            else:
                on_some, on_none = runs(1), runs(0)
            what = "`%s`" % ps.describe(srcs[0].key)
            if on_some and not on_none:
                return "ok", "built when %s consumed the minus sign" % what
            if on_none and not on_some:
                return "inverted", "built when %s did NOT consume a minus sign, and not when it did" % what
            continue
        if pty.endswith("nodes::TokenKind"):
            names = [v["name"] for v in T.adt[pty]["variants"]] if pty in T.adt else []
            site = srcs[0].key
            leafs = {f: _leaf_kind(cg, T, f) for f in ps.leaf_fns(site)}
            from lib.parsesites import fn_lang
            minus_kinds = {k for f, k in leafs.items() if k and fn_lang(cg, f) == frozenset(["-"])}
            other_kinds = {k for f, k in leafs.items() if k and fn_lang(cg, f) not in (None, frozenset(["-"]))}
            if not minus_kinds or not all(k in names for k in minus_kinds | other_kinds):
                continue
            on_minus = all(runs(names.index(k)) for k in minus_kinds)
            on_other = [k for k in sorted(other_kinds) if runs(names.index(k))]
            what = "`%s`" % ps.describe(site)
            if on_minus and not on_other:
                return "ok", "built when the sign token of %s is TokenKind::%s" % (what, "/".join(sorted(minus_kinds)))
            if on_other and not on_minus:
                return "inverted", "built when the sign token of %s is TokenKind::%s (not the minus sign), and not when it is TokenKind::%s" % (what, "/".join(on_other), "/".join(sorted(minus_kinds)))
            if on_other and on_minus:
                return "unconditional", "built for TokenKind::%s as well as for the minus sign of %s" % ("/".join(on_other), what)
            continue
    if not seen_switch:
        return "unconditional", "built on every path although the builder applies a parser of `-` (%s)" % ", ".join("`%s`" % ps.describe(k) for k in sorted(minus_sites))
    return "undecided", "the construction is conditional, but not on a test of the minus-sign parser's result that was recognised"


# ---- the rule -----------------------------------------------------------------------------------------------------------------------------

def _paired_input(b, agg, input_type):
    """the remaining-input operand that is returned together with the node built by `agg` (`Ok((input, node))`): the first component of the pair
    whose second component is the node (moved there directly or through named locals / the return place of an expanded helper); None when the
    node becomes a part of another node instead"""
    if agg["d"][1] != "":
        return None
    held = {agg["d"][0]}
    for _ in range(6):
        grew = False
        for _, st in b.stmts():
            src = st.get("src") or []
            if st.get("rk") == "use" and st["d"][1] == "" and src and isinstance(src[0], list) and src[0][1] == "" and src[0][0] in held and st["d"][0] not in held:
                held.add(st["d"][0])
                grew = True
            elif st.get("rk") == "agg" and st.get("tuple") and len(src) == 2 and isinstance(src[1], list) and src[1][1] == "" and src[1][0] in held \
                    and isinstance(src[0], list) and src[0][1] == "" and b.locals[src[0][0]] == input_type:
                return src[0]
        if not grew:
            break
    return None


def _text_bearing(b, t):
    """the parsed value of the application carries source text (tokens / nodes), unlike `()` or the String of a fixed tag; a lookahead
    (nom's `peek`: succeeds without consuming) is not a consumption"""
    cal = (t.get("f") or t["tf"]) + " " + " ".join(t.get("ga") or [])
    return "mech_core::nodes::" in b.locals[t["d"][0]] and not re.search(r"nom::combinator::peek\b", cal)


def _lit_text(texts):
    return "|".join("`%s`" % x for x in sorted(texts))


def run_r12(F, rep):
    rep.rule(RULE, "parser leaf vs evaluator, per component of a numeric literal node: the component the evaluator writes before a fixed text (`.`, `e`, `/`, the sign of the "
                   "imaginary part) is built from what the leaf parsed BEFORE the parser of that text, the one written after it from what it parsed after; components keep "
                   "the order of the evaluator's spelling; a part handed on from a sub-literal keeps its side of the decimal point (whole digits stay whole digits)")
    T = Types(F)
    if not rep.check(len(T.nodes) >= 2, RULE, "anchor:number-node-types", "the payload types of mech_core::nodes::Number were not found: %s" % T.nodes):
        return
    E = Evaluators(F, T)
    with_templates = sorted(k for k, v in E.templates.items() if v)
    rep.floor(RULE, "node kinds whose evaluator re-spells or constructs from >= 2 components (spelling templates found)", len(with_templates), 4)
    rep.floor(RULE, "components with a side of the decimal point", sum(len(v) for v in E.side.values()), 8)
    cg = CallGraph(F, ["mech_syntax.lib"])

    def is_parser_fn(b):
        return b.nargs >= 1 and b.locals[0].startswith("core::result::Result<(%s," % INPUT_TYPE) and any(b.locals[i] == INPUT_TYPE for i in range(1, b.nargs + 1))
    # functions that build a numeric node (themselves or in a callee of the crate): the only non-private helpers worth expanding
    direct = {b.fn for b in F.bodies("mech_syntax.lib") if any(st["adt"] in T.nodes for _, st in b.aggs())}
    node_builders = set(direct)
    for _ in range(3):
        for b in F.bodies("mech_syntax.lib"):
            if b.fn not in node_builders and any((t.get("f") or t["tf"]) in node_builders for _, t in b.calls()):
                node_builders.add(b.fn)

    def want(cal):
        """helpers that are looked through: private functions, and public ones that are not parsers but build a node (`pub fn float_node(w, p)`);
        a public parser is a unit of its own (a parser application in its callers)"""
        b = cg.bodies.get(cal)
        if b is None or "{closure" in cal or not cal.startswith("mech_syntax::"):
            return False
        return (not b.pub) or (not is_parser_fn(b) and cal in node_builders)
    results = {}       # key -> [ok, message, where]
    builders = set()
    all_builders = set()
    negations = set()
    wrappers = wrapper_variants(T)
    sep_sites = set()
    undecided = []

    def record(key, ok, msg, where):
        r = results.setdefault(key, [True, "", where])
        if not ok and r[0]:
            r[0], r[1], r[2] = False, msg, where

    for b0 in F.bodies("mech_syntax.lib"):
        if "{closure" in b0.fn:
            # a node built inside a closure of a parser function (`map(p, |(w, _, f)| RealNumber::Float((w, f)))`): the builder is recognised,
            # the closure's parameters are not followed back into the combinator that calls it
            parent = cg.bodies.get(b0.fn.split("::{closure")[0])
            if parent is not None and is_parser_fn(parent):
                for _, st in b0.aggs():
                    if st["adt"] in T.nodes:
                        fnp = parent.fn.split("::")[-1]
                        all_builders.add((fnp, st["var"]))
                        if (st["adt"], st["var"]) in E.templates:
                            builders.add((fnp, st["var"]))
                        undecided.append({"builder": fnp, "node": st["var"], "why": "the node is built inside a closure handed to a combinator"})
            continue
        # units: every function with a parser signature (whatever its visibility) and every other public function; a private non-parser helper is
        # seen through its callers only
        if not (is_parser_fn(b0) or b0.pub):
            continue
        b = inline_body(b0, cg, want)
        # a node built in the expansion of a callee that is a unit of its own is that unit's obligation
        foreign = set()
        for rec in getattr(b, "inlined", []):
            cb = cg.bodies.get(rec["callee"])
            if cb is not None and is_parser_fn(cb):
                foreign |= set(rec["blocks"])
        aggs = [(i, s) for i, s in b.aggs() if s["adt"] in T.nodes and not b.blocks[i]["cl"] and i not in foreign]
        if not aggs:
            continue
        ps = ParseSites(b, cg)
        if not ps.sites:
            continue                                             # not a parser: a printer / converter that rebuilds nodes
        fn = b0.fn.split("::")[-1]
        for blk, s in aggs:
            key0 = (s["adt"], s["var"])
            vname = "%s::%s" % (s["adt"].split("::")[-1], s["var"]) if T.adt[s["adt"]].get("enum") else s["adt"].split("::")[-1]
            # ---- every variable text the leaf consumed for this literal is stored in the node
            inp = _paired_input(b, s, ps.input_type)
            if inp is not None:
                all_builders.add((fn, s["var"]))
                thread = {x.key for x in ps.ff.sources(inp) if x.kind == "site"}
                for x in list(thread):
                    thread |= ps.ancestors(x)
                fed = {x.key for o in s["src"] for x in ps.ff.sources(o) if x.kind == "site"}
                lost = sorted(x for x in thread if x not in fed and ps.lang(x) is None and _text_bearing(b, ps.sites[x]))
                record("%s:%s:consumed-text-stored" % (fn, s["var"]), not lost,
                       "%s consumes text with %s on the way to the %s it returns but no component of the node is built from it: the literal's value cannot depend on those characters "
                       "(a part of the number is dropped or replaced by an empty token)" % (fn, ", ".join("`%s`" % ps.describe(x) for x in lost), vname), b0.where())
            # ---- the sign: a negation node is built exactly under the minus sign
            if key0 in wrappers:
                verdict, text = negation_condition(b, ps, T, cg, blk)
                negations.add(fn)
                if verdict == "undecided":
                    undecided.append({"builder": fn, "node": vname, "why": text})
                else:
                    record("%s:%s:built-under-minus-sign" % (fn, s["var"]), verdict == "ok",
                           "parser %s builds the negation node %s on the wrong condition: it is %s (the literal then evaluates to the number of opposite sign: `-5` as 5 or `1+2i` as 1-2i)" % (fn, vname, text),
                           b0.where())
            if key0 not in E.templates:
                continue
            builders.add((fn, s["var"]))
            cache = {}

            def cn(path, adt=s["adt"], key0=key0):
                side = E.side.get(key0, {}).get(path)
                return "`%s`%s" % (readable(T, adt, path), " (%s digits)" % side if side else "")

            def sn(path):
                return "`payload%s`" % "".join(path[1:])

            def srcs(path):
                if path not in cache:
                    i = int(path[0][1:])
                    cache[path] = ps.ff.sources(s["src"][i], path[1:]) if i < len(s["src"]) else frozenset()
                return cache[path]

            def site_srcs(path):
                return [x for x in srcs(path) if x.kind == "site" and ps.value_proj(x) is not None]

            def unknown(path):
                return any(x.kind == "arg" for x in srcs(path))

            def sub_literal(x):
                """(variant, path below its payload) when the source is a component of a literal node returned by the site"""
                vp = ps.value_proj(x) or ()
                for j, e in enumerate(vp):
                    if e.startswith("@") and e[1:] in T.variant_names:
                        return e[1:], vp[j + 1:]
                return None

            def template_order(variant, qa, qb):
                """True / False: the components qa, qb of a `variant` literal are written in this / the other order by its evaluator; None unknown"""
                res = None
                for node in T.nodes:
                    for t in E.templates.get((node, variant), []):
                        holes = [v for k, v in t if k == "hole"]
                        if qa in holes and qb in holes and qa != qb:
                            o = holes.index(qa) < holes.index(qb)
                            if res is not None and res != o:
                                return None
                            res = o
                return res

            def order_witness(a, b_):
                """a text that feeds b was consumed before / is the same as one that feeds a"""
                for sa in site_srcs(a):
                    for sb in site_srcs(b_):
                        if sa.key != sb.key:
                            if ps.before(sb.key, sa.key):
                                return "%s is taken from `%s`, which the leaf applies AFTER `%s` that %s is taken from" % (cn(a), ps.describe(sa.key), ps.describe(sb.key), cn(b_))
                            continue
                        la, lb = sub_literal(sa), sub_literal(sb)
                        if la and lb and la[0] == lb[0]:
                            if la[1] == lb[1] and sa.exact and sb.exact:
                                return "%s and %s are both component %s of the %s literal parsed by `%s`" % (cn(a), cn(b_), sn(la[1]), la[0], ps.describe(sa.key))
                            o = template_order(la[0], la[1], lb[1])
                            if o is False:
                                return "%s / %s take components %s / %s of the %s literal parsed by `%s`: exchanged" % (cn(a), cn(b_), sn(la[1]), sn(lb[1]), la[0], ps.describe(sa.key))
                            if o is None and la[1] != lb[1]:
                                undecided.append({"builder": fn, "node": vname, "why": "order of components %s, %s of a %s sub-literal is not fixed by a template" % (pstr(la[1]), pstr(lb[1]), la[0])})
                        elif not la and not lb and re.search(r"nom::sequence::", ps.sites[sa.key].get("f") or ps.sites[sa.key]["tf"]):
                            pa, pb = ps.value_proj(sa), ps.value_proj(sb)
                            ia = [int(e[1:]) for e in pa[:1] if e.startswith(".")]
                            ib = [int(e[1:]) for e in pb[:1] if e.startswith(".")]
                            if ia and ib and ia[0] > ib[0]:
                                return "%s / %s take results %d / %d of the sequence `%s`: exchanged" % (cn(a), cn(b_), ia[0], ib[0], ps.describe(sa.key))
                        elif sa.exact and sb.exact and ps.value_proj(sa) == ps.value_proj(sb):
                            return "%s and %s are both the result of `%s`" % (cn(a), cn(b_), ps.describe(sa.key))
                return None

            for t in E.templates[key0]:
                for k, (kind, texts) in enumerate(t):
                    if kind != "lit":
                        continue
                    # the components written in the run of holes directly before / after the text
                    As, Bs = [], []
                    j = k - 1
                    while j >= 0 and t[j][0] == "hole":
                        if t[j][1] is not None:
                            As.insert(0, t[j][1])
                        j -= 1
                    j = k + 1
                    while j < len(t) and t[j][0] == "hole":
                        if t[j][1] is not None:
                            Bs.append(t[j][1])
                        j += 1
                    if not As and not Bs:
                        continue
                    lsites = [x for x in ps.sites if ps.lang(x) and {y.lower() for y in ps.lang(x) if y} and {y.lower() for y in ps.lang(x) if y} <= texts]
                    if (not As or not Bs) and not lsites:
                        continue                                 # one-sided step and the builder applies no parser of the text: nothing to compare
                    key = "%s:%s:order:%s<%s<%s" % (fn, s["var"], ",".join(pstr(a) for a in As), ",".join(sorted(texts)), ",".join(pstr(x) for x in Bs))
                    if any(unknown(a) for a in As + Bs):
                        undecided.append({"builder": fn, "node": vname, "why": "a component is computed from a parameter of the builder"})
                        continue
                    sep_sites |= {(fn, ps.describe(x)) for x in lsites}
                    msg = None
                    if lsites:
                        # some application of the text's parser separates what feeds the components before it from what feeds those after it
                        wit = None
                        for x in lsites:
                            w = None
                            for a in As:
                                for sa in site_srcs(a):
                                    if sa.key == x or ps.before(x, sa.key):
                                        w = "component %s, which the evaluator writes BEFORE %s, is built from what `%s` parsed AFTER the leaf's `%s`" % (
                                            cn(a), _lit_text(texts), ps.describe(sa.key), ps.describe(x))
                            for b_ in Bs:
                                for sb in site_srcs(b_):
                                    if sb.key == x or ps.before(sb.key, x):
                                        w = "component %s, which the evaluator writes AFTER %s, is built from what `%s` parsed BEFORE the leaf's `%s`" % (
                                            cn(b_), _lit_text(texts), ps.describe(sb.key), ps.describe(x))
                            if w is None:
                                wit = None
                                break
                            wit = w
                        msg = wit
                    for a in As:
                        for b_ in Bs:
                            if msg is None:
                                msg = order_witness(a, b_)
                    record(key, msg is None,
                           "parser leaf %s and the evaluator of %s disagree on where a part of the literal is stored: %s (the literal then evaluates to another number than its digits spell)" % (fn, vname, msg),
                           b0.where())
            # point side of what a component takes over from a sub-literal
            for path, side in sorted(E.side.get(key0, {}).items()):
                key = "%s:%s:point-side:%s" % (fn, s["var"], pstr(path))
                if unknown(path):
                    continue
                msg = None
                for x in site_srcs(path):
                    sl = sub_literal(x)
                    if not sl:
                        continue
                    other = None
                    for node in T.nodes:
                        other = other or E.side.get((node, sl[0]), {}).get(sl[1])
                    if other and other != side:
                        msg = "component %s holds the %s digits for the evaluator but is given the %s digits (component %s) of the %s literal parsed by `%s`" % (
                            cn(path), side, other, sn(sl[1]), sl[0], ps.describe(x.key))
                record(key, msg is None, "parser leaf %s stores digits on the wrong side of the decimal point of %s: %s" % (fn, vname, msg), b0.where())
    for key in sorted(results):
        ok, msg, where = results[key]
        rep.check(ok, RULE, key, msg, where, sample={"obligation": key})
    for u in undecided[:20]:
        rep.note("undecided", dict(u, rule=RULE))
    rep.floor(RULE, "parser functions that build a numeric literal node with >= 2 positional components", len(builders), 5)
    rep.floor(RULE, "(parser function, node kind) pairs that return a numeric literal node together with the remaining input", len(all_builders), 13)
    rep.floor(RULE, "parser functions that build a negation node", len(negations), 3)
    rep.floor(RULE, "separator parsers (fixed-text token parsers matching a text of a spelling template) applied by those builders", len(sep_sites), 4)
    rep.analysed[RULE] = {"templates": {"%s::%s" % (k[0].split("::")[-1], k[1]): [[(pstr(v) if kk == "hole" and v else ("_" if kk == "hole" else "|".join(sorted(v)))) for kk, v in t] for t in ts]
                                        for k, ts in E.templates.items()},
                          "point_sides": {"%s::%s" % (k[0].split("::")[-1], k[1]): {pstr(p): s for p, s in v.items()} for k, v in E.side.items() if v},
                          "builders": sorted("%s:%s" % x for x in builders), "returning_builders": sorted("%s:%s" % x for x in all_builders), "separators": sorted("%s:%s" % x for x in sep_sites)}
