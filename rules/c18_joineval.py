"""C18-R7: the join operators decided on a finite table of operand pairs.

Clause: "inner, left/right/full outer, left semi and left anti join return, as a multiset of rows, exactly the rows relational algebra defines when matching on all
commonly named columns (every matching pair once, unmatched rows where the operator keeps them), with the union of the columns; columns that can be missing become
optional and hold the empty value precisely in the unmatched rows."

R2-R4 decide the SHAPE of the join routine (which row classes each mode emits, the quantifier of the match predicate, the optional-kind mode sets).  They do not look
inside the row builders and they do not see a slip that keeps the shape (a cell taken from the other row, the right-only value of an unmatched left row, a result
assembled from a stale list, a fast path for an empty operand).  This rule evaluates the code itself (lib/tabsim.py: the compiler's expansion of the bodies over a
closed model of cells, vectors, maps, sets, enum values and structs): every function that takes the argument vector and reaches a construction site of a join
kernel (a function struct with two `Ref<MechTable>` operands, a `Ref<MechTable>` result and a field of an enum type - the join mode) is run on every pair of tables
of a finite table of operand pairs - one shared column (0..2 rows each, key values from {1,2}, duplicates included), two shared columns, no shared column; then
`solve()` and `out()` of the struct it built (on every third pair: solve() re-runs the same routine).  Both the result allocated at compile time and the result after `solve()` must equal, as a multiset of rows over the
union of the columns, what relational algebra defines for the mode the struct carries, with the optional kinds exactly on the columns that can miss a value.
A body that leaves the model is recorded as `undecided`; nothing is raised for it.
"""
import itertools
import re
from collections import Counter
from lib.facts import find, is_node
from lib import tabsim as T
from rules.c18_select import value_model, entries_of, _ty, _self_fields_read

RULE = "C18-R7"
TEXT = ("join operators, compile-time allocation and solve() together: every compiler function that reaches a construction site of a join kernel (struct with two Ref<MechTable> operands, a "
        "Ref<MechTable> result and a mode field of an enum type), evaluated over a closed model of the containers on a finite table of operand pairs (one, two and no shared column; 0..2 rows "
        "each, duplicate keys included), yields - both as allocated and after solve() - exactly the multiset of rows relational algebra defines for the mode the struct carries, over the union "
        "of the columns, with optional kinds exactly on the columns that can miss a value (finite table; larger operands and other cell kinds are not decided)")

U64 = T.Enum("ValueKind::U64")
STR = T.Enum("ValueKind::String")
OPT_STR = T.Enum("ValueKind::Option", [T.Enum("ValueKind::String")])
IDS = {"k": 101, "j": 102, "x": 103, "y": 104}
EMPTY = "Empty"


def join_kernels(items):
    enums = {it["name"]: [v["name"] for v in it["variants"]] for it in items if it.get("k") == "enum"}
    methods = {}
    for it in items:
        if it.get("k") == "method" and it.get("body") is not None and "MechFunctionImpl" in (it.get("trait") or ""):
            methods.setdefault(re.sub(r"<.*$", "", _ty(it.get("self"))), {})[it["name"]] = it
    out = {}
    for it in items:
        if it.get("k") != "struct" or it["name"] not in methods or not {"solve", "out"} <= set(methods[it["name"]]):
            continue
        fields = [(f[0], _ty(f[1])) for f in it.get("fields") or [] if f[0]]
        outs = [f for f, _ in fields if f in _self_fields_read(methods[it["name"]]["out"]["body"])]
        tabs = [f for f, ty in fields if ty == "Ref<MechTable>" and f not in outs]
        modes = [(f, ty) for f, ty in fields if ty in enums]
        if len(outs) == 1 and dict(fields)[outs[0]] == "Ref<MechTable>" and len(tabs) == 2 and len(modes) == 1:
            out[it["name"]] = {"out": outs[0], "mode": modes[0][0], "enum": modes[0][1], "variants": enums[modes[0][1]]}
    return out


def kv(n):
    return T.Enum("Value::K", [n])


def xv(col, row):
    return T.Enum("Value::Cell", [col, row])


def make(vm, cols):
    """cols: [(name, kind, [cell values])]"""
    data, names = T.IMap(), T.IMap()
    n = len(cols[0][2]) if cols else 0
    for name, kind, vals in cols:
        key = IDS[name]
        data.d[T.hkey(key)] = (key, (T.clone(kind), T.Enum(vm["dvector"], [T.Cell(T.Vec(list(vals)))])))
        names.d[T.hkey(key)] = (key, name)
    return T.Struct("MechTable", {"rows": n, "cols": len(cols), "data": data, "col_names": names})


def operand_pairs():
    """[(description, left columns, right columns)] - the finite table of operand pairs"""
    out = []
    seqs = [s for ln in range(0, 3) for s in itertools.product((1, 2), repeat=ln)]
    for ls in seqs:
        for rs in seqs:
            out.append(("one shared column k: left k=%s, right k=%s" % (list(ls), list(rs)),
                        [("k", U64, [kv(v) for v in ls]), ("x", STR, [xv("x", i + 1) for i in range(len(ls))])],
                        [("k", U64, [kv(v) for v in rs]), ("y", OPT_STR, [xv("y", i + 1) for i in range(len(rs))])]))
    pairs = [(1, 1), (1, 2)]
    seq2 = [s for ln in range(0, 3) for s in itertools.product(pairs, repeat=ln)]
    for ls in seq2:
        for rs in seq2:
            if len(ls) + len(rs) < 2:
                continue
            out.append(("two shared columns (k,j): left %s, right %s" % (list(ls), list(rs)),
                        [("k", U64, [kv(a) for a, _ in ls]), ("j", U64, [kv(b) for _, b in ls]), ("x", STR, [xv("x", i + 1) for i in range(len(ls))])],
                        [("k", U64, [kv(a) for a, _ in rs]), ("j", U64, [kv(b) for _, b in rs]), ("y", STR, [xv("y", i + 1) for i in range(len(rs))])]))
    for nl in range(0, 3):
        for nr in range(0, 3):
            out.append(("no shared column: %d left rows, %d right rows" % (nl, nr),
                        [("x", STR, [xv("x", i + 1) for i in range(nl)])], [("y", STR, [xv("y", i + 1) for i in range(nr)])]))
    return out


def optional(kind):
    return kind if T.vseg(kind.name) == "ValueKind::Option" else T.Enum("ValueKind::Option", [T.clone(kind)])


def oracle(mode, lcols, rcols):
    """-> (column names in order, {name: kind}, Counter of rows as frozenset((name, cell repr)))"""
    ln, rn = [c[0] for c in lcols], [c[0] for c in rcols]
    shared = [n for n in ln if n in rn]
    lrows = [dict((c[0], c[2][i]) for c in lcols) for i in range(len(lcols[0][2]))]
    rrows = [dict((c[0], c[2][i]) for c in rcols) for i in range(len(rcols[0][2]))]
    match = lambda a, b: all(T.eq(a[s_], b[s_]) for s_ in shared)
    lkind, rkind = {c[0]: c[1] for c in lcols}, {c[0]: c[1] for c in rcols}
    E = T.Enum("Value::Empty")
    if mode in ("LeftSemi", "LeftAnti"):
        names = list(ln)
        kinds = dict(lkind)
        rows = [dict(a) for a in lrows if any(match(a, b) for b in rrows) == (mode == "LeftSemi")]
        return names, kinds, rows
    names = ln + [n for n in rn if n not in shared]
    kinds = {}
    for n in ln:
        kinds[n] = optional(lkind[n]) if (n not in shared and mode in ("RightOuter", "FullOuter")) else lkind[n]
    for n in rn:
        if n not in shared:
            kinds[n] = optional(rkind[n]) if mode in ("LeftOuter", "FullOuter") else rkind[n]
    rows = []
    matched_r = set()
    for a in lrows:
        hit = False
        for j, b in enumerate(rrows):
            if match(a, b):
                hit = True
                matched_r.add(j)
                r = dict(a)
                r.update({n: b[n] for n in rn if n not in shared})
                rows.append(r)
        if not hit and mode in ("LeftOuter", "FullOuter"):
            r = dict(a)
            r.update({n: E for n in rn if n not in shared})
            rows.append(r)
    if mode in ("RightOuter", "FullOuter"):
        for j, b in enumerate(rrows):
            if j not in matched_r:
                r = {n: E for n in ln if n not in shared}
                r.update(b)
                rows.append(r)
    return names, kinds, rows


def show_val(v):
    v = T.D(v)
    if isinstance(v, T.Enum) and v.name == "Value::K":
        return str(v.args[0])
    if isinstance(v, T.Enum) and v.name == "Value::Cell":
        return "%s%d" % (v.args[0], v.args[1])
    if isinstance(v, T.Enum) and T.vseg(v.name, 1) == EMPTY:
        return "_"
    return repr(v)


def show_rows(names, rows):
    return "[%s]" % "; ".join(",".join("%s=%s" % (n, show_val(r[n])) if n in r else "%s=?" % n for n in names) for r in rows)


def row_key(r):
    return frozenset((n, show_val(v)) for n, v in r.items())


def compare(mode, lcols, rcols, res):
    if not isinstance(res, T.Struct) or not {"rows", "cols", "data", "col_names"} <= set(res.f):
        return "result", "the result is not a table (%r)" % (res,)
    names, kinds, rows = oracle(mode, lcols, rcols)
    id2name = {v: k for k, v in IDS.items()}
    data = T.D(res.f["data"])
    got_cols = []
    for key, tup in [(kk, T.D(v)) for kk, v in data.d.values()]:
        kind, col = tup
        if not T.is_matrix(T.D(col)):
            return "columns", "column %s is not a vector column" % key
        got_cols.append((id2name.get(key, str(key)), T.D(kind), T.D(T.D(col).args[0]).v.items))
    gnames = [c[0] for c in got_cols]
    if sorted(gnames) != sorted(names) or T.D(res.f["cols"]) != len(names):
        return "columns", "columns %s (cols = %r); the union of the operands' columns is %s" % (gnames, T.D(res.f["cols"]), names)
    nrows = T.D(res.f["rows"])
    lens = {c[0]: len(c[2]) for c in got_cols}
    if any(v != nrows for v in lens.values()):
        return "row-count", "rows = %r but the columns hold %s elements" % (nrows, lens)
    grows = [dict((c[0], c[2][i]) for c in got_cols) for i in range(nrows)]
    if Counter(row_key(r) for r in grows) != Counter(row_key(r) for r in rows):
        return "rows", "rows %s; relational algebra defines %s" % (show_rows(names, grows), show_rows(names, rows))
    for n, kind, _ in got_cols:
        if not T.eq(kind, kinds[n]):
            return "kinds", "column `%s` has kind %r; expected %r (optional exactly when the operator can leave it without a value)" % (n, kind, kinds[n])
    cn = T.D(res.f["col_names"])
    if not isinstance(cn, T.IMap) or {kk: T.D(v) for kk, v in cn.d.values()} != {IDS[n]: n for n in names}:
        return "names", "column names %r" % (cn,)
    return None


def run_r7(F, rep, crate="mech_interpreter.lib", core="mech_core.lib"):
    rep.rule(RULE, TEXT)
    return check_join_eval(F.syn(crate), F.syn(core), rep, crate, core)


def check_join_eval(items, core_items, rep, crate="unit", core="core"):
    """R7 on parsed items; -> the join modes decided correct on the finite table"""
    vm = value_model(core_items)
    kernels = join_kernels(items)
    decided = {}          # join mode -> True (every operand pair gave the defined rows) / False
    rep.floor(RULE, "join kernels (two table operands, table result, mode field)", len(kernels), 1)
    if not kernels or not rep.check({"table", "mutref", "dvector"} <= set(vm), RULE, "anchor:value-model", "the Value / Matrix variants carrying a table were not found by payload type", core):
        return frozenset()
    sites = []
    for it in items:
        if it.get("k") in ("fn", "method") and it.get("body") is not None:
            for s_ in find(it["body"], "struct"):
                n = re.sub(r"<.*$", "", _ty(s_[1])).split("::")[-1]
                if n in kernels:
                    sites.append((it, s_, n))
    site_ids = {id(s_): n for _, s_, n in sites}
    entries = []
    for it, s_, n in sites:
        for en in entries_of(items, it):
            if not any(en is x for x in entries):
                entries.append(en)
    rep.floor(RULE, "compiler functions reaching a join kernel", len(entries), 6)
    pairs = operand_pairs()
    for en in sorted(entries, key=lambda x: (_ty(x.get("self")), x["name"])):
        en_self = re.sub(r"<.*$", "", _ty(en.get("self")))
        en_name = "%s::%s" % (en_self, en["name"]) if en_self else en["name"]
        where = "%s (%s)" % (en_name, crate)
        bad = und = None
        modes_seen = set()
        n_runs = 0
        for k_, (desc, lcols, rcols) in enumerate(pairs):
            # operands by value everywhere; wrapped in mutable references on a few pairs (the unwrapping is one shared code path)
            wraps = [("direct", "direct")] + ([("mutable-reference", "direct"), ("direct", "mutable-reference")] if k_ in (8, 30) else [])
            for wl, wr in wraps:
                r = one_run(items, core_items, vm, kernels, site_ids, en, en_self, lcols, rcols, wl, wr, with_solve=(k_ % 3 == 0))
                n_runs += 1
                if r.get("mode"):
                    modes_seen.add(r["mode"])
                if r.get("noeval") and und is None:
                    und = "%s, %s: %s" % (desc, r["stage"], r["noeval"])
                if r.get("bad") and bad is None:
                    bad = r["bad"] + (desc, r["stage"], r.get("mode") or "?")
            if bad:
                break
        key = "join:%s" % en_self if en_self else "join:%s" % en["name"]
        if bad:
            aspect, text, desc, stage, mode = bad
            rep.bad(RULE, "%s:%s:%s" % (key, mode, aspect), "%s (join mode %s) does not return the rows relational algebra defines: %s, %s: %s" % (en_name, mode, desc, stage, text), where)
        elif und:
            rep.note("undecided", {"rule": RULE, "entry": en_name, "why": und})
            rep.ok(RULE, key)
        else:
            rep.ok(RULE, key, sample={"entry": en_name, "modes": sorted(modes_seen), "operand pairs evaluated": n_runs})
        for mo in modes_seen:
            decided[mo] = decided.get(mo, True) and not bad and not und
    return frozenset(mo for mo, ok in decided.items() if ok)


def one_run(items, core_items, vm, kernels, site_ids, en, en_self, lcols, rcols, wl, wr, with_solve=True):
    M = T.Machine([items, core_items], prims={"hash_str": lambda s_: IDS.get(s_, 900000 + sum(ord(c) * (i + 1) for i, c in enumerate(str(s_))))})
    out = {"stage": "compile"}

    def operand(cols, wrap):
        v = T.Enum(vm["table"], [T.Cell(make(vm, cols))])
        return T.Enum(vm["mutref"], [T.Cell(v)]) if wrap == "mutable-reference" else v
    try:
        res = T.D(M.call_item(en, T.Struct(en_self or "Self", {}), [T.Vec([operand(lcols, wl), operand(rcols, wr)])]))
    except T.NoEval as ex:
        out["noeval"] = str(ex)
        return out
    except T.Panic as ex:
        out["bad"] = ("panics", "the compiler function panics (%s)" % ex)
        return out
    if not (isinstance(res, T.Enum) and T.vseg(res.name, 1) == "Ok" and isinstance(T.D(res.args[0]), T.Struct) and T.D(res.args[0]).name in kernels):
        out["bad"] = ("rejected", "two tables are rejected (%r)" % (res,))
        return out
    k = T.D(res.args[0])
    info = kernels[k.name]
    mv = T.D(k.f.get(info["mode"]))
    if not isinstance(mv, T.Enum):
        out["noeval"] = "mode field is %r" % (mv,)
        return out
    mode = T.vseg(mv.name, 1)
    out["mode"] = mode
    if mode not in ("Inner", "LeftOuter", "RightOuter", "FullOuter", "LeftSemi", "LeftAnti"):
        out["noeval"] = "join mode %s has no definition in the property" % mode
        return out
    try:
        cellv = T.D(k.f[info["out"]])
        out["stage"] = "result as allocated by the compiler function"
        out["bad"] = compare(mode, lcols, rcols, T.D(cellv.v) if isinstance(cellv, T.Cell) else cellv)
        if out["bad"] or not with_solve:
            return out
        out["stage"] = "solve()"
        M.call_item(M.find_method(k.name, "solve", 0), k, [])
        out["stage"] = "out()"
        rv = T.D(M.call_item(M.find_method(k.name, "out", 0), k, []))
        if not (isinstance(rv, T.Enum) and T.same_variant(rv.name, vm["table"]) and len(rv.args) == 1 and isinstance(T.D(rv.args[0]), T.Cell)):
            out["bad"] = ("result", "out() returns %r, not the table variant of the result cell" % (rv,))
            return out
        out["stage"] = "result after solve()"
        out["bad"] = compare(mode, lcols, rcols, T.D(T.D(rv.args[0]).v))
    except T.NoEval as ex:
        out["noeval"] = str(ex)
    except T.Panic as ex:
        out["bad"] = ("panics", "%s panics (%s)" % (out["stage"], ex))
    return out
