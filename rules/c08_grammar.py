"""C08-R7/R8/R9: the formatter is the inverse of the parser, node by node.

For every struct (or tuple) node type T with a straight-line parser function P: ParseResult<T> and an emitter Formatter::m(&T):
  R7  the emitter writes T's fields in the order P reads them (a swapped pair re-parses into a different node);
  R8  the literal text the emitter puts before / between / after the fields is text P's delimiter parsers accept at that place (whitespace aside):
      a missing `:` / `--` / `|` makes the formatted text parse differently or not at all;
  R9  list fields are traversed in element order (no traversal of a list nested inside a loop over something else: that transposes the elements).
Both sides are read from the syntax tree (lib/grammar.py: parser skeletons and token languages; lib/emit.py: symbolic evaluation of the
string-building code on the text path).  Anything either reader cannot interpret is left undecided and listed in the evidence notes.
"""
import re
from collections import defaultdict
from lib.facts import find, walk, is_node, path_of, render, render_pat, last_seg
from lib import fxn as X
from lib.grammar import Grammar, show_term, WS
from lib.emit import Emitter, flatten, show


def top(path):
    return re.split(r"[.\[]", path)[0] if path else ""


def parser_sequence(G, sk, result, depth=0):
    """-> list of ("F", field, optional) / ("D", lang|None, text) in consumption order, or None"""
    # var -> field
    fieldmap = {}
    if is_node(result) and result[0] == "struct":
        for fname, fval in result[2]:
            for pth in find(fval, "path"):
                if not pth[1][:1].isupper():
                    fieldmap.setdefault(pth[1], fname)
    elif is_node(result) and result[0] == "tuple":
        for i, fval in enumerate(result[1]):
            for pth in find(fval, "path"):
                if not pth[1][:1].isupper():
                    fieldmap.setdefault(pth[1], str(i))
    else:
        return None
    stepvars = {v for vs, _, _ in sk.steps for v in vs}
    # variables obtained by destructuring / post-processing a step variable inherit its position
    origin = {}
    body = sk.it["body"]
    for m in find(body, "match"):
        src = [p[1] for p in find(m[1], "path") if p[1] in stepvars]
        if len(src) == 1:
            for a in m[2]:
                for pi in find(a[0], "pident"):
                    if not pi[1][:1].isupper():          # `None` and other unit variants are not bindings
                        origin.setdefault(pi[1], src[0])
    for st in find(body, "let"):
        if len(st) == 4 and st[2] is not None:
            src = [p[1] for p in find(st[2], "path") if p[1] in stepvars]
            if len(set(src)) == 1:
                for pi in find(st[1], "pident"):
                    if pi[1] not in stepvars:
                        origin.setdefault(pi[1], src[0])
    inv = defaultdict(list)       # step var -> fields fed (in result order)
    for v, f in fieldmap.items():
        o = v if v in stepvars else origin.get(v)
        if o is not None:
            inv[o].append(f)
    seq = []
    steps = list(sk.steps)
    # a field read through a pass-through wrapper parser (`args = argument_list(input)`, where argument_list returns its inner list unchanged):
    # the wrapper's own delimiters belong to this node's text, so inline them
    # a field taken as a projection of a sub-node (`name: state_atom.name` with state_atom = atom(input)): the sub-node's own delimiters
    # (the colon of the atom) are this emitter's to write, so inline the sub-parser with its projected field standing for ours
    proj = {}
    if is_node(result) and result[0] == "struct":
        for fname, fval in result[2]:
            if is_node(fval) and fval[0] == "field" and is_node(fval[1]) and fval[1][0] == "path" and fval[1][1] in stepvars:
                proj.setdefault(fval[1][1], []).append((fname, str(fval[2])))
    expanded = []
    for vs, term, pat in steps:
        if term[0] == "nt" and len(vs) == 1 and vs[0] in proj and len(proj[vs[0]]) == 1 and depth < 2:
            q = G.skeleton(term[1])
            if q is not None and q.straight and len(q.results) == 1 and is_node(q.results[0]) and q.results[0][0] == "struct":
                ours, theirs = proj[vs[0]][0]
                inner = {}
                for fname2, fval2 in q.results[0][2]:
                    for pth in find(fval2, "path"):
                        inner.setdefault(pth[1], fname2)
                for vs2, t2, p2 in q.steps:
                    hit = [v for v in vs2 if inner.get(v) == theirs]
                    expanded.append(([vs[0]] if hit else [], t2, p2))
                continue
        optional_wrapper = term[0] == "opt" and term[1][0] == "nt"
        if (term[0] == "nt" or optional_wrapper) and len(vs) == 1 and inv.get(vs[0]):
            q = G.skeleton(term[1][1] if optional_wrapper else term[1])
            if q is not None and q.straight and len(q.results) == 1 and is_node(q.results[0]) and q.results[0][0] == "path" and depth < 2 \
                    and any(q.results[0][1] in vs2 for vs2, _, _ in q.steps) and len(q.steps) > 1:
                inner_var = q.results[0][1]
                for vs2, t2, p2 in q.steps:
                    expanded.append(([vs[0]] if inner_var in vs2 else [], ("opt", t2) if optional_wrapper else t2, p2))
                continue
        expanded.append((vs, term, pat))
    for vs, term, _ in expanded:
        fields = []
        for v in vs:
            for f in inv.get(v, []):
                if f not in fields:
                    fields.append(f)
        if fields:
            optional = term[0] in ("opt", "star")
            for f in fields:
                seq.append(("F", f, optional, term))
        else:
            seq.append(("D", G.lang(term), show_term(term), term))
    return seq


def ws_capable(G, term, depth=0):
    """may this grammar term consume white space?  Unknown terms answer True (the tightness rule then stays silent)."""
    k = term[0]
    if k == "nt":
        if term[1] in WS:
            return True
        sk = G.skeleton(term[1]) if depth < 4 else None
        if sk is None or not sk.steps:
            return depth >= 4 or term[1] not in G.fns
        return any(ws_capable(G, t, depth + 1) for _, t, _ in sk.steps)
    if k in ("opt", "star", "plus"):
        return ws_capable(G, term[1], depth + 1)
    if k == "sep":
        return ws_capable(G, term[1], depth + 1) or ws_capable(G, term[2], depth + 1)
    if k in ("seq", "alt"):
        return any(ws_capable(G, t, depth + 1) for t in term[1])
    if k == "lit":
        return bool(re.search(r"\s", term[1]))
    if k == "empty":
        return False
    return True


def emitter_sequence(flat, out=None):
    """flattened template -> [("F", top field) | ("L", text) | ("U", why)] with optional groups opened up and lists as a field"""
    out = [] if out is None else out
    for x in flat:
        k = x[0]
        if k == "L":
            out.append(("L", x[1]))
        elif k == "L~":
            out.append(("L~", x[1]))
        elif k == "F":
            out.append(("F", top(x[1])))
        elif k in ("OPEN", "CLOSE"):
            continue
        elif k == "OPTLIT":
            out.append(("L?", "".join(y[1] for y in x[2] if y[0] == "L")))
        elif k == "LIST":
            out.append(("F", top(x[1]), x[2], x[3]))
            if any(y[0] == "U" for y in x[3]):
                out.append(("U", "list element with undecided parts"))
        else:
            out.append(("U", x[1] if len(x) > 1 else k))
    return out


def shape_of(result):
    """which optional fields a production fills: productions of different shape build different nodes, so each shape needs its own fitting production"""
    out = []
    fields = result[2] if result[0] == "struct" else [(str(i), v) for i, v in enumerate(result[1])] if result[0] == "tuple" else []
    for fname, fval in fields:
        t = render(fval)
        if t.startswith("Some(") or t.startswith("Some ("):
            out.append((fname, "Some"))
        elif t == "None":
            out.append((fname, "None"))
        elif re.sub(r"\s", "", t) in ("::alloc::vec::Vec::new()", "Vec::new()", "vec![]", "alloc::vec::Vec::new()"):
            out.append((fname, "Empty"))
    return tuple(out)


def edge_texts(templates, parts, side, depth=0):
    """texts a template can start (side 0) / end (side 1) with: set of strings, None inside = undecided"""
    if depth > 6:
        return {None}
    seq = list(parts) if side == 0 else list(reversed(parts))
    acc = ""
    for p in seq:
        k = p[0]
        if k == "lit":
            acc = (acc + p[1]) if side == 0 else (p[1] + acc)
            continue
        if acc.strip():
            return {acc}
        if k == "fld":
            if len(p) > 2 and p[2] in templates:
                return {None if t is None else ((acc + t) if side == 0 else (t + acc)) for t in edge_texts(templates, templates[p[2]], side, depth + 1)}
            return {acc}
        if k == "alt":
            out = set()
            for br in p[1:]:
                if isinstance(br, list):
                    out |= edge_texts(templates, br, side, depth + 1)
            return out or {None}
        if k == "opt":
            return edge_texts(templates, p[2], side, depth + 1) | {None}
        if k == "list":
            return edge_texts(templates, p[3], side, depth + 1) | {None}
        return {None}
    return {acc}


class Contexts:
    """literal text that callers write immediately before / after the text rendered by emitter method m"""

    def __init__(self, templates):
        self.t = templates          # emitter name -> template parts
        self.memo = {}

    def _scan(self, parts, m, pre_ctx, post_ctx, caller, out):
        """pre_ctx/post_ctx: set of texts (or None = unknown) that surround this sequence"""
        n = len(parts)
        for i, p in enumerate(parts):
            # literal run immediately before / after position i
            j = i - 1
            pre = ""
            while j >= 0 and parts[j][0] == "lit":
                pre = parts[j][1] + pre
                j -= 1
            pre_set = {pre} if (j >= 0 or pre.strip()) else ({pre + x if x is not None else None for x in pre_ctx} if not pre.strip() else {pre})
            if j < 0 and not pre.strip():
                pre_set = set(pre_ctx)
            k = i + 1
            post = ""
            while k < n and parts[k][0] == "lit":
                post += parts[k][1]
                k += 1
            post_set = {post} if (k < n or post.strip()) else set(post_ctx)
            kind = p[0]
            if kind == "fld" and len(p) > 2 and p[2] == m:
                out.append((pre_set, post_set, caller))
            elif kind == "opt":
                self._scan(p[2], m, pre_set, post_set, caller, out)
            elif kind == "list":
                sep = "".join(x[1] for x in p[2] if x[0] == "lit")
                if any(x[0] == "unk" for x in p[3]):
                    self._scan([x for x in p[3] if x[0] != "unk"], m, {None}, {None}, caller, out)      # position-dependent element text
                else:
                    self._scan(p[3], m, pre_set | ({sep} if sep.strip() else set()), post_set | ({sep} if sep.strip() else set()), caller, out)
            elif kind == "alt":
                for br in p[1:]:
                    if isinstance(br, list):
                        self._scan(br, m, pre_set, post_set, caller, out)

    def of(self, m, depth=0):
        if m in self.memo:
            return self.memo[m]
        self.memo[m] = []           # recursion guard
        occ = []
        for c, parts in self.t.items():
            if c == m:
                continue
            found = []
            self._scan(parts, m, {"<INHERIT>"}, {"<INHERIT>"}, c, found)
            for pre, post, caller in found:
                if "<INHERIT>" in pre or "<INHERIT>" in post:
                    up = self.of(caller, depth + 1) if depth < 4 else []
                    pres = set(x for x in pre if x != "<INHERIT>")
                    posts = set(x for x in post if x != "<INHERIT>")
                    if "<INHERIT>" in pre:
                        pres |= set().union(*[u[0] for u in up]) if up else {""}
                    if "<INHERIT>" in post:
                        posts |= set().union(*[u[1] for u in up]) if up else {""}
                    occ.append((pres, posts, caller))
                else:
                    occ.append((pre, post, caller))
        self.memo[m] = occ
        return occ


def walk_parts(parts):
    for p in parts:
        yield p
        if p[0] == "opt":
            yield from walk_parts(p[2])
        elif p[0] == "list":
            yield from walk_parts(p[3])
        elif p[0] == "alt":
            for br in p[1:]:
                if isinstance(br, list):
                    yield from walk_parts(br)


def walk_flat(flat):
    """every item of a flattened template, lists and optional groups opened up"""
    for x in flat:
        yield x
        for y in x[1:]:
            if isinstance(y, list) and y and isinstance(y[0], tuple):
                yield from walk_flat(y)


def nospace(s):
    return re.sub(r"\s+", "", s)


def run(F, rep, fm, reach):
    rep.rule("C08-R7", "struct emitters write the node's fields in the order the node's parser reads them")
    rep.rule("C08-R8", "the literal text an emitter writes around the fields is accepted by the parser's delimiter parsers at that place (whitespace aside)")
    rep.rule("C08-R13", "tight productions: an emitter writes white space between two fields only where some parser step between those fields can consume white space "
                        "(a complex literal `3+2i` printed as `3 + 2i` re-parses as a formula)")
    rep.rule("C08-R9", "list fields are traversed in element order (not inside a loop over something else)")
    items = F.syn("mech_syntax.lib")
    G = Grammar(items)
    byret = defaultdict(list)
    for n in G.fns:
        byret[G.ret_type(n)].append(n)
    n7 = n8 = n9 = 0
    n13 = [0]
    undecided = []
    templates = {}
    for it in fm:
        if it["name"] not in reach or "html" in it["name"]:
            continue
        ps = [p[0][1] for p in it["sig"]["inputs"] if is_node(p[0]) and p[0][0] == "pident"]
        if not ps:
            continue
        try:
            templates[it["name"]] = Emitter(it, ps[0]).template
        except Exception:
            pass
    ctx = Contexts(templates)
    # ---- R13 (token nodes): a node all of whose parsers are white-space free (no white-space parser anywhere below them) is ONE token of the grammar; its emitter writes no white space,
    # neither literally nor through a helper emitter it calls with a constant argument
    def parser_ws_free(name, seen, depth=0):
        if name in WS:
            return False
        if name in seen or depth > 6 or name not in G.fns:
            return True
        seen.add(name)
        for x in walk(G.fns[name]["body"]):
            if x[0] == "path":
                n_ = x[1].split("::")[-1]
                if n_ in WS:
                    return False
                if n_ in G.fns and n_ != name and not parser_ws_free(n_, seen, depth + 1):
                    return False
        return True
    n_tok = 0
    for it in fm:
        if it["name"] not in templates:
            continue
        params = [(p_[0][1], p_[1]) for p_ in it["sig"]["inputs"] if is_node(p_[0]) and p_[0][0] == "pident"]
        if not params:
            continue
        T = re.sub(r"^&(mut )?", "", params[0][1]).replace(" ", "")
        ps_ = byret.get(T, [])
        if not ps_ or not all(parser_ws_free(p_, set()) for p_ in ps_):
            continue
        n_tok += 1
        def all_parts(parts):
            for q in walk_parts(parts):
                yield q
                if q[0] == "list":
                    yield from all_parts(q[2])
        wrote = [y[1] for y in all_parts(templates[it["name"]]) if y[0] == "lit" and re.search(r"[ \t]", y[1])]
        for y in all_parts(templates[it["name"]]):
            if y[0] == "unk":
                mm_ = re.match(r"^self\.(\w+)$", str(y[1]))
                if mm_ and mm_.group(1) in templates and any(z[0] == "lit" and re.search(r"[ \t]", z[1]) for z in all_parts(templates[mm_.group(1)])):
                    wrote.append("<%s>" % y[1])
        rep.check(not wrote, "C08-R13", "token:%s" % it["name"] if not wrote else "token:%s:writes-space" % it["name"],
                  "Formatter::%s prints a %s, which the grammar reads as one white-space-free token (parsers %s), but writes blanks (%s): the text re-parses as several tokens "
                  "(`3+2i` printed as `3 + 2i` is a formula, not a complex literal)" % (it["name"], T, ps_, wrote), "src/syntax/src/formatter.rs (expanded line %d)" % it["line"],
                  sample={"emitter": it["name"], "node": T, "parsers": ps_})
    rep.floor("C08-R13", "token-node emitters examined", n_tok, 3)
    for it in fm:
        if it["name"] not in reach or "html" in it["name"]:
            continue
        params = [(p[0][1], p[1]) for p in it["sig"]["inputs"] if is_node(p[0]) and p[0][0] == "pident"]
        if not params:
            continue
        pname, pty = params[0]
        T = re.sub(r"^&(mut )?", "", pty).replace(" ", "")
        # ---- R9 traversal order (text path only: statements after an `if !self.html { return .. }` are the HTML layout)
        text_body = []
        for st in it["body"]:
            if st[0] == "expr" and is_node(st[1]) and st[1][0] == "if" and render(st[1][1]).replace(" ", "") == "!self.html" and any(True for _ in find(st[1][2], "ret")):
                text_body.append(["expr", ["block", st[1][2]], True])
                break
            if st[0] == "expr" and is_node(st[1]) and st[1][0] == "if" and render(st[1][1]).replace(" ", "") == "self.html":
                if st[1][3] is not None:
                    text_body.append(["expr", st[1][3], True])
                if any(True for _ in find(st[1][2], "ret")) or st is it["body"][-1]:
                    continue
                continue
            text_body.append(st)
        for lp in find(text_body, "for"):
            for inner in find(lp[3], "for"):
                tgt = render(inner[2])
                outer = render(lp[2])
                if re.search(r"\b%s\s*\.\s*\w+" % re.escape(pname), tgt) and (".." in outer or not re.search(r"\b%s\b" % re.escape(pname), outer)):
                    n9 += 1
                    rep.bad("C08-R9", "%s:list-traversed-inside-another-loop" % it["name"],
                            "Formatter::%s walks `%s` inside a loop over `%s` on its text path: the elements of the list are written in transposed order (and without the list's own separators), so a node with more than one element per dimension re-parses differently" % (
                                it["name"], tgt[:40], outer[:40]), "src/syntax/src/formatter.rs (expanded line %d)" % it["line"])
        if any(True for _ in find(text_body, "for")):
            rep.ok("C08-R9", "%s:loops-in-element-order" % it["name"])
        parsers = [p for p in byret.get(T, []) if G.skeleton(p) is not None]
        if not parsers:
            continue
        try:
            em = Emitter(it, pname)
        except Exception as ex:      # the evaluator is best effort
            undecided.append("%s: emitter not read (%s)" % (it["name"], ex))
            continue
        eseq = emitter_sequence(flatten(em.template))
        efields = []
        for x in eseq:
            if x[0] == "F" and x[1] and x[1] not in efields:
                efields.append(x[1])
        if not efields:
            undecided.append("%s: no field recognised in the emitted template `%s`" % (it["name"], show(em.template)[:60]))
            continue
        evals = []          # (parser tag, [ok records], [bad records]) per production; the text needs to be derivable from ONE production
        for p in sorted(parsers):
            oks, bads = [], []
            sk = G.skeleton(p)
            if not sk.straight or not sk.steps:
                undecided.append("%s <-> %s: parser is not straight-line" % (it["name"], p))
                continue
            results = []
            for r0 in sk.results:
                if is_node(r0) and r0[0] == "path":
                    for st in find(sk.it["body"], "let"):
                        if len(st) == 4 and st[2] is not None and st[1][0] == "pident" and st[1][1] == r0[1]:
                            results += [x for x in find(st[2], "struct")] or []
                else:
                    results.append(r0)
            for ri, result in enumerate(results):
                pseq = parser_sequence(G, sk, result)
                if pseq is None:
                    continue
                pfields = []
                for x in pseq:
                    if x[0] == "F" and x[1] not in pfields:
                        pfields.append(x[1])
                common = [f for f in pfields if f in efields]
                empties = [f for f, k_ in shape_of(result) if k_ == "Empty"]
                if len(common) < 1 and not pfields and empties and all(x[0] == "D" and x[1] is not None for x in pseq):
                    # a production for the EMPTY node (`{:}` for a map without elements): the emitter's text with its empty lists left out
                    rest = [x for x in eseq if not (x[0] == "F" and x[1] in empties)]
                    if not any(x[0] in ("F", "U") for x in rest):
                        texts = {""}
                        for x in rest:
                            if x[0] == "L":
                                texts = {t_ + x[1] for t_ in texts}
                            elif x[0] in ("L?", "L~"):
                                texts = texts | {t_ + x[1] for t_ in texts}
                        lang = {""}
                        for x in pseq:
                            lang = {a + b for a in lang for b in x[1]}
                        lang_ns = {nospace(a) for a in lang}
                        n8 += 1
                        tag = "%s<->%s" % (it["name"], p)
                        bad = sorted(t_ for t_ in {nospace(t_) for t_ in texts} if t_ not in lang_ns)
                        rec = ("C08-R8", "%s:empty-node" % tag if not bad else "%s:empty-node:%s" % (tag, re.sub(r"[^\x21-\x7e]", "?", bad[0])[:12]),
                               "Formatter::%s writes `%s` for a node whose `%s` is empty; the parser %s() builds that node only from %s: the empty node is formatted as something else" % (
                                   it["name"], bad[0] if bad else "", "/".join(empties), p, sorted(lang_ns)[:4]), {"emitter": it["name"], "parser": p, "empty_fields": empties, "accepts": sorted(lang_ns)[:4]})
                        evals.append((tag, [rec] if not bad else [], [rec] if bad else [], shape_of(result)))
                    continue
                if len(common) < 1:
                    continue
                tag = "%s<->%s%s" % (it["name"], p, ("#%d" % ri) if len(results) > 1 else "")
                # ---- R7 order
                eorder = [f for f in efields if f in common]
                oks, bads = [], []
                if len(common) >= 2:
                    n7 += 1
                    ok = eorder == common
                    (oks if ok else bads).append(("C08-R7", tag if ok else "%s:%s" % (tag, ">".join(eorder)),
                              "Formatter::%s writes the fields in the order %s; the parser %s() reads them in the order %s: the formatted text re-parses with these parts exchanged" % (it["name"], eorder, p, common),
                              {"emitter": it["name"], "parser": p, "order": common}))
                    if not ok:
                        evals.append((tag, oks, bads, shape_of(result)))
                        continue
                # ---- R8 delimiters: walk both sequences field by field
                gaps_p, cur = [], []
                for x in pseq:
                    if x[0] == "F":
                        if x[1] in common and (not gaps_p or gaps_p[-1][0] != x[1]):
                            gaps_p.append((x[1], cur))
                            cur = []
                        continue
                    cur.append(x)
                tail_p = cur
                gaps_e, cur = [], []
                seen = set()
                for x in eseq:
                    if x[0] == "F":
                        if x[1] in common and x[1] not in seen:
                            seen.add(x[1])
                            gaps_e.append((x[1], cur))
                            cur = []
                        elif x[1] not in common:
                            cur.append(("U", "field " + x[1]))
                        continue
                    cur.append(x)
                tail_e = cur
                pairs = list(zip(gaps_p, gaps_e)) + [(("<end>", tail_p), ("<end>", tail_e))]
                prev = "<start>"
                for (pf, pg), (ef, eg) in pairs:
                    where = "%s..%s" % (prev, pf)
                    prev_field = prev
                    prev = pf
                    # ---- R13 tight productions: white space written between two fields where no parser step between them accepts any
                    if prev_field != "<start>" and pf != "<end>" and pg and all(x[1] is not None for x in pg):
                        def callee_ws(why):
                            mm_ = re.match(r"^self\.(\w+)$", str(why))
                            if not mm_ or mm_.group(1) not in templates:
                                return False
                            return any(y[0] == "L" and re.search(r"\s", y[1]) for y in flatten(templates[mm_.group(1)]))
                        wrote = [x[1] for x in eg if x[0] == "L" and re.search(r"\s", x[1])] + ["<%s>" % x[1] for x in eg if x[0] == "U" and callee_ws(x[1])]
                        if wrote:
                            n13[0] += 1
                            fterm = {x[1]: x[3] for x in pseq if x[0] == "F" and len(x) > 3}
                            # white space may also be consumed by the parser of the neighbouring FIELD itself (an operator parser that skips blanks around its tag)
                            tight = not any(ws_capable(G, x[3]) for x in pg) and not any(f_ in fterm and ws_capable(G, fterm[f_]) for f_ in (prev_field, pf))
                            rec13 = ("C08-R13", "%s:%s:tight" % (tag, where) if not tight else "%s:%s:writes-space" % (tag, where),
                                     "Formatter::%s writes white space (%s) between `%s` and `%s`, but the parser %s() reads `%s` there with no white-space parser in between: the formatted text "
                                     "no longer parses as this node (e.g. `3+2i` printed as `3 + 2i` is a formula)" % (it["name"], wrote, prev_field, pf, p, " ".join(x[2] for x in pg)),
                                     {"emitter": it["name"], "parser": p, "gap": where, "written": wrote})
                            (bads if tight else oks).append(rec13)
                    if any(x[0] == "U" for x in eg) or any(x[1] is None for x in pg):
                        continue
                    # every combination of optional emitter literals must be acceptable
                    texts = {""}
                    amb = [x for x in eg if x[0] == "L~"]
                    for x in eg:
                        if x[0] == "L":
                            texts = {t + x[1] for t in texts}
                        elif x[0] == "L?":
                            texts = texts | {t + x[1] for t in texts}
                    lang = {""}
                    for x in pg:
                        lang = {a + b for a in lang for b in x[1]}
                        if len(lang) > 256:
                            lang = None
                            break
                    if lang is None:
                        continue
                    n8 += 1
                    lang_ns = {nospace(a) for a in lang}
                    if "" not in lang_ns and all(nospace(t) == "" for t in texts):
                        # the neighbouring child emitters may write the delimiter themselves (e.g. the last arm writes the final period)
                        def child_supplies(field, side):
                            def fits(t):
                                return t is not None and any((nospace(t).endswith(a) if side == 1 else nospace(t).startswith(a)) for a in lang_ns)
                            for prt in walk_parts(em.template):
                                if prt[0] == "fld" and top(prt[1]) == field and len(prt) > 2:
                                    edges = edge_texts(templates, [prt], side)
                                    if len(prt) > 3 and prt[3] > 1 and any(fits(t) for t in edges):
                                        return True      # the child emitter is told its position (extra argument): it may close/open the parent's text
                                    if edges and all(fits(t) for t in edges):
                                        return True      # the child always writes that delimiter itself
                            return False
                        left, right = where.split("..")
                        if (left != "<start>" and child_supplies(left, 1)) or (right != "<end>" and child_supplies(right, 0)):
                            oks.append(("C08-R8", "%s:%s" % (tag, where), "", {"emitter": it["name"], "parser": p, "gap": where, "delimiter": "written by the neighbouring child emitter"}))
                            continue
                    boundary = where.startswith("<start>") or where.endswith("<end>")
                    if boundary and "" not in lang_ns and all(nospace(t) == "" for t in texts):
                        # a mandatory delimiter at the edge of this node's text may be written by the calling emitter
                        occs = ctx.of(it["name"])
                        side = 0 if where.startswith("<start>") else 1
                        supplied = []
                        for o in occs:
                            for txt in o[side]:
                                supplied.append((None if txt is None else nospace(txt), o[2]))
                        if supplied and all(tx is not None and any((tx.endswith(a) if side == 0 else tx.startswith(a)) for a in lang_ns) for tx, _ in supplied):
                            oks.append(("C08-R8", "%s:%s" % (tag, where), "", {"emitter": it["name"], "parser": p, "gap": where, "supplied_by_callers": sorted({c for _, c in supplied})}))
                            continue
                        missing_from = sorted({c for tx, c in supplied if tx is None or not any((tx.endswith(a) if side == 0 else tx.startswith(a)) for a in lang_ns)})
                        if supplied and any(tx is None for tx, _ in supplied) and not any(tx == "" for tx, _ in supplied):
                            continue      # undecided
                    bad = sorted(t for t in {nospace(t) for t in texts} if t not in lang_ns)
                    if bad and (where.startswith("<start>") or where.endswith("<end>")) and "" in lang_ns:
                        # extra text at the edge of a node's own syntax may be the enclosing production's (the ```ebnf fence around a grammar,
                        # written by the grammar emitter itself because the section-element dispatcher adds nothing): not decided here
                        undecided.append("%s: writes `%s` at its edge (%s); the node's own parser takes nothing there" % (it["name"], bad[0][:20], where))
                        continue
                    if bad and amb:
                        # text that may belong to the neighbouring field's own syntax: accept if some split of it fits
                        alt_texts = {""}
                        for x in eg:
                            if x[0] == "L":
                                alt_texts = {t + x[1] for t in alt_texts}
                            elif x[0] in ("L?", "L~"):
                                alt_texts = alt_texts | {t + x[1] for t in alt_texts}
                        if any(nospace(t) in lang_ns for t in alt_texts):
                            bad = []
                    k8 = "%s:%s" % (tag, where)
                    (oks if not bad else bads).append(("C08-R8", k8 if not bad else "%s:%s" % (k8, re.sub(r"[^\x21-\x7e]", "?", bad[0])[:12] or "nothing"),
                              "Formatter::%s writes `%s` %s; the parser %s() accepts there only %s (%s): the formatted text does not parse back into the same node" % (
                                  it["name"], bad[0] if bad else "", ("between `%s` and `%s`" % tuple(where.split(".."))), p, sorted(lang_ns)[:6], " ".join(x[2] for x in pg) or "nothing"),
                              {"emitter": it["name"], "parser": p, "gap": where, "emits": sorted(texts)[:3], "accepts": sorted(lang_ns)[:6]}))
                evals.append((tag, oks, bads, shape_of(result)))
        groups = defaultdict(list)
        for e in evals:
            groups[e[3] if len(e) > 3 else ()].append(e)
        for shape, evals in sorted(groups.items()):
            clean = [e for e in evals if not e[2] and e[1]]
            if clean:
                for e in clean:
                    for r, k, msg, smp in e[1]:
                        rep.ok(r, k, sample=smp)
                others = [e[0] for e in evals if e[2]]
                if others:
                    rep.note("productions_not_matching_the_emitter(another production of the same node does)", "%s: %s" % (it["name"], others))
            else:
                best = min(evals, key=lambda e: (len(e[2]), e[0]))
                for r, k, msg, smp in best[1]:
                    rep.ok(r, k, sample=smp)
                for r, k, msg, smp in best[2]:
                    rep.bad(r, k, msg + ("" if len(evals) == 1 else " (no other production of this node fits better: %s)" % [e[0] for e in evals if e is not best][:4]),
                            "src/syntax/src/formatter.rs (expanded line %d)" % it["line"])
    # ---- R12: a comma between two expressions keeps a blank after it (`a.x,b` is a swizzle subscript, `a.x, b` is two expressions)
    rep.rule("C08-R12", "expression lists: a separator containing a comma that an emitter writes between expressions ends with a blank - the grammar reads `a.x,b` as ONE swizzle subscript, "
                        "so a tight comma after an element ending in `.field` fuses it with the next element")
    EXPRISH = {"expression", "argument", "subscript", "factor", "term", "pattern", "formula", "matrix_column", "table_column"}
    n12 = 0
    for name_, parts_ in sorted(templates.items()):
        for prt in walk_parts(parts_):
            if prt[0] != "list":
                continue
            sep_ = "".join(x[1] for x in prt[2] if x[0] == "lit")
            if "," not in sep_:
                continue
            renders = {y[2] for y in walk_parts(prt[3]) if y[0] == "fld" and len(y) > 2}
            if not (renders & EXPRISH):
                continue
            n12 += 1
            ok = re.search(r",\s+$", sep_) is not None
            rep.check(ok, "C08-R12", "%s:%s" % (name_, top(prt[1])),
                      "Formatter::%s separates the expressions of `%s` with `%s` (no blank after the comma): an element ending in a field access followed by a name (`a.x,b`) re-parses as a single swizzle subscript" % (name_, top(prt[1]), sep_),
                      "src/syntax/src/formatter.rs", sample={"emitter": name_, "list": top(prt[1]), "separator": sep_})
    rep.floor("C08-R12", "comma-separated expression lists", n12, 4)
    rep.floor("C08-R7", "emitter/parser pairs compared on field order", n7, 25)
    rep.floor("C08-R8", "delimiter gaps compared", n8, 60)
    rep.floor("C08-R13", "gaps where the emitter writes white space between two fields", n13[0], 10)
    for u in undecided[:80]:
        rep.note("grammar_agreement_undecided", u)
