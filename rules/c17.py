"""C17 — state machines: bounded transition loop, validation before execution, arm/guard order, per-arm environment,
pattern-binding clearing covers every sub-pattern.

The mechanisms are located by ROLE, not by today's spelling: loops by the type they iterate (`FsmArm`, `Guard`, `Range<usize>`), values by
their provenance (field `max_steps` of the interpreter), environments and patterns by canonical MIR places, "a transition was applied" by a
(summarised) call of `apply_transitions`. Private helpers of the module are virtually inlined (lib/mirloop.py: Closure), so extracting a block
into a helper, a named local for the bound, a guard clause instead of a nested `if`, or a labelled `continue` instead of flag + `break`
leave every verdict unchanged."""
import re
from lib.facts import CallGraph, find, is_node, render
from lib.armloop import field_use
from lib.mirq import calls_matching, result_exits
from lib import mirloop as ML

TECHNIQUE = ("MIR control-flow rules over execute_fsm_pipe_impl and the private helpers it calls (virtual inlining): natural loops classified by the iterated type, "
             "provenance of the loop bound (Interpreter.max_steps), flag-sensitive path exploration of the arm loop with must-call summaries of apply_transitions, "
             "canonical-place comparison of the environments / patterns handed to clear_pattern_bindings and the matcher, MIR dominance of the validation calls over "
             "the execution call, K6 field-use completeness of the pattern helpers the FSM loop relies on; finite truth table of the argument-kind predicate by concrete evaluation "
             "of its syntax tree over generated ValueKind values (lib/adteval.py) compared with an oracle, operand-role provenance and variant-sensitive reachability of the gate's outcomes (lib/mirgate.py)")
EXPLANATION = (
    "Decides structural clauses of C17 (narrow): (R1) the transition loop is a `for` over 0..max_steps whose fall-through is the transition-limit Err, and no "
    "`loop`/`while` is reachable from the FSM executor; (R2) argument-count/kind checks and validate_fsm_state_coverage dominate the call that runs the machine; "
    "transition targets are validated where transitions are applied; (R3) arms are tried in forward order, guards in forward order, the first success "
    "breaks/returns; each arm gets a fresh clone of the call environment from which the arm's own pattern variables are cleared before matching, and "
    "the clearing helper visits every sub-pattern (prefix, spread, suffix) - otherwise stale bindings turn into equality constraints. Not decided: the "
    "visited state sequence and payload values (runtime)."
    ' (R5) the FSM arm loop is left (break, continue of the step loop, return of a value) only after a transition was applied.'
    " (R6) each FSM arm is tried against its own scratch environment; (R7) the set the start state and transition targets are validated against is built from the implementation's arms and nothing else."
    " (R9) argument gate: the truth table of the kind-compatibility predicate called in front of the executor (evaluated from its expanded source over a universe of kinds generated from the "
    "definition of ValueKind) accepts the declared kind, a reference to it, and another shape / size / kind only where the declaration leaves it open (array without dimensions, set / table "
    "without size, `*`) and rejects everything else; its operands are the unmodified converted annotation of the declaration (read from the specification's or the implementation's inputs) "
    "and the kind of the paired argument, its `false` outcome cannot reach the executor, no annotated input bypasses it, and the executor is reachable only for equal numbers of "
    "declarations and arguments - the table of the source is decided, the run-time behaviour of a machine call is not."
    ' (R10) transition variants that share an arm in the executor (the match over Transition with the most arms; today Next | Async) share an arm in every other match over Transition of the interpreter, in particular in the validator that rejects a transition to an undeclared state.'
)

MOD = "mech_interpreter::state_machines::"
ROOT = MOD + "execute_fsm_pipe_impl"
ENTRY = MOD + "execute_fsm_pipe"
MATCHERS = ("pattern_match_value", "pattern_matches_value", "pattern_matches_value_with_semantics", "pattern_matches_arguments")
MATCHER_RX = re.compile(r"::patterns::(%s)$" % "|".join(MATCHERS))
CLEAR_RX = re.compile(r"::patterns::clear_pattern_bindings$")
APPLY_RX = re.compile(r"::state_machines::apply_transitions$")
ENV_TY = re.compile(r"^&mut std::collections::hash::map::HashMap<u64,mech_core::value::Value\b")
PAT_TY = re.compile(r"^&mech_core::nodes::Pattern$")
WRAPPERS = re.compile(r"^core::iter::adapters::(enumerate::Enumerate|peekable::Peekable|copied::Copied|cloned::Cloned)<(.*)>$")


def short(fn):
    return fn.split("::")[-1] if not fn.endswith("}") else "::".join(fn.split("::")[-2:])


def iter_source(ty):
    """strip order-preserving adapters from an iterator type"""
    while True:
        m = WRAPPERS.match(ty)
        if not m:
            return ty
        ty = m.group(2)


def arg_by_type(body, term, rx):
    for a in term["args"]:
        if isinstance(a, list) and a[1] == "" and rx.search(body.locals[a[0]]):
            return a
    return None


def range_of(body, loop):
    """(start operand, end operand) of the Range a counted `for` loop runs over, or None"""
    t = body.blocks[loop.header]["t"]
    p = ML.pointee(body, t["args"][0]) if t.get("args") else None
    if p is None or p[1] != "":
        return None
    cur = p[0]
    for _ in range(6):
        ds = [(blk, s) for blk, s in body.defs().get(cur, []) if s["d"][1] == "" and blk not in loop.nodes]
        if len(ds) != 1:
            return None
        s = ds[0][1]
        if s.get("k") == "call":
            if s.get("tf", "").endswith("IntoIterator::into_iter") and s["args"] and isinstance(s["args"][0], list):
                cur = ML.value_place(body, s["args"][0])[0]
                continue
            return None
        if s.get("rk") == "agg" and s.get("adt") == "core::ops::range::Range":
            return s["src"][0], s["src"][1]
        if s.get("rk") == "use" and s.get("src") and isinstance(s["src"][0], list) and s["src"][0][1] == "":
            cur = s["src"][0][0]
            continue
        return None
    return None


class Site:
    """a matcher call reached along one call chain, with the environment / pattern it works on seen from its own function and (lifted through the
    chain's call sites) from its callers up to the arm-loop function: an extracted helper is looked at as if it were inlined at each of its call sites"""

    def __init__(self, clo, fn, blk, term, chain, top):
        self.fn, self.blk, self.term = fn, blk, term
        self.matcher = ML.callee_of(term).split("::")[-1]
        b = clo.fns[fn]
        e = arg_by_type(b, term, ENV_TY)
        p = arg_by_type(b, term, PAT_TY)
        ep = ML.pointee(b, e) if e else None
        pp = ML.pointee(b, p) if p else None
        self.views = [(fn, blk, ep, pp)]         # (fn, block, env place | None, pattern place | None), innermost first
        f = fn
        for g, k in reversed(chain):
            if f == top:
                break
            bb = clo.fns[f]
            t = clo.fns[g].blocks[k]["t"]

            def up(pl):
                if pl is None or not (1 <= pl[0] <= bb.nargs):
                    return None
                a = t["args"][pl[0] - 1] if pl[0] - 1 < len(t["args"]) else None
                if not isinstance(a, list):
                    return None
                return ML.canon_place(clo.fns[g], a[0], a[1] + pl[1])
            ep, pp = up(ep), up(pp)
            self.views.append((g, k, ep, pp))
            f = g
        self.order = tuple((v[0], v[1]) for v in reversed(self.views))


def sites_in_loop(clo, rx, top, loop):
    """every call matching rx that runs inside `loop` of function `top`, once per call chain that leads to it"""
    out = []
    for f, i, t in clo.calls(rx):
        for ch, nest in zip(clo.chains(f), clo.loop_nest(f, i)):
            if any(x[0] == top and x[1].header == loop.header for x in nest):
                out.append(Site(clo, f, i, t, ch, top))
    return out


def fresh_env(clo, site, top_fn, top_loop):
    """'yes' | 'no' | 'undecided': the environment the matcher fills is created anew for every candidate"""
    verdict = "no"
    for f, k, ep, pp in site.views:
        if ep is None:
            continue
        b = clo.fns[f]
        e, proj = ep
        if proj != "" or 1 <= e <= b.nargs:
            continue            # the caller's object: decided in the caller's view
        defs = [blk for blk, s in b.defs().get(e, []) if s["d"][1] == ""]
        if not defs:
            continue
        loops = ML.loops_containing(b, k)
        inner = loops[-1].region() if loops else None
        if f == top_fn and (inner is None or k not in top_loop.region()):
            continue
        inside = [d for d in defs if inner is None or d in inner]
        if any(b.dominates(d, k) and d != k for d in inside):
            return "yes"
        if inside and len(inside) == len(defs):
            verdict = "undecided"
    return verdict


def cleared_before(clo, site):
    """a clear_pattern_bindings(pattern, env) on the same pattern and the same environment dominates the matcher call (and follows the creation of the environment)"""
    for f, k, ep, pp in site.views:
        if ep is None or pp is None:
            continue
        b = clo.fns[f]
        for c, t in calls_matching(b, CLEAR_RX):
            ce = arg_by_type(b, t, ENV_TY)
            cp = arg_by_type(b, t, PAT_TY)
            if ce is None or cp is None:
                continue
            if ML.pointee(b, ce) != ep or ML.pointee(b, cp) != pp or c == k or not b.dominates(c, k):
                continue
            e, proj = ep
            if proj == "" and not (1 <= e <= b.nargs):
                defs = [blk for blk, s in b.defs().get(e, []) if s["d"][1] == ""]
                if defs and not any(b.dominates(d, c) and d != c for d in defs):
                    continue    # cleared before it was (re)created
            return True
        # the environment is produced by a helper of the module that clears the pattern's variables in the value it returns
        e, proj = ep
        if proj != "" or 1 <= e <= b.nargs:
            continue
        for d, st in b.defs().get(e, []):
            if st.get("k") != "call" or st["d"][1] != "" or d == k or not b.dominates(d, k):
                continue
            h = None
            for g in ML.callee_names(st):
                if g in clo.fns and g != clo.root:
                    h = g
            if h is not None and produces_cleared(clo, h, st, b, pp):
                return True
    return False


def produces_cleared(clo, h, call, caller, pp):
    """helper h returns an environment on which it has run clear_pattern_bindings for the pattern that the caller passes (and later matches: place pp)"""
    hb = clo.fns[h]
    returned = set()
    for blk, s in hb.defs().get(0, []):
        if s.get("k") != "call" and s.get("rk") == "use" and s.get("src") and isinstance(s["src"][0], list):
            returned.add(ML.value_place(hb, s["src"][0]))
    rets = hb.ret_blocks()
    for c, t in calls_matching(hb, CLEAR_RX):
        ce = arg_by_type(hb, t, ENV_TY)
        cp = arg_by_type(hb, t, PAT_TY)
        if ce is None or cp is None or ML.pointee(hb, ce) not in returned:
            continue
        if not all(hb.dominates(c, r) for r in rets):
            continue
        pl = ML.pointee(hb, cp)
        if pl is None or not (1 <= pl[0] <= hb.nargs) or pl[0] - 1 >= len(call["args"]):
            continue
        a = call["args"][pl[0] - 1]
        if isinstance(a, list) and ML.canon_place(caller, a[0], a[1] + pl[1]) == pp:
            return True
    return False


def arm_variant(F, clo, site, top_fn):
    """name of the FsmArm variant whose match arm contains the site (from the discriminant switch that dominates it), or None"""
    names = None
    for a in F.adts("mech_core.lib"):
        if a["name"] == "mech_core::nodes::FsmArm" and a["enum"]:
            names = [v["name"] for v in a["variants"]]
    if names is None:
        return None
    for f, k, ep, pp in site.views:
        b = clo.fns[f]
        idom = b.idom()
        x = k
        guard = 0
        while x in idom and x != 0 and guard < 2000:
            guard += 1
            p = idom[x]
            t = b.blocks[p]["t"]
            if t["k"] == "switch" and isinstance(t["on"], list):
                src = [s for s in b.blocks[p]["s"] if s["d"][0] == t["on"][0] and s.get("rk") == "discr"]
                if src and isinstance(src[0]["src"][0], list) and "nodes::FsmArm" in b.locals[src[0]["src"][0][0]] and "Option" not in b.locals[src[0]["src"][0][0]]:
                    for v, tgt in t["targets"]:
                        if tgt == x and v < len(names):
                            return names[v]
            x = p
    return None


def const_value(text, consts, depth=3):
    """literal value of a constant operand: `0_usize` -> 0, a named `const` item -> its (literal) initialiser"""
    text = str(text)
    m = re.match(r"^(\d+)(_?[iu](8|16|32|64|128|size))?$", text)
    if m:
        return m.group(1)
    v = consts.get(text.split("::")[-1])
    if v is not None and depth > 0:
        while is_node(v) and v[0] in ("paren", "cast"):
            v = v[1]
        return const_value(render(v), consts, depth - 1)
    return text


def arm_kind_targets(F, body, loop):
    """for the `match` / `if let` on an FsmArm inside the arm loop: variant name -> blocks control goes to for that variant; and the variants that carry a pattern"""
    names, with_pattern = None, []
    for a in F.adts("mech_core.lib"):
        if a["name"] == "mech_core::nodes::FsmArm" and a["enum"]:
            names = [v["name"] for v in a["variants"]]
            with_pattern = [v["name"] for v in a["variants"] if any(f[1] == "mech_core::nodes::Pattern" for f in v["fields"])]
    out = {}
    per_switch = {}
    if names is None:
        return out, with_pattern, per_switch
    region = loop.region()
    for x in sorted(region):
        t = body.blocks[x]["t"]
        if t["k"] != "switch" or not isinstance(t["on"], list):
            continue
        src = [s for s in body.blocks[x]["s"] if s["d"][0] == t["on"][0] and s.get("rk") == "discr"]
        if not src or not isinstance(src[0]["src"][0], list):
            continue
        ty = body.locals[src[0]["src"][0][0]]
        if not re.match(r"^(&(mut )?)*mech_core::nodes::FsmArm$", ty):
            continue
        listed = dict((v, tgt) for v, tgt in t["targets"])
        for i, nm in enumerate(names):
            tgt = listed.get(i, t.get("else"))
            if tgt is not None and body.succ(tgt) or tgt in body.ret_blocks():
                out.setdefault(nm, set()).add(tgt)
                per_switch.setdefault(x, {}).setdefault(tgt, []).append(nm)
    return out, with_pattern, per_switch


def run(F, rep, tier):
    crate = "mech_interpreter.lib"
    items = F.syn(crate)
    adts = F.adts(crate) + F.adts("mech_core.lib")
    rep.rule("C17-R1", "bounded execution: counted loop over max_steps, fall-through is an Err, no unbounded loop in the executor")
    rep.rule("C17-R2", "validation (argument kinds, state coverage) dominates execution")
    rep.rule("C17-R3", "arm and guard order; first success exits; fresh per-arm environment with the arm's bindings cleared; clearing covers every sub-pattern")
    rep.rule("C17-R5", "FSM arm selection: the arm loop is left early (break / continue of the step loop / return of a value) only when a transition was applied on the way: "
                       "an arm whose guards all fail falls through to the later arms")
    rep.rule("C17-R6", "trial matches use a fresh scratch environment: the environment passed `&mut` to pattern_match_value / pattern_matches_* inside the loop over the arms is created "
                       "inside the body of that loop (a matcher binds sub-patterns left to right and leaves them behind when a later sub-pattern fails; reusing the environment "
                       "turns those leftovers into join constraints for the next candidate)")
    cg = CallGraph(F, [crate])
    consts = {it["name"]: it["val"] for it in items if it["k"] == "const"}
    impl = [it for it in items if it["k"] == "fn" and it["name"] == "execute_fsm_pipe_impl"]
    if not rep.check(len(impl) == 1 and ROOT in cg.bodies, "C17-R1", "anchor:execute_fsm_pipe_impl", "execute_fsm_pipe_impl not found"):
        return
    clo = ML.Closure(cg, ROOT, MOD)
    match_sum = ML.CallSummary(clo, MATCHER_RX)
    apply_sum = ML.CallSummary(clo, APPLY_RX)

    # ---- the arm loop: the loop (anywhere in the closure) that iterates FsmArm values and in which the pattern matcher runs
    arm = []
    for f, b in clo.fns.items():
        for l in ML.natural_loops(b):
            it = l.iter_info()
            if it and "nodes::FsmArm" in it["type"]:
                mu, ma = match_sum.blocks(b)
                if (mu | ma) & l.region():
                    arm.append((f, l))
    # ---- no unbounded loop in the executor (syntax: `loop` / `while` cannot be a counted loop)
    unb = unbounded_in(cg, impl[0])
    if rep.check(len(arm) == 1, "C17-R3", "arm-loop", "expected one loop over the machine's arms (with a pattern match inside) in the executor, found %d" % len(arm)):
        G, L = arm[0]
        gb = clo.fns[G]
        # ---- R1: every loop around the arm loop is THE counted step loop
        nests = clo.loop_nest(G, L.header)
        encl = []
        per_chain = []
        for nest in nests:
            outer = [(f, l) for f, l in nest if not (f == G and l.header == L.header) and not (f == G and l.nodes < L.nodes)]
            per_chain.append(len(outer))
            for fl in outer:
                if not any(fl[0] == x[0] and fl[1].header == x[1].header for x in encl):
                    encl.append(fl)
        descr = []
        counted = True
        for f, l in encl:
            it = l.iter_info()
            b = clo.fns[f]
            if not it or not it["type"].startswith("core::ops::range::Range<"):
                counted = False
                descr.append(it["type"] if it else "not an iterator loop")
                continue
            r = range_of(b, l)
            if r is None:
                counted = False
                descr.append("range not recognised")
                continue
            so = {("const", const_value(x[1], consts)) if x[0] == "const" else x for x in ML.scalar_origins(b, r[0], adts, cg)}
            eo = ML.scalar_origins(b, r[1], adts, cg)
            d = "%s..%s" % ("|".join(sorted(x[-1] for x in so)), "|".join(sorted(".".join(x[1:]).split("::")[-1] for x in eo)))
            descr.append(d)
            if so != {("const", "0")} or eo != {("field", "mech_interpreter::interpreter::Interpreter", "max_steps")}:
                counted = False
        rep.check(bool(encl) and counted and per_chain and all(n == 1 for n in per_chain), "C17-R1", "bounded-loop",
                  "the FSM main loop is not `for _ in 0..max_steps` (found around the arm loop: %s)" % (descr or "no loop"), sample={"loop": descr[0] if descr else None})
    rep.check(not unb, "C17-R1", "no-unbounded-loop", "execute_fsm_pipe_impl contains an unbounded loop (%s)" % unb)
    if len(arm) == 1:
        if len(encl) >= 1:
            sf, sl = encl[0]
            sb = clo.fns[sf]
            it = sl.iter_info()
            if it and ML.returns_result(sb):
                okw, err = ML.nonerror_writes(sb)
                reach = sb.reachable_from([it["none"]])
                rep.check(bool(reach & err) and not (reach & okw), "C17-R1", "limit-is-error",
                          "running out of steps does not produce an error (after the step loop of %s a non-error result is reachable)" % short(sf))
            elif it:
                rep.note("undecided", {"rule": "C17-R1", "what": "limit-is-error", "why": "the step loop lives in %s, which does not return a Result" % short(sf)})
        # ---- R3/R1: order of arms
        ity = L.iter_type()
        src = iter_source(ity)
        fwd_known = src == "core::slice::iter::Iter<mech_core::nodes::FsmArm>"
        if "rev::Rev<" not in ity and not fwd_known:
            rep.note("undecided", {"rule": "C17-R1", "what": "forward-order", "why": "arms are iterated through %s" % ity})
        rep.check("rev::Rev<" not in ity, "C17-R1", "execute_fsm_pipe_impl:forward-order",
                  "execute_fsm_pipe_impl tries the arms as `%s` (not in source order)" % ity, sample={"fn": short(G), "iterator": ity})
        # ---- matcher sites inside the arm loop (virtually inlined)
        sites = sorted(sites_in_loop(clo, MATCHER_RX, G, L), key=lambda x: x.order)
        rep.check(len(sites) >= 1, "C17-R2", "execute_fsm_pipe_impl:matcher-called", "execute_fsm_pipe_impl: the arm loop does not call the pattern matcher")
        for s in sites:
            s.fresh = fresh_env(clo, s, G, L)
            s.cleared = cleared_before(clo, s)
        # ---- the transition applications in the arm loop and how the loop is left
        must, may = apply_sum.blocks(gb)
        applied_in_trial = set()        # transition applications reached while an arm is being tried (the natural loop excludes blocks that can only leave it)
        it = L.iter_info()
        exhaust = (it["switch"], it["none"])
        okw, err = ML.nonerror_writes(gb)
        # where an arm iteration can end up other than in the next arm: a value is returned, a loop around the arm loop continues, or the code after
        # the arm loop runs (that code is what the exhaustion edge leads to, up to the next step)
        outer_heads = {l.header for l in ML.loops_containing(gb, L.header) if l.header != L.header}
        rets = set(gb.ret_blocks())
        after = {x for x in gb.reachable_from([it["none"]], avoid=outer_heads | {L.header}) if gb.succ(x) or x in rets}
        leave = (after | okw | outer_heads) - (err if ML.returns_result(gb) else set())
        # obligations are stated per KIND of arm (the enum's variants that carry a pattern), not per copy of the code: whether the two kinds share one code path
        # (merged arms, shared helper) or have a copy each does not change what is checked, so it must not change the count either
        kinds, with_pattern, per_switch = arm_kind_targets(F, gb, L)
        exits = {}
        again = set()
        OUT = (-1, None)

        def enter(b, u):
            # u = (a, kind): a = -1 not inside an arm trial; 0 no transition applied yet in this trial; 1 maybe (helper applies on some paths); 2 applied
            if b == L.header:
                return (0, None)
            a, kd = u
            if a < 0:
                return u
            if b in err and ML.returns_result(gb):
                return OUT
            if b in must:
                applied_in_trial.add(b)
                return (2, kd)
            if b in may:
                applied_in_trial.add(b)
                return (max(a, 1), kd)
            return u

        def on_edge(s_, d_, u):
            a, kd = u
            if a < 0:
                return None
            if (s_, d_) == exhaust:
                return OUT
            if d_ == L.header:
                if s_ in L.nodes:
                    again.add(a)
                return None
            if d_ in leave:
                exits.setdefault((kd, "value" if d_ in okw else "next-step"), set()).add(a)
                return OUT
            if s_ in per_switch and d_ in per_switch[s_]:
                nk = tuple(sorted(per_switch[s_][d_]))
                if kd is not None:
                    nk = tuple(x for x in nk if x in kd) or nk
                return (a, nk)
            return None
        complete = ML.explore(gb, enter, on_edge, init_user=OUT)
        if not complete:
            rep.note("undecided", {"rule": "C17-R5", "what": "arm loop exits", "why": "state budget exhausted"})
        rep.check(bool(applied_in_trial), "C17-R1", "execute_fsm_pipe_impl:success-branch", "execute_fsm_pipe_impl: no transition is applied (apply_transitions) while the arms are tried")
        rep.check(2 not in again, "C17-R1", "execute_fsm_pipe_impl:first-match-exits",
                  "execute_fsm_pipe_impl: after an arm's transitions were applied the arm loop goes on to the next arm instead of leaving (return / break / next step): later arms are still tried after a match")
        # early exits, per kind of arm and per way of leaving (a value is returned / the step is over)
        per_kind = {}
        for (kd, cls), us in exits.items():
            for nm in (kd if kd else ("arm",)):
                per_kind.setdefault((nm, cls), set()).update(us)
        n = 0
        for (nm, cls), us in sorted(per_kind.items()):
            n += 1
            if 0 not in us and 1 in us:
                rep.note("undecided", {"rule": "C17-R5", "what": "arm-loop exit", "why": "leaves the arm loop after a helper that applies a transition only on some paths"})
                continue
            ok = 0 not in us
            rep.check(ok, "C17-R5", "arm-loop-exit:%s:%s" % (nm if nm == "arm" else "FsmArm" + nm, cls) if ok else "arm-loop-left-without-transition",
                      "execute_fsm_pipe_impl: the arm loop is left early (break / continue of the step loop / return) on a path on which no transition was applied: "
                      "when every guard of a matching arm fails, the later arms for the same state are never tried and the machine halts in that state",
                      "execute_fsm_pipe_impl (mech_interpreter.lib)")
        rep.floor("C17-R5", "transition applications inside the arm loop", len(applied_in_trial), 1)
        rep.floor("C17-R5", "early exits of the arm loop examined", n, 1 if kinds else 2)
        site_of_kind = {}
        if kinds:
            stop = {L.header} | (err if ML.returns_result(gb) else set())
            reach = {nm: gb.reachable_from(sorted(tg), avoid=stop) for nm, tg in kinds.items()}
            for nm in with_pattern:
                site_of_kind[nm] = [s for s in sites if any(v[0] == G and v[1] in reach.get(nm, set()) for v in s.views)]
            rep.floor("C17-R5", "arm kinds that can leave the arm loop early", len([nm for nm in with_pattern if reach.get(nm, set()) & leave]), max(2, len(with_pattern)))
            rep.floor("C17-R6", "arm kinds with a pattern that reach a trial match", len([nm for nm in with_pattern if site_of_kind[nm]]), max(2, len(with_pattern)))
        else:
            rep.note("undecided", {"rule": "C17-R5", "what": "arm kinds", "why": "the arm loop does not branch on the kind of arm itself (done in a helper)"})
        # groups of trial-match sites: one per arm kind (a site shared by both kinds is judged for each), plus the sites no kind reaches
        groups = [("FsmArm" + nm, ss) for nm, ss in site_of_kind.items() if ss]
        covered = {id(x) for _, ss in groups for x in ss}
        rest = [x for x in sites if id(x) not in covered]
        if rest:
            groups.append(("arm", rest))
        MSG_FRESH = ("execute_fsm_pipe_impl: the environment that the pattern matcher fills is not created inside the arm loop: bindings made while testing one arm leak into the test of the "
                     "next arm (a later arm that should be the first match can be rejected)")
        for key, ss in groups:
            frs = {x.fresh for x in ss}
            matchers = sorted({x.matcher for x in ss})
            # ---- R2: the arm's environment is fresh
            if frs == {"undecided"}:
                rep.note("undecided", {"rule": "C17-R2", "what": "env-fresh-per-arm", "why": "the arm environment is assigned on some paths only"})
            else:
                ok = "no" not in frs
                rep.check(ok, "C17-R2", "execute_fsm_pipe_impl:env-fresh-per-arm:%s" % key if ok else "execute_fsm_pipe_impl:env-fresh-per-arm", MSG_FRESH,
                          sample={"fn": "execute_fsm_pipe_impl", "matchers": matchers, "arm": key})
            # ---- R3: bindings cleared before every match, on the environment the matcher fills
            rep.check(all(x.cleared for x in ss), "C17-R3", "bindings-cleared-before-match:%s" % key,
                      "an FSM arm matches its pattern without first clearing that pattern's variables from the arm environment: bindings from the previous step become equality constraints")
        # ---- guards iterate forwards
        g = []
        for f, b in clo.fns.items():
            for l in ML.natural_loops(b):
                i2 = l.iter_info()
                if not i2 or "nodes::Guard>" not in i2["type"] and "nodes::Guard," not in i2["type"]:
                    continue
                if any(any(x[0] == G and x[1].header == L.header for x in nest) for nest in clo.loop_nest(f, l.header)):
                    g.append(i2["type"])
        for ty in g:
            rep.check("rev::Rev<" not in ty, "C17-R3", "guard-order", "guards are not tried in forward order: %s" % ty)
        rep.floor("C17-R3", "guard loops", len(g), 1)
        # ---- R6: one obligation per arm kind and matcher
        n6 = 0
        for key, ss in groups:
            for m in sorted({x.matcher for x in ss}):
                sm_ = [x for x in ss if x.matcher == m]
                n6 += 1
                frs = {x.fresh for x in sm_}
                if frs == {"undecided"}:
                    rep.note("undecided", {"rule": "C17-R6", "what": "trial environment", "why": "assigned on some paths only"})
                    continue
                ok = "no" not in frs
                rep.check(ok, "C17-R6", "execute_fsm_pipe_impl:%s:%s" % (m, key) + ("" if ok else ":reused-across-candidates"),
                          "execute_fsm_pipe_impl calls %s(.., &mut env) inside the loop over the arms, but the environment is created outside that loop: bindings left behind by a match that fails "
                          "part-way are still there when the next candidate is matched and reject (or wrongly constrain) it" % m, "execute_fsm_pipe_impl (mech_interpreter.lib)",
                          sample={"fn": "execute_fsm_pipe_impl", "matcher": m, "arm": key})
        rep.floor("C17-R6", "trial-match sites inside candidate loops", n6, 1 if kinds else 2)
    # no unbounded loop reachable: apply_transitions & helpers are loops over slices only; check syn of the fns in state_machines
    sm = [x for x in items if x["k"] == "fn" and x["mod"].endswith("state_machines")]
    for x in sm:
        if x["name"].startswith(("format_", "summarize")):
            continue
        rep.check(not unbounded_in(cg, x), "C17-R1", "no-unbounded-loop:%s" % x["name"], "%s contains an unbounded loop" % x["name"])
    # ---- R2 (MIR): in execute_fsm_pipe the validation calls dominate the call of the executor
    ep = [b for f, b in cg.bodies.items() if f == ENTRY]
    if rep.check(len(ep) == 1, "C17-R2", "anchor:execute_fsm_pipe", "execute_fsm_pipe not found"):
        b = ep[0]
        eclo = ML.Closure(cg, ENTRY, MOD, stop=(r"execute_fsm_pipe_impl$",))
        run_calls = calls_matching(b, r"execute_fsm_pipe_impl$")
        rep.floor("C17-R2", "executor call sites", len(run_calls), 1)
        vs = ML.CallSummary(eclo, r"::validate_fsm_state_coverage$").blocks(b)[0]
        for ri, rt in run_calls:
            rep.check(any(b.dominates(vi, ri) and vi != ri for vi in vs), "C17-R2", "state-coverage-dominates-execution",
                      "execute_fsm_pipe runs the machine (line %d) without a dominating state coverage validation" % rt["l"], "%s:%d" % (b.file, rt["l"]))
        # the argument kind check is found by ROLE (a crate function `(&ValueKind, &ValueKind) -> bool`), not by its name: renaming it is not a change
        from rules.c17_gate import kind_predicates, NameSet
        ks = guard_sites(eclo, b, NameSet(kind_predicates(cg) or {MOD + "fsm_argument_kind_matches"}))
        ok_exits, err_exits = result_exits(b)
        for ri, rt in run_calls:
            good = False
            for ki in ks:
                fwd = b.reachable_from([ki])
                back = b.reachable_from([ri])
                if ri in fwd and ki not in back and (fwd & err_exits):
                    good = True
            rep.check(good, "C17-R2", "argument-kind-check-precedes-execution",
                      "execute_fsm_pipe runs the machine (line %d) without a preceding argument kind check that can exit with Err" % rt["l"], "%s:%d" % (b.file, rt["l"]))
        cov = [f for f in cg.bodies if f == MOD + "validate_fsm_state_coverage"]
        rep.check(bool(cov) and (any(x.endswith("validate_transition_target_state") for x in cg.reach(cov)) or targets_checked_in_loop(cg, cov[0])), "C17-R2", "transition-target-validated",
                  "the up-front validation no longer checks that every transition targets a declared state")
    # ---- R7 (MIR): what the up-front validation CHECKS (start state named / declared, targets of unconditional and of guarded transitions)
    validator_checks(F, rep, cg, adts)
    # K6 on the pattern helpers
    pats = [x for x in items if x["k"] == "fn" and x["mod"].endswith("patterns")]
    n = field_use(rep, "C17-R3", F, crate, pats, F.adts("mech_core.lib"), "nodes::Pattern", lambda f: "Pattern" in f[1], exclude_fns=("summarize_pattern",))
    rep.floor("C17-R3", "pattern traversal arms with sub-pattern fields", n, 3)
    from rules.loopshape import c17_state_set_from_arms
    c17_state_set_from_arms(F, rep)
    from rules.pattern_arity import length_admissibility
    length_admissibility(F, rep, "C17-R8")
    from rules.c17_gate import argument_gate
    argument_gate(F, rep)
    from rules import c17_variants
    c17_variants.run(F, rep)   # R10: transition variants the executor treats alike are validated alike


def unbounded_in(cg, item):
    """`loop` / `while` of a function of the module that is not provably a walk over finite data. A `for` is counted by construction; a `while let Some(x) = it.next()`
    or `loop { match it.next() {..} }` is accepted when the MIR loop is driven by Iterator::next of a finite iterator; everything else (a counter compared against a
    bound, a condition on the state) is reported."""
    syn = [n_[0] for n_ in find(item["body"], "loop")] + [n_[0] for n_ in find(item["body"], "while")]
    if not syn:
        return []
    name = "mech_interpreter::" + "::".join(item["mod"].split("::")[-1:]) + "::" + item["name"]
    bodies = [b for f, b in cg.bodies.items() if f == name or f.startswith(name + "::{closure")]
    if not bodies:
        return syn
    bad = []
    for b in bodies:
        bad += ML.unbounded_loops(b)
    return bad


NAME_RX = re.compile(r"::state_machines::state_name_from_pattern$")
CONTAINS_RX = re.compile(r"hash::set::HashSet::<.*>::contains$")
OPTION_PASS = re.compile(r"::(ok_or_else|ok_or|as_ref|as_deref|cloned|clone|unwrap_or_default|map|and_then|filter|take)$")


def lift_to_root(clo, fn, blk, depth=4):
    """blocks of the closure's root function at which the site (fn, blk) 'happens': the block itself, the block where the Rust closure it lives in is created,
    the call of the module helper it lives in (recursively)"""
    if fn == clo.root:
        return {blk}
    out = set()
    if depth <= 0:
        return out
    m = re.match(r"^(.*)::\{closure#\d+\}$", fn)
    if m and m.group(1) in clo.fns:
        parent = m.group(1)
        for i, st in clo.fns[parent].stmts():
            if st.get("closure") == fn:
                out |= lift_to_root(clo, parent, i, depth - 1)
    for g, i, t in clo.callers.get(fn, []):
        out |= lift_to_root(clo, g, i, depth - 1)
    return out


def validator_checks(F, rep, cg, adts):
    """C17-R7, the checks themselves. Counted by WHAT is checked, not by how many copies of the error construction exist:
       start state without a name is an error; start state that has no arm is an error; the target of every unconditional transition is tested; the target of
       every guarded transition is tested. A test = `set.contains(name)` on a name produced by state_name_from_pattern, one outcome of which can only end in Err."""
    from lib.mirq import Slice, switch_on_call_result
    root = MOD + "validate_fsm_state_coverage"
    if root not in cg.bodies:
        return
    clo = ML.Closure(cg, root, MOD)
    guard_tr = None
    for a in adts:
        if a["name"] == "mech_core::nodes::Guard" and not a["enum"]:
            guard_tr = [i for i, f in enumerate(a["variants"][0]["fields"]) if f[0] == "transitions"]
    start_fields = set()
    for a in adts:
        if a["name"] == "mech_core::nodes::FsmImplementation" and not a["enum"]:
            start_fields = {i for i, f in enumerate(a["variants"][0]["fields"]) if f[0] == "start"}

    def strip(ty):
        return re.sub(r"^(&(mut )?)+", "", ty)
    unnamed = undeclared = False
    target_checks = []      # (fn, block)
    sources = {"unconditional": [], "guarded": []}
    for f, b in clo.fns.items():
        sl = Slice(b, extra_pass=OPTION_PASS)
        okw, err = ML.nonerror_writes(b)
        names = {}          # block of a state_name_from_pattern call -> "start" | "transition" | None
        for i, t in calls_matching(b, NAME_RX):
            kind = None
            if t["args"] and isinstance(t["args"][0], list):
                pl = ML.pointee(b, t["args"][0])
                m = re.match(r"^\*\.(\d+)$", pl[1]) if pl else None
                if m and strip(b.locals[pl[0]]) == "mech_core::nodes::FsmImplementation" and int(m.group(1)) in start_fields:
                    kind = "start"
                elif any("nodes::Transition" in b.locals[l] and "Vec<" not in b.locals[l] for l in sl.locals_feeding(t["args"][0])):
                    kind = "transition"
            names[i] = kind
        contains = [(i, t) for i, t in calls_matching(b, CONTAINS_RX) if (t.get("ga") or [""])[0] == "alloc::string::String"]
        cblocks = {i for i, t in contains}
        for i, t in contains:
            if len(t["args"]) < 2:
                continue
            from_names = {r[2] for r in sl.roots(t["args"][1]) if r[0] == "call" and NAME_RX.search(r[1])}
            sw = switch_on_call_result(b, i, t)
            fails = False
            if sw is not None:
                for tgt in (sw[1], sw[2]):
                    if tgt is None:
                        continue
                    r = b.reachable_from([tgt])
                    if (r & err) and not (r & okw):
                        fails = True
            if not fails:
                continue
            for nb in from_names:
                if names.get(nb) == "start":
                    undeclared = True
                elif names.get(nb) == "transition":
                    target_checks.append((f, i))
        for nb, kind in names.items():
            if kind == "start" and (b.reachable_from([nb], avoid=cblocks) & err):
                unnamed = True
        # where the transitions that are to be checked come from
        used = set()        # locals that are read somewhere (a pattern binding that is never used enumerates nothing)
        for blk in b.blocks:
            for st in blk["s"]:
                used |= {o[0] for o in (st.get("src") or []) if isinstance(o, list)}
            tt = blk["t"]
            if tt["k"] == "call":
                used |= {o[0] for o in tt["args"] if isinstance(o, list)}
            elif tt["k"] == "switch" and isinstance(tt.get("on"), list):
                used.add(tt["on"][0])
        for i, blk in enumerate(b.blocks):
            ops = []
            for st in blk["s"]:
                if st["d"][1] == "" and st["d"][0] not in used and st["d"][0] != 0:
                    continue
                ops += [o for o in (st.get("src") or []) if isinstance(o, list)]
            if blk["t"]["k"] == "call":
                ops += [o for o in blk["t"]["args"] if isinstance(o, list)]
            for l, proj in ops:
                ty = strip(b.locals[l])
                if ty == "mech_core::nodes::FsmArm" and "@Transition.1" in proj:
                    sources["unconditional"].append((f, i))
                elif ty == "mech_core::nodes::Guard" and guard_tr and re.match(r"^\**\.%d($|[^0-9])" % guard_tr[0], proj):
                    sources["guarded"].append((f, i))
    rb = clo.fns[root]
    checks_at = set()
    for f, i in target_checks:
        checks_at |= lift_to_root(clo, f, i)
    rep.check(unnamed, "C17-R7", "start-state:unnamed-rejected",
              "validate_fsm_state_coverage no longer rejects a start pattern that does not name a state (no Err exit between state_name_from_pattern(start) and the membership test)")
    rep.check(undeclared, "C17-R7", "start-state:undeclared-rejected",
              "validate_fsm_state_coverage no longer tests the start state against the set of states that have an arm (with an Err outcome)")
    for kind in ("unconditional", "guarded"):
        at = set()
        for f, i in sources[kind]:
            at |= lift_to_root(clo, f, i)
        ok = bool(at) and bool(checks_at) and bool(rb.reachable_from(sorted(at)) & checks_at)
        rep.check(ok, "C17-R7", "transition-targets-checked:%s" % kind,
                  "validate_fsm_state_coverage does not test the targets of the %s transitions against the set of states that have an arm (%s)" % (
                      kind, "the transitions of that kind are never enumerated" if not at else "no membership test with an Err outcome on a transition's target" if not checks_at else "the test is not reached from where they are enumerated"))


def guard_sites(clo, body, rx, depth=2):
    """blocks of `body` that run the check `rx`: a direct call, or a call of a helper of the closure in which the check can lead to an Err exit"""
    out = []
    # a closure created here (handed to `try_for_each`, `map(..).collect::<Result<..>>()` ...) that runs the check: the check happens where the closure is used
    for i, st in body.stmts():
        cb = clo.fns.get(st.get("closure")) if st.get("closure") else None
        if cb is not None and any(rx.search(x) for _, t in cb.calls() for x in ML.callee_names(t)):
            out.append(i)
    for i, t in body.calls():
        if any(rx.search(x) for x in ML.callee_names(t)):
            out.append(i)
            continue
        h = None
        for g in ML.callee_names(t):
            if g in clo.fns and g != clo.root:
                h = g
        if h is None or depth <= 0:
            continue
        hb = clo.fns[h]
        inner = guard_sites(clo, hb, rx, depth - 1)
        if not inner:
            continue
        ok, err = result_exits(hb)
        if any(hb.reachable_from([k]) & err for k in inner):
            out.append(i)
    return out


def targets_checked_in_loop(cg, cov):
    """the validator (or a helper it calls inside the loop) constructs FsmUndefinedStateError under a loop over the machine's transitions"""
    clo = ML.Closure(cg, cov, MOD)
    for f, b in clo.fns.items():
        for i, s in b.aggs():
            if not s.get("adt", "").endswith("FsmUndefinedStateError"):
                continue
            for nest in clo.loop_nest(f, i):
                if any("nodes::Transition" in (l.iter_type() or "") for _, l in nest):
                    return True
    return False
