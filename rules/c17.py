"""C17 — state machines: bounded transition loop, validation before execution, arm/guard order, per-arm environment,
pattern-binding clearing covers every sub-pattern."""
import re
from lib.facts import CallGraph, find, is_node, path_of, render, render_stmt
from lib.armloop import arm_loops, check_arm_loop, matcher_calls, field_use
from lib.mirq import calls_matching, result_exits, Slice

TECHNIQUE = ("structural rules over the expanded syntax of the FSM main loop (counted loop over max_steps with an Err fall-through, forward arm and guard order, "
             "per-arm environment with binding clearing), MIR dominance of the validation calls over the execution call, K6 field-use completeness of the "
             "pattern helpers the FSM loop relies on")
EXPLANATION = (
    "Decides structural clauses of C17 (narrow): (R1) the transition loop is a `for` over 0..max_steps whose fall-through is the transition-limit Err, and no "
    "`loop`/`while` is reachable from the FSM executor; (R2) argument-count/kind checks and validate_fsm_state_coverage dominate the call that runs the machine; "
    "transition targets are validated where transitions are applied; (R3) arms are tried in forward order, guards in forward order, the first success "
    "breaks/returns; each arm gets a fresh clone of the call environment from which the arm's own pattern variables are cleared before matching, and "
    "the clearing helper visits every sub-pattern (prefix, spread, suffix) - otherwise stale bindings turn into equality constraints. Not decided: the "
    "visited state sequence and payload values (runtime)."
    ' (R5) the FSM arm loop is left by `break` only after a transition was applied (flag set in the same block or break guarded by the flag).'
    " (R6) each FSM arm is tried against its own scratch environment; (R7) the set the start state and transition targets are validated against is built from the implementation's arms and nothing else."
)


def run(F, rep, tier):
    crate = "mech_interpreter.lib"
    items = F.syn(crate)
    rep.rule("C17-R1", "bounded execution: counted loop over max_steps, fall-through is an Err, no unbounded loop in the executor")
    rep.rule("C17-R2", "validation (argument kinds, state coverage) dominates execution")
    rep.rule("C17-R3", "arm and guard order; first success exits; fresh per-arm environment with the arm's bindings cleared; clearing covers every sub-pattern")
    impl = [it for it in items if it["k"] == "fn" and it["name"] == "execute_fsm_pipe_impl"]
    if not rep.check(len(impl) == 1, "C17-R1", "anchor:execute_fsm_pipe_impl", "execute_fsm_pipe_impl not found"):
        return
    it = impl[0]
    body = it["body"]
    fors = [s[1] for s in body if s[0] == "expr" and is_node(s[1]) and s[1][0] == "for"]
    main = [f for f in fors if re.search(r"max_steps", render(f[2]))]
    rep.check(len(main) == 1 and re.match(r"^0\.\.[^=]", render(main[0][2])) is not None, "C17-R1", "bounded-loop",
              "the FSM main loop is not `for _ in 0..max_steps` (found: %s)" % [render(f[2]) for f in fors], sample={"loop": render(main[0][2]) if main else None})
    unb = [n[0] for n in find(body, "loop")] + [n[0] for n in find(body, "while")]
    rep.check(not unb, "C17-R1", "no-unbounded-loop", "execute_fsm_pipe_impl contains an unbounded loop (%s)" % unb)
    if main:
        idx = [i for i, s in enumerate(body) if s[0] == "expr" and s[1] is main[0]][0]
        tail = " ".join(render_stmt(s) for s in body[idx + 1:])
        rep.check("Err(" in tail and "Ok(" not in tail, "C17-R1", "limit-is-error", "running out of steps does not produce an error: `%s`" % tail[:120])
        loops = [l for l in arm_loops(main[0][3], r"\.arms\b") if matcher_calls(l[3])]
        if rep.check(len(loops) == 1, "C17-R3", "arm-loop", "expected one arm loop inside the step loop, found %d" % len(loops)):
            envs, lets = check_arm_loop(rep, "C17", "execute_fsm_pipe_impl", loops[0])
            lb = loops[0][3]
            # every matcher call is preceded (in the same arm) by clear_pattern_bindings on the same env and pattern
            for m in find(lb, "match"):
                for arm in m[2]:
                    mcs = matcher_calls(arm[2])
                    if not mcs:
                        continue
                    clears = [c for c in find(arm[2], "call") if path_of(c[1]) and path_of(c[1]).endswith("clear_pattern_bindings")]
                    for mc in mcs:
                        pat = render(mc[2][0])
                        ok = any(render(c[2][0]) == pat and render(c[2][1]) == render(mc[2][2]) for c in clears)
                        rep.check(ok, "C17-R3", "bindings-cleared-before-match:%s" % re.sub(r"\W+", "", arm[0][1] if arm[0][0] in ("pts", "ppath") else "arm"),
                                  "an FSM arm matches its pattern without first clearing that pattern's variables from the arm environment: bindings from the previous step become equality constraints")
            # guards iterate forwards
            g = [f for f in find(lb, "for") if re.search(r"guards", render(f[2]))]
            for f in g:
                rep.check(not re.search(r"rev\(\)", render(f[2])), "C17-R3", "guard-order", "guards are not tried in forward order: %s" % render(f[2]))
            rep.floor("C17-R3", "guard loops", len(g), 1)
    # no unbounded loop reachable (MIR): apply_transitions & helpers are loops over slices only; check syn of callee fns in state_machines
    sm = [x for x in items if x["k"] == "fn" and x["mod"].endswith("state_machines")]
    for x in sm:
        if x["name"].startswith(("format_", "summarize")):
            continue
        u = [n[0] for n in find(x["body"], "loop")] + [n[0] for n in find(x["body"], "while")]
        rep.check(not u, "C17-R1", "no-unbounded-loop:%s" % x["name"], "%s contains an unbounded loop" % x["name"])
    # R2 (MIR): in execute_fsm_pipe the validation calls dominate the call of the executor
    cg = CallGraph(F, [crate])
    ep = [b for f, b in cg.bodies.items() if f.endswith("state_machines::execute_fsm_pipe")]
    if rep.check(len(ep) == 1, "C17-R2", "anchor:execute_fsm_pipe", "execute_fsm_pipe not found"):
        b = ep[0]
        run_calls = calls_matching(b, r"execute_fsm_pipe_impl$")
        rep.floor("C17-R2", "executor call sites", len(run_calls), 1)
        vs = calls_matching(b, r"validate_fsm_state_coverage$")
        for ri, rt in run_calls:
            rep.check(any(b.dominates(vi, ri) for vi, vt in vs), "C17-R2", "state-coverage-dominates-execution",
                      "execute_fsm_pipe runs the machine (line %d) without a dominating state coverage validation" % rt["l"], "%s:%d" % (b.file, rt["l"]))
        ks = calls_matching(b, r"fsm_argument_kind_matches$")
        ok_exits, err_exits = result_exits(b)
        for ri, rt in run_calls:
            good = False
            for ki, kt in ks:
                fwd = b.reachable_from([ki])
                back = b.reachable_from([ri])
                if ri in fwd and ki not in back and (fwd & err_exits):
                    good = True
            rep.check(good, "C17-R2", "argument-kind-check-precedes-execution",
                      "execute_fsm_pipe runs the machine (line %d) without a preceding argument kind check that can exit with Err" % rt["l"], "%s:%d" % (b.file, rt["l"]))
        cov = [f for f in cg.bodies if f.endswith("state_machines::validate_fsm_state_coverage")]
        rep.check(bool(cov) and any(x.endswith("validate_transition_target_state") for x in cg.reach(cov)), "C17-R2", "transition-target-validated",
                  "the up-front validation no longer checks that every transition targets a declared state")
    # K6 on the pattern helpers
    pats = [x for x in items if x["k"] == "fn" and x["mod"].endswith("patterns")]
    n = field_use(rep, "C17-R3", F, crate, pats, F.adts("mech_core.lib"), "nodes::Pattern", lambda f: "Pattern" in f[1], exclude_fns=("summarize_pattern",))
    rep.floor("C17-R3", "pattern traversal arms with sub-pattern fields", n, 3)
    from rules.loopshape import c17_break_only_after_transition
    c17_break_only_after_transition(F, rep)
    from rules.loopshape import trial_env_fresh
    trial_env_fresh(F, rep, "C17-R6", {"execute_fsm_pipe_impl"}, 2)
    from rules.loopshape import c17_state_set_from_arms
    c17_state_set_from_arms(F, rep)
