"""C08-R15 — distinct variants of a syntax-tree enum are rendered by distinct code.

An emitter that matches on a node enum gives every variant its own rendering.  When two variants are rendered by IDENTICAL code (the same callee on the
same payload, up to the names the patterns bind; or one or-pattern arm) the printed text cannot tell them apart, so the formatted program re-parses to
(at most) one of them: `m{"b"}` (brace subscript: key lookup) printed by the bracket emitter comes back as `m["b"]` (positional index).  The text still
parses and is a fixed point of the formatter, so only the tree comparison shows it.

On the pinned tree no emitter has such a pair (counted on every run); reviewed exceptions would be listed here with a reason each."""
import re
from collections import defaultdict
from lib.facts import find, is_node, render, render_pat

SAME_TEXT_OK = {}   # (emitter, frozenset of variants) -> reason; empty today


def _anon(e, binders):
    if not isinstance(e, list):
        return e
    if is_node(e) and e[0] == "path" and e[1] in binders:
        return ["path", "_"]
    return [_anon(x, binders) for x in e]


def run_r15(F, rep, reach=None):
    rep.rule("C08-R15", "distinct variants of a node enum are rendered by distinct code: no two variants share one arm (or-pattern) or have arm bodies identical up to binder names - "
                        "identical rendering makes the variants indistinguishable in the formatted text, which then re-parses to a different tree")
    n_match = 0
    n_var = 0
    for it in F.syn("mech_syntax.lib"):
        if it["k"] != "method" or "Formatter" not in (it.get("self") or "") or not it.get("body"):
            continue
        if reach is not None and it["name"] not in reach:
            continue
        for m in find(it["body"], "match"):
            groups = defaultdict(set)
            enum = None
            for a in m[2]:
                alts = a[0][1] if a[0][0] == "por" else [a[0]]
                vs = set()
                for alt in alts:
                    mm = re.match(r"^&?\s*(\w+)::(\w+)", render_pat(alt))
                    if mm and mm.group(1)[:1].isupper() and mm.group(1) not in ("Some", "Ok", "Err", "Option", "Result"):
                        enum = mm.group(1)
                        vs.add("%s::%s" % (mm.group(1), mm.group(2)))
                if not vs:
                    continue
                binders = {p[1] for p in find(a[0], "pident")}
                groups[render(_anon(a[2], binders))].update(vs)
            if not groups or enum is None:
                continue
            n_match += 1
            for body, vs in sorted(groups.items()):
                n_var += len(vs)
                if len(vs) == 1:
                    rep.ok("C08-R15", "%s:%s" % (it["name"], sorted(vs)[0]))
                    continue
                key = (it["name"], frozenset(vs))
                if key in SAME_TEXT_OK:
                    rep.ok("C08-R15", "%s:%s:reviewed" % (it["name"], "+".join(sorted(vs))), sample={"reason": SAME_TEXT_OK[key]})
                    continue
                rep.bad("C08-R15", "%s:%s:rendered-alike" % (it["name"], "+".join(sorted(v.split("::")[1] for v in vs))),
                        "Formatter::%s renders %s with identical code `%s`: the formatted text cannot tell these variants apart, so it re-parses to a different tree" % (
                            it["name"], " and ".join(sorted(vs)), body[:80]),
                        "src/syntax/src/formatter.rs (Formatter::%s, expanded line %d)" % (it["name"], it["line"]))
    rep.floor("C08-R15", "emitter matches over node enums", n_match, 35)
    rep.floor("C08-R15", "variants rendered", n_var, 200)
