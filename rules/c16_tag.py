"""C16-R13 - a tagged pattern (`:some(x)`, `:state(a, b)`) only matches a value that carries the SAME tag.

Clause: "the first arm whose pattern matches the arguments" / "covers every variant of its enum": an arm `:b(x) => ..` must not run for the variant `:a(..)`.
Structural fact: in the pattern matcher, for every pattern variant whose payload struct has an IDENTIFYING field (a field that is not itself made of
sub-patterns - today `PatternTupleStruct.name`, found from the ADT, not by name), every way of answering anything but a constant `false`, and every
descent into the sub-patterns, lies behind a test that depends BOTH on that field and on the matched value (path facts of lib/synq.Flow: guard clause,
nested if, match guard, `!=`-return and `==`-continue alike; data dependence through named locals, destructuring and helper arguments by
lib/synverdict.Derive).  A verdict that itself combines the field and the value (`Ok(tag == id && ..)`), or hands the whole payload to a helper, is
accepted.  Not decided: that the test is the right comparison (equality of the hashed name with the variant id / the atom in element 0)."""
import re
from lib.facts import find, is_node, path_of, render
from lib import synq as Q
from lib import synverdict as V

CRATE = "mech_interpreter.lib"
RULE = "C16-R13"


def last(p):
    return re.sub(r"<.*>", "", p or "").split("::")[-1]


def payloads_with_identity(adts, enum_suffix="nodes::Pattern"):
    """variant name -> (payload struct head, [identifying fields]) ; payload struct head -> [identifying fields]"""
    enum, structs = None, {}
    for a in adts:
        if a["enum"] and a["name"].endswith(enum_suffix):
            enum = a
        if not a["enum"]:
            structs[a["name"]] = a
    by_variant, by_struct = {}, {}
    if enum is None:
        return None, by_variant, by_struct
    ename = enum_suffix.split("::")[-1]
    for v in enum["variants"]:
        if len(v["fields"]) != 1:
            continue
        ty = re.sub(r"^alloc::boxed::Box<(.*?)(,.*)?>$", r"\1", v["fields"][0][1])
        st = structs.get(ty)
        if st is None:
            continue
        fields = st["variants"][0]["fields"]
        subs = [f[0] for f in fields if re.search(r"::%s\w*\b" % ename, f[1])]
        ident = [f[0] for f in fields if not re.search(r"::%s\w*\b" % ename, f[1])]
        if subs and ident:
            by_variant[v["name"]] = (ty.split("::")[-1], ident)
            by_struct[ty.split("::")[-1]] = ident
    return ename, by_variant, by_struct


class TagDep:
    """does an expression read an identifying field of the payload binder (or hand the whole payload on)?"""

    def __init__(self, sc, binder, ident):
        self.sc, self.binder, self.ident = sc, binder, ident

    def hit(self, e, _seen=None):
        sc = self.sc
        seen = _seen if _seen is not None else set()
        st = [e]
        while st:
            x = st.pop()
            if not isinstance(x, list):
                continue
            if is_node(x):
                if x[0] == "field" and sc.root(x[1]) is self.binder and sc.binding(Q.strip(x[1])) is self.binder:
                    if x[2] in self.ident:
                        return True
                    continue            # another field of the payload (the sub-pattern list): not the tag
                if x[0] == "path":
                    b = sc.binding(x)
                    if b is self.binder:
                        return True     # the payload as a whole
                    if b is not None and id(b) not in seen:
                        seen.add(id(b))
                        if b.src is not None:
                            st.append(b.src)
                        st.extend(b.assigns)
                    continue
                if x[0] in ("item", "macro"):
                    continue
            st.extend(y for y in x if isinstance(y, list))
        return False


def run(F, rep, fns):
    rep.rule(RULE, "tagged patterns: in the pattern matcher every non-`false` verdict and every descent into the sub-patterns of a pattern variant with an identifying field "
                   "(PatternTupleStruct.name) lies behind a test that depends on that field AND on the matched value")
    items = F.syn(CRATE)
    ename, by_variant, by_struct = payloads_with_identity(F.adts("mech_core.lib"))
    if not rep.check(ename is not None and bool(by_variant), RULE, "anchor:pattern-variants-with-identity", "no Pattern variant with an identifying payload field found in mech_core"):
        return
    fn_items = [it for it in items if it["k"] == "fn" and it.get("body") is not None and it.get("sig")]
    n = 0
    n_desc = 0
    fam_names = set()
    cands = []
    for it in fn_items:
        tys = [p[1] if isinstance(p[1], str) else "" for p in it["sig"]["inputs"]]
        if not re.search(r"\bbool\b", it["sig"].get("ret") or "") or not any(re.search(r"\bValue\b", t) for t in tys):
            continue
        if any(re.search(r"\b%s\b" % ename, t) for t in tys) or any(V.type_head(t) in by_struct for t in tys):
            cands.append(it)
            fam_names.add(it["name"])
    for it in cands:
        names = Q.params(it)
        tys = [p[1] if isinstance(p[1], str) else "" for p in it["sig"]["inputs"]]
        sc = Q.Scope(fns).add_fn(it)
        dv = V.Derive(sc)
        value_bs = [b for b in (V.param_binding(sc, it, nm) for nm, t in zip(names, tys) if nm and re.search(r"\bValue\b", t)) if b is not None]
        pattern_bs = [b for b in (V.param_binding(sc, it, nm) for nm, t in zip(names, tys) if nm and re.search(r"\b%s\b" % ename, t)) if b is not None]
        if not value_bs:
            continue
        leaves, fl = V.value_leaves(it["body"], [], sc)
        regions = []        # (variant, binder, ident fields, tree)
        for m in find(it["body"], "match"):
            if not any(sc.binding(x) in pattern_bs for x in sc.chain(m[1])):
                continue
            for arm in m[2]:
                pat = arm[0]
                for alt in (pat[1] if is_node(pat) and pat[0] == "por" else [pat]):
                    while is_node(alt) and alt[0] in ("pref", "ptype"):
                        alt = alt[2] if alt[0] == "pref" else alt[1]
                    if not (is_node(alt) and alt[0] == "pts" and alt[1].split("::")[-1] in by_variant and len(alt[2]) == 1 and is_node(alt[2][0]) and alt[2][0][0] == "pident"):
                        continue
                    bs = [b for b in sc.decl.get(id(arm), []) if b.name == alt[2][0][1]]
                    if bs:
                        regions.append((alt[1].split("::")[-1], bs[0], by_variant[alt[1].split("::")[-1]][1], arm[2]))
        for nm, t in zip(names, tys):
            if nm and V.type_head(t) in by_struct:
                b = V.param_binding(sc, it, nm)
                if b is not None:
                    regions.append((V.type_head(t), b, by_struct[V.type_head(t)], it["body"]))
        for variant, binder, ident, tree in regions:
            td = TagDep(sc, binder, ident)

            def both(e):
                return td.hit(e) and dv.hits(e, on_binding=lambda b: any(b is v for v in value_bs))

            def guarded(facts):
                return any(both(c) for c, _pol in facts)

            sites = []
            for e, f in leaves:
                if not Q.contains(tree, e):
                    continue
                x = V.unwrap_result(e)
                if x is None or (is_node(x) and x[0] == "bool" and not x[1]):
                    continue
                kind = "descends" if is_node(x) and x[0] == "call" and last(path_of(x[1])) in fam_names else "answers"
                sites.append((kind, x, f))
            leaf_ids = {id(x) for _k, x, _f in sites}
            for _id, (c, f) in fl.sites.items():
                if c[0] == "call" and id(c) not in leaf_ids and last(path_of(c[1])) in fam_names and Q.contains(tree, c):
                    sites.append(("descends", c, f))
            for kind, x, f in sites:
                n += 1
                n_desc += kind == "descends"
                ok = guarded(f) or both(x) or (kind == "answers" and td.hit(x) and is_node(x) and x[0] == "call")
                what = "matches the sub-patterns" if kind == "descends" else "answers `%s`" % render(x)[:50]
                rep.check(ok, RULE, "%s:%s:%s:tag-tested-first" % (it["name"], variant, kind) if ok else "%s:%s:%s:tag-not-tested" % (it["name"], variant, kind),
                          "%s: in the arm for %s::%s the matcher %s without a preceding test that involves both %s and the matched value: a tagged pattern `:t(..)` then "
                          "matches a value with a different tag (another enum variant / another state), so an earlier arm shadows the arm that really matches" % (
                              it["name"], ename, variant, what, " / ".join("%s.%s" % (binder.name, f_) for f_ in ident)),
                          "%s (mech_interpreter.lib)" % it["name"], sample={"fn": it["name"], "variant": variant, "kind": kind})
    # the mechanism, not today's copies: the payload of a tagged value is matched in (at least) two places - enum variant payload, tagged tuple elements
    rep.floor(RULE, "sub-pattern descents of tagged patterns examined", n_desc, 2)
