"""C03-R9 - from the argument vector to the kernel: the index operands arrive in the kernel struct's index fields intact and in subscript order.

Second half of the path C03-R8 starts: `<access compiler>.compile(args)` (front compilers, per-kind dispatcher functions, every arm that builds a kernel struct)
is evaluated concretely (lib/seqeval.py) with the argument vectors C03-R8 observed (their index operands still carry the position tokens of the index values)
and a concrete source matrix of every matrix-capable `Value` variant x `Matrix` storage form.  The kernel struct that comes out must hold, in its fields other
than the source and the output (declaration order, tuple fields component by component), the index operands in subscript order, each with exactly the element
sequence of its index value.  C03-R2 decides that the kernel reads its first index field as the row / linear position and the second as the column; together:
the element the user addressed is the element read.  An Err / panic is an error, not a wrong element."""
import re
from lib import seqeval as SE
from lib.seqeval import SeqEval, Tok, Store, En, Opaque, StructV, NoEval, Panic, elements_of


def operand_signature(v):
    """hashable description of an index operand: variant path, storage form, shape"""
    if isinstance(v, En):
        if len(v.args) == 1:
            return (v.path,) + operand_signature(v.args[0])
        return (v.path,)
    if isinstance(v, Store):
        return (v.form, v.rows, v.cols)
    if isinstance(v, Tok):
        return ("scalar",)
    return (type(v).__name__,)


def flat_components(v):
    if isinstance(v, tuple):
        out = []
        for x in v:
            out += flat_components(x)
        return out
    return [v]


def source_table(index):
    """[(label, builder() -> Value)] : every `Value` variant with a `Matrix<K>` payload (K a primitive) in every storage form of `Matrix`, one shape each"""
    val, mat = index.enums.get("Value"), index.enums.get("Matrix")
    rows = []
    if not val or not mat:
        return rows
    forms = []
    for v in mat["variants"]:
        if len(v["fields"]) == 1:
            m = re.match(r"^Ref<(\w+)<\w+>>$", v["fields"][0][1].replace(" ", ""))
            if m and SE.storage_form(m.group(1)) is not None:
                forms.append((v["name"], m.group(1), SE.storage_form(m.group(1))))
    for v in val["variants"]:
        if len(v["fields"]) != 1:
            continue
        m = re.match(r"^Matrix<(\w+)>$", v["fields"][0][1].replace(" ", ""))
        if not m or m.group(1) not in SE.NUM_KINDS + ("bool",) or m.group(1) == "usize":
            continue
        k = m.group(1)
        for fvar, fty, sf in forms:
            r = 3 if sf[0] is None else sf[0]
            c = 3 if sf[1] is None else sf[1]

            def mk(vn=v["name"], k=k, fvar=fvar, fty=fty, r=r, c=c):
                return En("Value::" + vn, [En("Matrix::" + fvar, [Store(fty, r, c, SE.fill("src", k, r * c))])])
            rows.append(("%s:%s" % (v["name"], fvar), mk))
    return rows


def run_r9(F, rep, index, observed, rule="C03-R9", floor_cases=54, floor_rows=2106):
    """observed: {(compiler struct name, (operand signatures..)): (argv, [(slot j, n elements) for the token-bearing operands], form tuple)} collected by C03-R8"""
    rep.rule(rule, "from the argument vector to the kernel: `<access compiler>.compile(args)` evaluated concretely for every argument vector shape C03-R8 observed x every matrix source "
                   "variant / storage form builds a kernel struct whose index fields hold the index operands in subscript order, each with exactly the element sequence of its index value")
    sources = source_table(index)
    struct_fields = {}
    for crate in ("mech_interpreter.lib",):
        for it_ in F.syn(crate):
            if it_["k"] == "struct":
                struct_fields.setdefault(it_["name"], it_.get("fields") or [])
    n_rows = 0
    undecided = 0
    for (comp, sig), (argv, slots, form) in sorted(observed.items(), key=lambda kv: repr(kv[0])):
        it = index.methods.get("compile", [])
        it = [c for c in it if SE.type_head(c[1].get("self")) == comp]
        if not it:
            rep.note("undecided", {"rule": rule, "case": comp, "why": "no compile method found for the compiler struct"})
            continue
        sigtxt = "/".join(":".join(map(str, s)) for s in sig)
        n_kernel = 0
        for slabel, mk in sources:
            n_rows += 1
            key = "ixkernel:%s:%s:%s" % (comp, sigtxt, slabel)
            ev = SeqEval(index)
            args = [mk()] + [a for a in argv[1:]]
            try:
                r = ev.method(StructV(comp, {}), "compile", [args])
            except Panic:
                rep.ok(rule, key, sample={"case": key, "outcome": "error"})
                continue
            except NoEval as ex:
                undecided += 1
                rep.note("undecided", {"rule": rule, "case": key, "why": "the compile path uses a construct the evaluator does not model (%s)" % ex})
                continue
            k = r
            while isinstance(k, En) and k.path in ("Ok", "Some") and len(k.args) == 1:
                k = k.args[0]
            if isinstance(k, En) and k.path == "Err":
                rep.ok(rule, key, sample={"case": key, "outcome": "error"})
                continue
            if not isinstance(k, StructV):
                undecided += 1
                rep.note("undecided", {"rule": rule, "case": key, "why": "compile returns %r, not a kernel struct" % (k,)})
                continue
            comps = []
            for fname, fv in k.fields.items():
                for c in flat_components(fv):
                    seq = elements_of(c)
                    if seq and all(isinstance(x, Tok) for x in seq) and any(x.src != "src" for x in seq):
                        comps.append((fname, seq))
            bad = None
            decl = dict((f[0], f[1]) for f in struct_fields.get(k.name, []))
            unknown = [f for f, fv in k.fields.items() if any(isinstance(c, Opaque) for c in flat_components(fv)) and "PhantomData" not in decl.get(f, "")]
            if len(comps) != len(slots) and unknown:
                undecided += 1
                rep.note("undecided", {"rule": rule, "case": key, "why": "field(s) %s of %s are built in a way the evaluator does not model" % (unknown, k.name)})
                continue
            if len(comps) != len(slots):
                held = ", ".join("%s=%s" % (f, [repr(x) for x in s][:6]) for f, s in comps) or "none"
                bad = "the kernel %s holds %d index operand(s) (%s) for %d index value(s)" % (k.name, len(comps), held, len(slots))
            else:
                for (fname, seq), (j, n_in) in zip(comps, slots):
                    srcs = {x.src for x in seq}
                    if srcs != {"in%d" % j}:
                        bad = "field `%s` of %s, which the kernel reads as index position %d of the form, holds the operand of subscript %s" % (
                            fname, k.name, slots.index((j, n_in)) + 1, sorted(srcs))
                        break
                    pos = [x.pos for x in seq]
                    if pos != list(range(n_in)):
                        bad = "field `%s` of %s holds elements %s of the index value instead of %s (reordered / truncated on the way from the argument vector)" % (fname, k.name, pos, list(range(n_in)))
                        break
                    if any(op[0] != "as" for x in seq for op in x.ops):
                        bad = "field `%s` of %s holds altered index elements (%s)" % (fname, k.name, [repr(x) for x in seq][:3])
                        break
            n_kernel += 1
            if bad is None:
                rep.ok(rule, key, sample={"case": key, "kernel": k.name, "index_fields": [f for f, _s in comps]})
            else:
                rep.bad(rule, "ixkernel:%s:%s:%s:%s" % (comp, k.name, sigtxt, slabel.split(":")[-1]),
                        "%s.compile with index operands %s (subscript forms [%s]) on a %s source: %s" % (comp, sigtxt, ", ".join(form), slabel, bad), "%s -> %s (mech_interpreter.lib)" % (comp, k.name))
        if not n_kernel:
            # evidence only: the dispatcher compiles this index form, but the compiler it hands the operands to accepts them for no source at all (an error, not a wrong element)
            rep.note("compiles_to_error_for_every_source", {"compiler": comp, "index_operands": sigtxt, "subscript_forms": list(form)})
    rep.floor(rule, "argument-vector shapes observed by C03-R8 that reach an access compiler", len(observed), floor_cases)
    rep.floor(rule, "compile evaluations (argument-vector shape x source variant x storage form)", n_rows, floor_rows)
    rep.analysed = dict(getattr(rep, "analysed", {}) or {}, ixkernel_rows=n_rows, ixkernel_undecided=undecided)
