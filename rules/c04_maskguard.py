"""C04-R8 — a logical mask used as an assignment index is as long as the dimension it indexes, or the statement is rejected before anything is written.

The assignment dispatchers (`impl_assign_*_fxn`) are generated match tables over (sink, [index operands], source).  An arm whose index list contains a
`MatrixBool` operand at position j carries a match guard `mask.len() == sink.<extent of position j>()`; a mask of another length then matches no arm and
the statement fails at compile time of the assignment with `x` untouched.  Without the guard the kernel runs: a longer mask writes every in-range flagged
element and then panics (an error, but `x` is already modified - C04: "an error that leaves x unchanged"), a shorter one silently assigns a prefix.

The rule groups the arms of each dispatcher by (index kinds, scalar / matrix source) - the sink's storage form and the element kind are the generated
dimensions - and requires every arm of every group to carry the guard on every mask position.  Groups that lack it today are genuine defects, confirmed
with inputs (known_findings.json); an arm that loses its guard is a new key."""
import re
from collections import defaultdict
from lib.facts import find, render, render_pat

CRATES = ("mech_core.lib", "mech_interpreter.lib")


def run_r8(F, rep):
    rep.rule("C04-R8", "mask-length guards: every arm of an assignment dispatcher whose index list has a logical mask at position j is guarded by `mask.len() == <sink extent>`, "
                       "so that a mask of the wrong length is rejected before the kernel writes anything (grouped by dispatcher, index kinds and scalar/matrix source)")
    groups = defaultdict(lambda: [0, 0, None])
    for crate in CRATES:
        for it in F.syn(crate):
            if it["k"] not in ("fn", "method") or not it.get("body"):
                continue
            for m in find(it["body"], "match"):
                for a in m[2]:
                    p = a[0]
                    if p[0] != "ptuple" or len(p[1]) != 3 or p[1][1][0] != "pslice":
                        continue
                    sig, masks = [], []
                    for j, e in enumerate(p[1][1][1]):
                        mm = re.match(r"Value::(\w+)", render_pat(e))
                        sig.append(mm.group(1) if mm else "?")
                        if mm and mm.group(1) == "MatrixBool":
                            b = [x[1] for x in find(e, "pident")]
                            masks.append(b[0] if b else None)
                    if not masks:
                        continue
                    sink = [x[1] for x in find(p[1][0], "pident")]
                    src = "matrix-source" if re.match(r"Value::Matrix", render_pat(p[1][2])) else "scalar-source"
                    g = render(a[1]) if a[1] is not None else ""
                    # equalities of extents in the guard connect operands: the mask is guarded when it is connected to the sink (directly, or through the source
                    # whose extents the same guard ties to the sink's)
                    parent = {}

                    def root(x):
                        while parent.get(x, x) != x:
                            x = parent[x]
                        return x
                    for eq in re.finditer(r"\(?\s*(\w+)\.borrow\(\)\.(?:len|nrows|ncols)\(\)\s*==\s*(\w+)\.borrow\(\)\.(?:len|nrows|ncols)\(\)", g):
                        parent[root(eq.group(1))] = root(eq.group(2))
                    ok = bool(sink) and all(b and root(b) == root(sink[0]) for b in masks)
                    key = (it["name"], ",".join(sig), src)
                    groups[key][0 if ok else 1] += 1
                    groups[key][2] = crate
    n_arms = 0
    for (fn, sig, src), (g, ng, crate) in sorted(groups.items()):
        n_arms += g + ng
        k = "%s:[%s]:%s" % (fn, sig, src)
        if ng == 0:
            rep.ok("C04-R8", k + ":mask-length-guarded", sample={"dispatcher": fn, "index": sig, "source": src, "arms": g})
        else:
            rep.bad("C04-R8", k + ":%s-mask-length-unguarded" % ("all-arms" if g == 0 else "some-arms"),
                    "%s: %d of %d arms with index kinds [%s] and a %s take a logical mask without comparing its length with the sink's extent: a mask of the wrong length "
                    "reaches the kernel, which writes part of the matrix before it fails (or assigns a prefix silently)" % (fn, ng, g + ng, sig, src), "%s (%s)" % (fn, crate))
    rep.floor("C04-R8", "assignment dispatcher arms taking a logical mask", n_arms, 600)
    rep.floor("C04-R8", "assignment dispatcher groups (dispatcher x index kinds x source form)", len(groups), 14)
