"""C20-R12 - exact splice: what each iteration of the token expander's line loop appends to the result.

A PATH rule on the MIR CFG of the token expander (the function on the expander's recursion cycle that calls the guarded function
back).  Every append to the accumulator (the String the Ok exit returns) inside the line loop is classified by the PROVENANCE of
what it appends:
    A  the result of a recursive expansion call (the text of the included file)
    B  the line terminator split off the current line: a value selected between a newline constant and "" by a newline test on the
       current line (`strip_suffix('\n')` Some/None, `ends_with('\n')`, `Option::map_or`), or the tail of the line behind its body
    W  the current line as a whole
    P  the current line without its terminator (the other component of the decomposition)
and the clauses are reachability questions: after a recursive call, every path back to the loop head / an Ok exit passes an A and,
behind it, a B; no such path passes a W or P; every path of an iteration that makes no recursive call passes a W (or P and B);
no path passes two A / two W.  A skip that is taken exactly when the skipped text is EMPTY (`if !expanded.is_empty() { push }`)
appends the same text and is accepted.  Nothing here knows a function, a local or a constant's spelling other than the newline itself.
"""
import re
from lib.mirq import Slice, calls_matching, result_exits
from lib.mirfwd import callee_of, reach_cut, deep_locals, emptiness_edges, value_leaves, bool_switches

APPEND_RX = re.compile(r"alloc::string::String::(push_str|push|insert_str|extend|extend_from_within)$|<alloc::string::String as core::ops::arith::AddAssign|"
                       r"String as core::fmt::Write>::write_(str|fmt|char)$|String as core::iter::traits::collect::Extend<")
PREFIX_RX = re.compile(r"<impl str>::(strip_suffix|trim_end_matches|trim_end|trim_right_matches)$")
NL_TEST_RX = re.compile(r"<impl str>::(strip_suffix|ends_with)$")
NL_TEXTS = ('"\\n"', "10", "'\\n'")
EMPTY_TEXTS = ('""',)


def last(fn):
    return fn.split("::")[-1]


def is_nl_const(o):
    return isinstance(o, dict) and str(o.get("c")) in NL_TEXTS and ("char" in str(o.get("t")) or "str" in str(o.get("t")) or o.get("t") is None)


def option_arms(body, local):
    out = []
    for i, blk in enumerate(body.blocks):
        t = blk["t"]
        if t["k"] == "switch" and isinstance(t["on"], list):
            for s in blk["s"]:
                if s.get("rk") == "discr" and s["src"][0][0] == local and s["src"][0][1] == "" and s["d"][0] == t["on"][0]:
                    none_t = [tg for v, tg in t["targets"] if v == 0] or [t["else"]]
                    some_t = [tg for v, tg in t["targets"] if v == 1] or [t["else"]]
                    if none_t[0] != some_t[0]:
                        out.append((i, some_t[0], none_t[0]))
    return out


def edge_dom(body, src, dst, target):
    from lib.mirq import edge_dominates
    return edge_dominates(body, src, dst, target)


STR_METHOD = re.compile(r"<impl str>::|alloc::string::String::|alloc::str::")


def site_value_class(cg, body, op, sites, classify=None):
    """an operand that derives from the result of one of the call terminators `sites`: "A" = it IS that result (Ok payload, through
    `?` / deref / as_str / clone / fmt plumbing), "M" = a str / String method was applied on the way (trimmed, sliced, replaced ..),
    "A?" = something else was (not analysed)"""
    def cl(s, fld):
        if any(s is x for x in sites):
            return ("site", id(s))
        return classify(s, fld) if classify else None
    lv = value_leaves(cg, body, op, cl)
    kinds = {x[0] for x in lv if x[0] != "fn"}
    if "site" in kinds and not (kinds & {"call", "op", "prefix", "tail"}):
        return "A"
    if any(x[0] in ("prefix", "tail") or (x[0] == "call" and STR_METHOD.search(x[1])) for x in lv):
        return "M"
    return "A?"


class LineLoop:
    """the line loop of the token expander and the classification of appended operands"""

    def __init__(self, cg, tb, hb, ht, hsw, none_t, some_t):
        self.cg, self.tb, self.hb, self.ht, self.hsw, self.none_t, self.some_t = cg, tb, hb, ht, hsw, none_t, some_t
        self.sl = Slice(tb)
        # newline tests on the current line: (call term, [(switch, yes_target, no_target)])
        self.nl_tests = []
        for b, t in tb.calls():
            if NL_TEST_RX.search(callee_of(t)) and len(t["args"]) >= 2 and is_nl_const(t["args"][1]) and self.is_item(t["args"][0]):
                arms = option_arms(tb, t["d"][0]) if tb.locals[t["d"][0]].startswith("core::option::Option") else bool_switches(tb, t)
                self.nl_tests.append((t, arms))

    def classify_call(self, s, fld):
        if s is self.ht:
            return ("item",)
        cal = callee_of(s)
        if PREFIX_RX.search(cal) and s["args"] and self.is_item(s["args"][0]):
            return ("prefix", id(s))
        if cal.endswith("<impl str>::split_at") and s["args"] and self.is_item(s["args"][0]) and fld in (0, 1):
            return ("prefix", id(s)) if fld == 0 else ("tail", id(s))
        if re.search(r"Index<.*>>::index$|::get_unchecked$", cal) and s["args"] and self.is_item(s["args"][0]):
            ga = " ".join(map(str, s.get("ga", []))) + " " + self.tb.locals[s["args"][1][0]] if len(s["args"]) > 1 and isinstance(s["args"][1], list) else ""
            if "RangeFrom" in ga:
                return ("tail", id(s))
            if "RangeTo" in ga or "ops::range::Range<" in ga:
                return ("prefix", id(s))
        return None

    def leaves(self, op):
        return value_leaves(self.cg, self.tb, op, self.classify_call)

    def is_item(self, op):
        lv = value_leaves(self.cg, self.tb, op, lambda s, fld: ("item",) if s is self.ht else None)
        return lv == {("item",)}

    def terminator(self, lv):
        """do the leaves describe the terminator split off the current line?  -> True / False / None (not a terminator-like value)"""
        if not lv:
            return None
        if all(x[0] == "tail" for x in lv):
            return True
        if not all(x[0] == "const" for x in lv):
            return None
        nl = [x for x in lv if x[1] in NL_TEXTS]
        em = [x for x in lv if x[1] in EMPTY_TEXTS]
        if not nl or len(nl) + len(em) != len(lv):
            return None
        if not em:
            return False          # a constant newline whatever the line ends with
        tb = self.tb
        for t, arms in self.nl_tests:
            d = t["d"][0]
            for sw, yes, no in arms:
                if all(x[2][0] == "blk" and x[2][1] is not None and edge_dom(tb, sw, yes, x[2][1]) for x in nl) and \
                        all(x[2][0] == "blk" and x[2][1] is not None and edge_dom(tb, sw, no, x[2][1]) for x in em):
                    return True
            if all(x[2][0] == "sel" and x[2][1] == "some" and x[2][2] == d for x in nl) and all(x[2][0] == "sel" and x[2][1] == "none" and x[2][2] == d for x in em):
                return True
        return False

    def classes(self, op, sites):
        """set of classes of one appended operand"""
        out = set()
        if isinstance(op, list):
            dl = deep_locals(self.tb, op)
            if any(s["d"][0] in dl for s in sites):
                out.add(site_value_class(self.cg, self.tb, op, sites))
        lv = self.leaves(op)
        core = {x for x in lv if x[0] not in ("fn",)}
        fmt_consts = set()
        if any(x[0] == "item" for x in core):
            out.add("W" if not any(x[0] in ("prefix", "tail") for x in core) else "P")
        elif any(x[0] == "prefix" for x in core):
            out.add("P")
        term_like = {x for x in core if x[0] in ("const", "tail")}
        tv = self.terminator({x for x in term_like if x[0] == "tail" or x[1] in NL_TEXTS + EMPTY_TEXTS})
        if tv is True:
            out.add("B")
        elif tv is False:
            out.add("N")          # a newline that is not the line's own
        if not out and core:
            out.add("U")
        return out


def append_events(cg, tb, sl, acc, loop, sites, in_loop):
    """[(block, classes)] for every append to an accumulator local inside the loop; helpers that receive `&mut acc` are looked into one
    level (their appended parameters are mapped back to the arguments of the call).  Returns (events, undecided reasons)."""
    events, und = [], []
    for b, t in tb.calls():
        if not in_loop(b):
            continue
        cal = callee_of(t)
        if APPEND_RX.search(cal) and t["args"] and isinstance(t["args"][0], list) and (sl.locals_feeding(t["args"][0]) & acc):
            cls = set()
            for op in t["args"][1:]:
                cls |= loop.classes(op, sites)
            events.append((b, cls, t))
        elif cal in cg.bodies and not any(s is t for s in sites):
            G = cg.bodies[cal]
            ks = [k for k, a in enumerate(t["args"]) if k + 1 <= G.nargs and G.locals[k + 1] == "&mut alloc::string::String" and isinstance(a, list)
                  and (sl.locals_feeding(a) & acc)]
            if not ks:
                continue
            gs = Slice(G)
            cls = set()
            found = False
            for gb, gt in calls_matching(G, APPEND_RX):
                if not any(("arg", k + 1) in gs.roots(gt["args"][0]) for k in ks):
                    continue
                found = True
                always = all(G.dominates(gb, r) for r in G.ret_blocks())
                for op in gt["args"][1:]:
                    lv = value_leaves(cg, G, op)
                    ps = [x[1] for x in lv if x[0] == "arg"]
                    if not always or not ps or len(ps) != len(lv):
                        cls.add("U")
                        continue
                    for p in ps:
                        if p - 1 < len(t["args"]):
                            cls |= loop.classes(t["args"][p - 1], sites)
            if found:
                events.append((b, cls, t))
                if "U" in cls:
                    und.append("an append inside helper %s is conditional or appends a value computed there" % last(cal))
    return events, und


def run_splice(rep, cg, tname, gname, cycle_fns):
    rep.rule("C20-R12", "exact splice (path rule on the MIR of the token expander): after the recursive expansion call every path back to the loop head / the Ok exit "
                        "appends to the returned accumulator the RESULT of that call and then the line terminator split off the current line (a value selected between a newline "
                        "constant and \"\" by a newline test on the current line, or the tail of the line), and does not copy the include line itself; every path of an iteration "
                        "without a recursive call appends the whole current line; each of them once.  A skip taken exactly when the skipped text is empty is accepted.")
    from rules.c20 import LINE_SPLIT, TEXT_TYPES, option_switches
    tb = cg.bodies.get(tname)
    if tb is None:
        return
    sl0 = Slice(tb, extra_pass=LINE_SPLIT)
    text_params = [i for i in range(1, tb.nargs + 1) if tb.locals[i] in TEXT_TYPES]
    loops = []
    for hb, ht in calls_matching(tb, r"Iterator>::next$"):
        if any(("arg", p) in sl0.roots(ht["args"][0]) for p in text_params):
            for sw in option_switches(tb, ht["d"][0]):
                loops.append((hb, ht) + sw)
    rep.floor("C20-R12", "line loop of the token expander", len(loops), 1)
    if len(loops) != 1:
        if len(loops) > 1:
            rep.note("undecided", "C20-R12: %d line loops in the token expander; the splice clauses are not decided" % len(loops))
        return
    hb, ht, hsw, none_t, some_t = loops[0]
    fn = last(tname)
    where = "%s (mech)" % fn
    sl = Slice(tb)
    ok_exits, err_exits = result_exits(tb)
    in_loop = lambda b: edge_dom(tb, hsw, some_t, b)
    # the accumulator: String locals the Ok exits return
    returned = set()
    for b in ok_exits:
        for s in tb.blocks[b]["s"]:
            if s["d"][0] == 0 and s.get("rk") == "agg":
                for o in s["src"]:
                    returned |= {l for l in sl.locals_feeding(o) if tb.locals[l] == "alloc::string::String"}
    acc = {l for l in returned if any(l in sl.locals_feeding(t["args"][0]) for b, t in calls_matching(tb, APPEND_RX) if in_loop(b) and isinstance(t["args"][0], list))}
    if not acc:
        acc = returned
    # a closure that captures the accumulator appends out of sight
    for _, s in tb.stmts():
        if s.get("rk") == "agg" and "closure" in s and any(isinstance(o, list) and (sl.locals_feeding(o) & acc) for o in s["src"]):
            rep.note("undecided", "C20-R12: the accumulator of %s is captured by a closure; the splice clauses are not decided on this shape" % fn)
            return
    # recursion sites: calls in the loop that lead back into the guarded function
    back = {f for f in cg.bodies if f != tname and (f == gname or f in cycle_fns)}
    sites = [t for b, t in tb.calls() if in_loop(b) and callee_of(t) in back]
    indirect = [t for b, t in tb.calls() if in_loop(b) and callee_of(t) in cg.bodies and callee_of(t) not in back and callee_of(t) != tname
                and gname in cg.reach([callee_of(t)])]
    rep.floor("C20-R12", "recursive expansion calls in the line loop of the token expander", len(sites) + len(indirect), 1)
    if indirect:
        rep.note("undecided", "C20-R12: the recursive expansion is reached through helper %s; the splice clauses are not decided on this shape" % sorted({last(callee_of(t)) for t in indirect}))
        return
    if not sites:
        return
    loop = LineLoop(cg, tb, hb, ht, hsw, none_t, some_t)
    events, und = append_events(cg, tb, sl, acc, loop, sites, in_loop)
    blocks = lambda c: {b for b, cls, _ in events if c in cls}
    A, B, W, P, U, N, M = (blocks(c) for c in "ABWPUNM")
    if blocks("A?"):
        rep.note("undecided", "C20-R12: an append in %s derives from the recursive call's result through a call that is not analysed; it is taken as the expansion" % last(tname))
        A |= blocks("A?")
    goal = {hb} | set(ok_exits)
    site_blocks = {b for b, t in tb.calls() if any(t is s for s in sites)}
    # edges taken exactly when the text that would be appended is empty
    def from_site(op):
        return isinstance(op, list) and any(s["d"][0] in deep_locals(tb, op) for s in sites)
    E_A = set(emptiness_edges(tb, from_site))
    E_B = set(emptiness_edges(tb, lambda op: loop.terminator({x for x in loop.leaves(op) if x[0] != "fn"}) is True))
    E_W = set(emptiness_edges(tb, lambda op: loop.is_item(op)))
    for u in und:
        rep.note("undecided", "C20-R12: %s" % u)
    rep.floor("C20-R12", "appends of the recursive call's result to the accumulator", len(A), 1)
    rep.floor("C20-R12", "appends of the current line (whole, or body and terminator) to the accumulator", len(W | P), 1)
    unknown_in_branch = False
    for s in sites:
        sb = [b for b, t in tb.calls() if t is s][0]
        start = [s["t"]] if "t" in s else []
        after = reach_cut(tb, start, avoid={hb})
        tag = last(callee_of(s))
        if U & after:
            unknown_in_branch = True
        # (a) the expansion is appended on every path
        miss_a = reach_cut(tb, start, avoid=A, cut=E_A) & goal
        rep.check(not miss_a, "C20-R12", "%s:include-branch-appends-the-expansion:%s" % (fn, tag),
                  "in %s a path from the successful recursive call of %s (line %d) back to the line loop / the Ok exit does not append the result of that call to the returned "
                  "accumulator%s: the include line is not replaced by the contents of the file" % (fn, tag, s["l"], " (what is appended is a trimmed / sliced / rewritten "
                  "copy of the expansion)" if M & after else ""), "%s:%d" % (tb.file, s["l"]))
        # (b) .. and the terminator of the include line, behind it
        if not (B & after) and (U & after):
            rep.note("undecided", "C20-R12: no append in the include branch of %s was recognised as the line terminator, and one append there is of an unrecognised form; "
                                  "the line-end clause is not decided" % fn)
        else:
            miss_b = reach_cut(tb, start, avoid=B, cut=E_B) & goal
            order = set()
            for a in A & after:
                ev = [cls for b, cls, _ in events if b == a]
                if any("B" in cls for cls in ev):
                    continue
                order |= reach_cut(tb, tb.succ(a), avoid=B, cut=E_B) & goal
            why = "no append of a line terminator at all" if not (B & after) else "a `continue` / early exit / branch skips it" if miss_b else "the terminator is appended in front of the expansion only"
            if N & after and not (B & after):
                why = "the newline appended there is a constant, not the terminator split off the current line (a last line without a line end gains one)"
            rep.check(not miss_b and not order, "C20-R12", "%s:include-branch-keeps-the-line-end:%s" % (fn, tag),
                      "in %s a path from the successful recursive call of %s (line %d) back to the line loop / the Ok exit does not append the line terminator split off the current "
                      "line behind the expansion (%s): the include line loses its line end, e.g. an include of an empty file swallows its line and joins the neighbouring paragraphs"
                      % (fn, tag, s["l"], why), "%s:%d" % (tb.file, s["l"]))
        # (c) the include line itself is not copied
        copied = (W | P) & after
        rep.check(not copied, "C20-R12", "%s:include-line-not-copied:%s" % (fn, tag),
                  "in %s the current line is appended to the result on a path behind the recursive call of %s (line %d): the include line stays in the text next to its expansion"
                  % (fn, tag, s["l"]), "%s:%d" % (tb.file, s["l"]))
        # (d) the expansion once
        twice = set()
        for a in A & after:
            twice |= reach_cut(tb, tb.succ(a), avoid={hb}) & (A - {a})
        rep.check(not twice, "C20-R12", "%s:expansion-appended-once:%s" % (fn, tag),
                  "in %s the result of the recursive call of %s is appended more than once on a path" % (fn, tag), "%s:%d" % (tb.file, s["l"]))
    # (e) an iteration without a recursive call copies its line: whole, or body and terminator
    if U and not unknown_in_branch and not W and not (P and B):
        rep.note("undecided", "C20-R12: no append of the whole current line was recognised in %s and one append is of an unrecognised form; the plain-line clause is not decided" % fn)
    else:
        miss1 = reach_cut(tb, [some_t], avoid=site_blocks | W | P, cut=E_W) & goal
        miss2 = reach_cut(tb, [some_t], avoid=site_blocks | W | B, cut=E_W | E_B) & goal
        rep.check(not miss1 and not miss2, "C20-R12", "%s:plain-line-copied-whole" % fn,
                  "in %s an iteration of the line loop that expands nothing can end without the whole current line (body and line terminator) having been appended to the "
                  "returned accumulator: text outside includes is lost or loses its line end" % fn, where)
        twice = set()
        for w in W:
            twice |= reach_cut(tb, tb.succ(w), avoid={hb}) & ((W | P) - {w})
        rep.check(not twice, "C20-R12", "%s:plain-line-copied-once" % fn, "in %s the current line is appended more than once on a path" % fn, where)
    rep.check(True, "C20-R12", "%s:append-classes" % fn, "", where,
              sample={"expansion": sorted(A), "terminator": sorted(B), "whole_line": sorted(W), "line_body": sorted(P), "constant_newline": sorted(N), "unrecognised": sorted(U),
                      "newline_tests": len(loop.nl_tests)})


def run_result_sites(rep, cg, cycle_fns, gname):
    """C20-R12, sibling sites: EVERY call of a function on the expander's recursion cycle that returns the expanded text (Result<String, _>)
    - the token expander's recursive call, the guarded function's calls of the token expander (in-loop flush, final flush, a flush
    helper), the entry wrapper - hands the text on unchanged on every success path: the call is the function's own return value, or
    every path from it to an Ok exit / back to the enclosing loop head passes an append of exactly that result to a String (an
    append skipped exactly when the result is empty is accepted), or the Ok exit returns it."""
    n = 0
    verdict = {}          # key -> [ok?, message, where]: one obligation per (calling function, expander function) pair

    def settle(key, ok, msg="", where=""):
        v = verdict.setdefault(key, [True, "", ""])
        if not ok and v[0]:
            v[:] = [False, msg, where]
    for fname in sorted(cg.bodies):
        X = cg.bodies[fname]
        sl = None
        for b, t in X.calls():
            cal = callee_of(t)
            if cal not in cycle_fns or not cg.bodies[cal].locals[0].startswith("core::result::Result<alloc::string::String"):
                continue
            n += 1
            key = "%s:expansion-result-handed-on:%s" % (last(fname) if "{closure" not in fname else fname.split("::")[-2] + "::closure", last(cal))
            where = "%s:%d" % (X.file, t["l"])
            if t["d"][0] == 0 and t["d"][1] == "":
                settle(key, True)
                continue
            sl = sl or Slice(X)
            ok_exits, _ = result_exits(X)
            heads = {hb for hb, _ in calls_matching(X, r"Iterator>::next$") if X.dominates(hb, b) and hb in X.reachable_from([t["t"]] if "t" in t else [])}
            strict, loose, modified = set(), set(), set()
            for ab, at in calls_matching(X, APPEND_RX):
                for op in at["args"][1:]:
                    if isinstance(op, list) and t["d"][0] in deep_locals(X, op):
                        c = site_value_class(cg, X, op, [t])
                        (strict if c == "A" else modified if c == "M" else loose).add(ab)
            goal = set(heads)
            for e in ok_exits:
                payload = [o for s in X.blocks[e]["s"] if s["d"][0] == 0 and s.get("rk") == "agg" for o in s["src"]]
                if any(isinstance(o, list) and t["d"][0] in deep_locals(X, o) and site_value_class(cg, X, o, [t]) == "A" for o in payload):
                    continue
                goal.add(e)
            E = set(emptiness_edges(X, lambda op: isinstance(op, list) and t["d"][0] in deep_locals(X, op)))
            start = [t["t"]] if "t" in t else []
            miss = reach_cut(X, start, avoid=strict | loose, cut=E) & goal
            handed = [t2 for _, t2 in X.calls() if t2 is not t and callee_of(t2) in cg.bodies and any(isinstance(a, list) and t["d"][0] in deep_locals(X, a) for a in t2["args"])]
            if miss and (handed or loose):
                rep.note("undecided", "C20-R12: the result of %s in %s is handed to %s; whether it reaches the output unchanged is not decided" % (
                    last(cal), last(fname), sorted({last(callee_of(x)) for x in handed}) or "a call that is not analysed"))
                continue
            if loose and not miss:
                rep.note("undecided", "C20-R12: the result of %s in %s is appended through a call that is not analysed; it is taken as unchanged" % (last(cal), last(fname)))
            settle(key, not miss,
                      "in %s a path from the successful call of %s (line %d) to the Ok exit / back to the loop head does not append exactly the text that call returned to the output%s: "
                      "the spliced text is not the expansion of the included text" % (last(fname), last(cal), t["l"], " (a trimmed / sliced / rewritten copy is appended)" if modified else ""), where)
    for key in sorted(verdict):
        rep.check(verdict[key][0], "C20-R12", key, verdict[key][1], verdict[key][2])
    rep.floor("C20-R12", "(caller, expander function) pairs whose call returns the expanded text", len(verdict), 3)
