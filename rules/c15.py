"""C15 - ranges are the arithmetic progressions they denote (structural clauses decided over finite tables)."""
import math
import re
from lib.facts import find, walk, is_node, path_of, render, render_pat
from lib.ministmt import Machine, Mat, TI, NoEval, Panic, Return

EXPLANATION = (
    "Decides three clauses of C15 without running the program. (R1) element count: for each of the four range forms and every numeric kind, the arm of the range dispatcher that computes "
    "the length of the result (`diff`, `size`: closed arithmetic on from/step/to) is evaluated with fixed-width integer semantics over a finite table of operands - small values on and off "
    "the grid, single-element and empty ranges, fractional bounds and steps for the float kinds, and the minimum/maximum of each integer kind - and compared with the number of terms of the "
    "progression a, a+s, a+2s, .. before b (exclusive) / up to b (inclusive); where no term exists an error or the empty vector is accepted, and descending ranges are not decided. "
    "(R2) fill: the four kernels are executed over a table of (length, from, step, terminal on / off the grid) and must write out[i] = from + i*step for every i exactly once (never the terminal operand itself). "
    "(R3) routing: range() hands (start, [increment,] terminal) to the exclusive / inclusive (increment) compilers according to the operator token. "
    "Not decided: floating-point rounding of long progressions, descending ranges, ranges used as indices."
    " (R4) operand forwarding: in every arm of every range compiler (the direct attempt and each fallback arm that dereferences variable operands) the i-th argument of the dispatcher call derives from the i-th operand and no other (start, [step,] end)."
    " (R5) scope forwarding: the evaluator of a range node hands the local environment it receives to the evaluation of every operand (start, step, end): no sub-evaluator call passes the literal None in its environment position, so an operand bound by a pattern, a generator or a qualifier is not resolved against the globals."
)
TECHNIQUE = ("finite-table evaluation (a concrete mini-interpreter over the syntax tree of the expanded crate, fixed-width integer overflow modelled) of the closed length arithmetic in each "
             "dispatcher arm and of the four fill kernels, compared with the progression the property states; routing table extracted from range(); operand-position flow analysis of every range compiler's "
             "dispatcher calls (direct attempt and each dereferencing fallback arm)")

FORMS = {"impl_range_exclusive_fxn": ("excl", False), "impl_range_inclusive_fxn": ("incl", False),
         "impl_range_increment_exclusive_fxn": ("excl", True), "impl_range_increment_inclusive_fxn": ("incl", True)}
INT = {"U8": (0, 2 ** 8 - 1), "U16": (0, 2 ** 16 - 1), "U32": (0, 2 ** 32 - 1), "U64": (0, 2 ** 64 - 1), "U128": (0, 2 ** 128 - 1),
       "I8": (-2 ** 7, 2 ** 7 - 1), "I16": (-2 ** 15, 2 ** 15 - 1), "I32": (-2 ** 31, 2 ** 31 - 1), "I64": (-2 ** 63, 2 ** 63 - 1), "I128": (-2 ** 127, 2 ** 127 - 1)}
FLOAT = ("F32", "F64")


def expected(form, a, s, b):
    """number of terms of a, a+s, .. before b (excl) / up to b (incl); None = not decided (descending / zero step)"""
    if s == 0:
        return 0
    if s < 0:
        return None
    if b < a:
        return 0
    q = (b - a) / s if isinstance(a, float) or isinstance(b, float) or isinstance(s, float) else None
    if form == "excl":
        if q is None:
            return max(0, -((a - b) // s))            # ceil((b-a)/s) for ints
        return max(0, math.ceil(q))
    if q is None:
        return (b - a) // s + 1
    return math.floor(q) + 1


def table(kind, tier):
    if kind in INT:
        lo, hi = INT[kind]
        base = [0, 1, 2, 3, 5, 7, 10]
        vals = sorted(set([v for v in base if lo <= v <= hi] + ([-1, -3] if lo < 0 else []) + [hi, hi - 1, hi - 3] + ([lo, lo + 1] if lo < 0 else [])))
        steps = [0, 1, 2, 3, 4]
        if tier == "thorough":
            vals = sorted(set(vals + list(range(0, 13))))
            steps += [5, 7]
        return [(a, s, b) for a in vals for b in vals for s in steps]
    vals = [0.0, 0.5, 1.0, 2.0, 2.5, 3.0, 3.2, 4.0, 7.75, -1.0, -0.5]
    steps = [1.0, 0.5, 2.0, 0.25, 1.5, 0.0]
    if tier == "thorough":
        vals += [0.25, 1.75, 5.5, 10.0, -3.25]
        steps += [0.75, 3.0]
    return [(a, s, b) for a in vals for b in vals for s in steps]


def run(F, rep, tier):
    _run(F, rep, tier)
    from rules.c15_forward import run_r4
    run_r4(F, rep)
    # R5: the operands of a range are evaluated in the caller's environment (scope forwarding; the evaluators of range nodes are found by parameter type)
    from rules import scope_forward
    nc, ns = scope_forward.run(F, rep, "C15-R5", judged=lambda it: any("Range" in str(t) for _, t in it["sig"]["inputs"]), what="range evaluators")
    rep.floor("C15-R5", "range evaluators that receive the local environment", nc, 1)
    rep.floor("C15-R5", "sub-evaluator calls of the range evaluators with an environment position", ns, 2)


def _run(F, rep, tier):
    crate = "mech_range.lib"
    rep.rule("C15-R1", "element count: the length arithmetic of every range dispatcher arm equals the number of terms of the progression, over a finite table of operands per kind "
                       "(fixed-width integer semantics; error / empty accepted where no term exists; descending ranges not decided)")
    rep.rule("C15-R2", "fill: the range kernels write out[i] = from + i*step (step = 1 for the plain forms) for every position exactly once")
    rep.rule("C15-R3", "routing: range() passes start, increment, terminal in that order to the compiler chosen by the operator (exclusive / inclusive, with / without increment)")
    items = F.syn(crate)
    fns = {it["name"]: it for it in items if it["k"] == "fn" and it["name"] in FORMS}
    if not rep.check(len(fns) == 4, "C15-R1", "anchor:range-dispatchers", "expected the four range dispatchers, found %s" % sorted(fns)):
        return
    n_arms = n_eval = 0
    undecided = {}
    for fname, it in sorted(fns.items()):
        form, has_step = FORMS[fname]
        ms = [m for m in find(it["body"], "match") if len(m[2]) >= 8]
        if not rep.check(len(ms) >= 1, "C15-R1", "anchor:%s-arms" % fname, "%s has no kind ladder" % fname):
            continue
        for arm in ms[0][2]:
            p = arm[0]
            if p[0] != "ptuple":
                continue
            kinds = re.findall(r"Value::(\w+)\(", render_pat(p))
            binders = [b[1] for b in find(p, "pident")]
            if not kinds or len(set(kinds)) != 1 or len(binders) != (3 if has_step else 2):
                continue
            kind = kinds[0]
            if kind not in INT and kind not in FLOAT:
                continue
            body = arm[2][1] if is_node(arm[2]) and arm[2][0] == "block" else None
            if body is None:
                continue
            cut = None
            for i, st in enumerate(body):
                if st[0] == "let" and any(x[1] == "size" for x in find(st[1], "pident")):
                    cut = i          # the last (re)binding of `size` before it is used for the allocation
            if cut is None:
                undecided["%s:%s" % (fname, kind)] = "no `let size`"
                continue
            n_arms += 1
            stmts = body[:cut + 1]
            bad = None
            und = None
            n_dec = 0
            for (a, s, b) in table(kind, tier):
                if kind in INT:
                    lo, hi = INT[kind]
                    if not (lo <= a <= hi and lo <= b <= hi and lo <= s <= hi):
                        continue
                    mk = lambda v: TI(v, lo, hi)
                    kenv = TI(0, lo, hi)
                else:
                    mk = float
                    kenv = "float"
                env = {"$kind": kenv}
                vals = [mk(a), mk(s), mk(b)] if has_step else [mk(a), mk(b)]
                for nme, v in zip(binders, vals):
                    env[nme] = v
                m = Machine(env)
                want = expected(form, a, s if has_step else (1 if kind in INT else 1.0), b)
                try:
                    m.block(stmts)
                    got = m.env.get("size")
                    outcome = ("size", got)
                except Return as r_:
                    outcome = ("error", r_.value[1] if isinstance(r_.value, tuple) else "?")
                except Panic as e_:
                    outcome = ("error", "panic: %s" % e_)
                except NoEval as e_:
                    und = str(e_)
                    break
                n_eval += 1
                if want is None or want > 2 ** 31:
                    continue          # descending range, or a vector no machine can hold: not decided
                n_dec += 1
                ok = (outcome[0] == "size" and outcome[1] == want) or (want == 0 and outcome[0] == "error")
                if not ok and bad is None:
                    spell = ("%s..%s..%s%s" % (a, s, "=" if form == "incl" else "", b)) if has_step else ("%s..%s%s" % (a, "=" if form == "incl" else "", b))
                    bad = "%s<%s>: the progression has %d term(s) but the dispatcher %s" % (spell, kind.lower(), want, "allocates %s" % outcome[1] if outcome[0] == "size" else "fails with %s" % outcome[1])
                    badkey = "%s:%s:%s" % (fname.replace("impl_range_", "").replace("_fxn", ""), kind, "size-%s-for-%d" % (outcome[1], want) if outcome[0] == "size" else "error-for-%d-terms" % want)
                    badkey = re.sub(r"[^A-Za-z0-9:_-]+", "-", badkey)[:90]
            if und:
                undecided["%s:%s" % (fname, kind)] = und
                rep.bad("C15-R1", "undecided:%s:%s" % (fname, kind), "the length arithmetic of %s for %s could not be evaluated (%s)" % (fname, kind, und), "%s (%s)" % (fname, crate))
                continue
            rep.check(bad is None, "C15-R1", "%s:%s" % (fname.replace("impl_range_", "").replace("_fxn", ""), kind) if bad is None else badkey,
                      "%s, arm %s: %s - the range has missing or extra elements (or is rejected although it can be built)" % (fname, kind, bad), "%s (%s)" % (fname, crate),
                      sample={"fn": fname, "kind": kind, "decided_operand_triples": n_dec})
    rep.floor("C15-R1", "dispatcher arms evaluated", n_arms, 40)
    rep.floor("C15-R1", "operand combinations evaluated", n_eval, 2000)

    # ---- R2 kernels
    n_k = 0
    for it in items:
        if it["k"] != "method" or it["name"] != "solve" or not it.get("body"):
            continue
        th = re.sub(r"<.*$", "", it["self"])
        if not th.startswith("Range"):
            continue
        n_k += 1
        has_step = "Increment" in th
        bad = None
        und = None
        # plain integers, and u8 operands ending at the kind's maximum (the last element is 255: nothing may be computed beyond it)
        cases = [(n, a, s, None) for n in (1, 2, 3, 5) for a in (0, 3, -2) for s in ((1, 2, 5) if has_step else (1,))]
        if "Inclusive" in th:
            cases += [(n, 255 - s * (n - 1), s, (0, 255)) for n in (1, 3) for s in ((1, 2) if has_step else (1,))]       # a..=255
        elif has_step:
            cases += [(2, 251, 3, (0, 255)), (3, 250, 2, (0, 255))]                                                      # 251..3..255 = 251, 254
        else:
            cases += [(n, 254 - (n - 1), 1, (0, 255)) for n in (1, 3)]                                                   # a..255 ends at 254
        for (n, a, s, width) in cases:
            # the terminal operand: on the grid, and (unbounded kinds only, i.e. the float instances) strictly between the last term and the next
            # grid point - the count the dispatcher allocated is n for both, so the kernel must write the same n terms and never the terminal itself
            _last = a + s * (n - 1)
            _offs = [0] + ([] if width else [0.5]) + ([1.0 / s] if s > 1 and (not width or _last + 1 <= width[1]) else [])   # x s below: +s/2 (floats), +1 (integer steps > 1)
            for to_off in _offs:
                for _once2 in (0,):
                    mk = (lambda v: TI(v, width[0], width[1])) if width else (lambda v: v)
                    env = {"self.out": Mat("out", 1, n), "self.from": mk(a), "self.to": mk(a + s * (n - 1) + (int(round(to_off * s)) if to_off * s == int(to_off * s) else to_off * s)), "self.step": mk(s), "$kind": mk(0)}
                    m = Machine(env)
                    try:
                        m.call(it["body"])
                    except (NoEval,) as e_:
                        und = str(e_)
                        break
                    except Panic as e_:
                        bad = "length %d from %d step %d%s: panics (%s)" % (n, a, s, " (u8, last element = 255)" if width else "", e_)
                        break
                    got = {}
                    dup = False
                    for (mn, ix, v) in m.writes:
                        if ix in got:
                            dup = True
                        got[ix] = v
                    want = {i: a + i * s for i in range(n)}
                    if got != want or dup:
                        bad = "length %d from %d step %d%s: writes %s, expected %s" % (n, a, s, " terminal off the grid (%s)" % (a + s * (n - 1) + to_off * s) if to_off else "", [got.get(i) for i in range(n)], [want[i] for i in range(n)])
                        break
                if bad or und:
                    break
            if bad or und:
                break
        if und:
            rep.bad("C15-R2", "undecided:%s" % th, "%s::solve could not be evaluated (%s)" % (th, und), "%s (%s)" % (th, crate))
            continue
        rep.check(bad is None, "C15-R2", th if bad is None else "%s:fills-wrong" % th,
                  "%s::solve does not fill the progression: %s" % (th, bad), "%s (%s)" % (th, crate), sample={"kernel": th})
    rep.floor("C15-R2", "range kernels evaluated", n_k, 4)

    # ---- R3 routing in the interpreter
    rng = [it for it in F.syn("mech_interpreter.lib") if it["k"] == "fn" and it["name"] == "range" and it.get("body")]
    if rep.check(len(rng) == 1, "C15-R3", "anchor:range()", "interpreter range() not found (%d)" % len(rng)):
        body = rng[0]["body"]
        structs = {}
        for s_ in find(body, "struct"):
            nm = s_[1].split("::")[-1]
            if nm.startswith("Range"):
                structs[nm] = s_
        # the compiler chosen per operator arm: arms of the match on the operator
        n_r = 0
        for m_ in find(body, "match"):
            for arm in m_[2]:
                pt = render_pat(arm[0])
                mm = re.search(r"RangeOp::(\w+)", pt)
                if not mm:
                    continue
                op = mm.group(1)
                used = sorted({s_[1].split("::")[-1] for s_ in find(arm[2], "struct") if s_[1].split("::")[-1].startswith("Range")})
                if not used:
                    continue
                n_r += 1
                want_incl = op.lower().startswith("incl")
                ok = all(("Inclusive" in u) == want_incl and ("Exclusive" in u) != want_incl for u in used)
                rep.check(ok, "C15-R3", "route:%s" % op if ok else "route:%s->%s" % (op, ",".join(used)),
                          "range(): operator %s is compiled with %s" % (op, used), "range (mech_interpreter.lib)", sample={"op": op, "compilers": used})
                # argument order: [start, (increment,) terminal]
                for c in find(arm[2], "mcall"):
                    if c[2] == "compile" and c[4]:
                        args = render(c[4][0])
                        # roles by provenance, not by spelling: a local stands for the field of the range node (start / increment / terminal) its initialiser reads
                        role = {}
                        for _ in range(3):
                            for n_ in walk(body):
                                if not is_node(n_) or n_[0] not in ("let", "letc") or len(n_) < 3 or n_[2] is None:
                                    continue
                                txt = render(n_[2])
                                f_ = re.search(r"\.(start|increment|terminal)\b", txt)
                                r_ = f_.group(1) if f_ else next((role[x] for x in re.findall(r"[A-Za-z_]\w*", txt) if x in role), None)
                                if r_:
                                    for p_ in walk(n_[1]):
                                        if is_node(p_) and p_[0] == "pident" and p_[1] not in role:
                                            role[p_[1]] = r_
                        names = [role[x] for x in re.findall(r"[A-Za-z_]\w*", args) if x in role]
                        if len(names) >= 2:
                            order_ok = names[0].startswith("start") and names[-1].startswith(("terminal", "end"))
                            rep.check(order_ok, "C15-R3", "args:%s" % op if order_ok else "args:%s:%s" % (op, "-".join(names)),
                                      "range(): operator %s passes its operands as %s (expected start, [increment,] terminal)" % (op, names), "range (mech_interpreter.lib)")
        rep.floor("C15-R3", "operator arms routed", n_r, 2)
    rep.analysed = {"dispatcher_arms": n_arms, "evaluations": n_eval, "kernels": n_k, "undecided": undecided}
