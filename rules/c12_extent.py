"""C12-R9 / R10 / R11 - "converting a matrix converts every element and keeps its shape" (and: a reshape / broadcast produces exactly the
requested shape), decided on the MIR of the conversion builders.

The conversion kernels whose iteration space is the OUTPUT buffer (`for (dst, src) in out.iter_mut().zip(arg.iter())` - `zip` stops silently at
the shorter side - and `for dst in out.iter_mut()`) produce a value whose shape is whatever the builder ALLOCATED for `out`.  Necessary
condition of the clause, visible without running anything: at every construction site of such a struct the output buffer has the shape the
site stands for -

  R9   (extent positions) every allocation with dynamic extents made in the conversion module - an nalgebra constructor of a type with `Dyn`
       dimensions, or a Mech function whose usize parameters are, by its own body, the row / column extents of such constructors
       (`Matrix::from_vec(v, rows, cols)`) - takes its ROW extent from position 0 and its COLUMN extent from position 1 of one shape list
       (`[rows, cols]`), never from the other position, and both from the same list;
  R10  (output form) at a construction site of an output-bounded conversion struct the output type's FIXED dimensions (`Const<k>`: the 1 of a
       column / row vector, the 2x3 of a static matrix) are implied by the path (a `match` on the requested shape took the arm `.. == k`) or
       - in a builder that never tests its shape list - are the fixed dimensions of the source's own storage form; a constant extent handed to
       a dynamic dimension must be implied by the path in the same way;
  R11  (shape contract) a builder that allocates from a shape list it never tests relies on that list BEING the source's shape: every call
       passes the source's own `shape()` or a list compared equal to it in both positions on every path to the call.

Sites, builders and callers are enumerated from the code: output-bounded structs from the kernel normal forms (lib/kernel.py), their
construction sites from the MIR aggregates, allocations from the resolved nalgebra constructor paths, roles from types and positions.
Private helpers are expanded at MIR level (lib/mirinline.py).  No local name, source line or source text enters a verdict or a key."""
import re
from collections import defaultdict

from lib.facts import CallGraph
from lib.kernel import Kernel, Unrecognised, roots_in
from lib.mirflow import callee
from lib.mirinline import inline_body
from lib.mirextent import Extents, na_dims, na_elem, dims_text, ctor_extents, every_path_uses, show_value, show_list, count_of

CRATE = "mech_interpreter.lib"
CORE = "mech_core.lib"
PREFIX = "mech_interpreter::"
CONVERT_MOD = "::stdlib::convert::"
POS = ("row", "column")


def short(t):
    t = re.sub(r"(\w+::)+", "", t or "")
    return re.sub(r"\s+", "", t)


def output_bounded_structs(S):
    """{adt def path: (struct name, 'map' | 'fill')}: conversion structs whose kernel writes `out[i]` in loops that range over the output itself
    (alone, or zipped with the source, where `zip` ends at the shorter side): the number of elements produced is decided by the allocation of `out`"""
    out = {}
    for (c, name), fs in S.items():
        if not (fs.mod or "").startswith("stdlib::convert") or fs.solve is None or "out" not in dict(fs.fields):
            continue
        try:
            k = Kernel(fs.solve, fs.fields)
        except Unrecognised:
            continue
        ws = [e for e in k.effects if e.kind == "write"]
        if len(ws) != 1 or len(k.effects) != 1:
            continue
        w = ws[0]
        if not (w.target[0] == "elem" and w.target[1] == ("root", "out")):
            continue

        def over_out(lp):
            if lp[0] == "iter":
                return lp[2] == ("root", "out")
            if lp[0] == "zip":
                return any(over_out(x) for x in lp[2])
            return False
        if not w.loops or not all(over_out(lp) for lp in w.loops):
            continue
        kind = "map" if any(lp[0] == "zip" for lp in w.loops) else "fill"
        out["mech_interpreter::%s::%s" % (fs.mod, name)] = (name, kind)
    return out


def _own_shape(L, msrc):
    """L is the result of `shape()` called on (a field / copy / borrow of) the parameter the matrix operand comes from"""
    return L[0] == "call" and L[1].split("::")[-1] == "shape" and msrc is not None and L[2] == msrc and L[3] == ""


class Roles:
    """extent roles of Mech functions: {parameter index (1-based): 0 row | 1 column} when, by the function's own body, that usize parameter is
    handed on unchanged as the row / column extent of an nalgebra constructor (directly or through another such function)"""

    def __init__(self, cg):
        self.cg = cg
        self.memo = {}

    def of(self, fn, depth=2):
        if fn in self.memo:
            return self.memo[fn]
        self.memo[fn] = None
        b = self.cg.bodies.get(fn)
        if b is None or not fn.startswith("mech_") or len(b.blocks) > 600 or b.nargs < 2:
            return None
        if sum(1 for i in range(1, b.nargs + 1) if b.locals[i] == "usize") < 1:
            return None
        ex = Extents(b)
        roles = defaultdict(set)
        for blk, t in b.calls():
            for p, o in allocation_operands(b, t, self, depth - 1).items():
                v = ex.value(o)
                if v[0] == "param" and v[2] == "" and b.locals[v[1]] == "usize":
                    roles[v[1]].add(p)
        res = {i: next(iter(ps)) for i, ps in roles.items() if len(ps) == 1}
        if len(res) != len(roles) or not res:
            res = None
        self.memo[fn] = res
        return res


def allocation_operands(body, t, roles, depth=2):
    """{position: extent operand} when the call `t` allocates a matrix whose dynamic extents it is handed"""
    ce = ctor_extents(body, t)
    if ce is not None:
        return ce[1] or {}
    if depth <= 0 or roles is None:
        return {}
    c = callee(t)
    if not c.startswith("mech_"):
        return {}
    r = roles.of(c, depth)
    if not r:
        return {}
    return {p: t["args"][i - 1] for i, p in r.items() if i - 1 < len(t["args"])}


def run_extent_rules(F, rep, S):
    rep.rule("C12-R9", "conversion module: every dynamic row extent comes from position 0 and every dynamic column extent from position 1 of one shape list")
    rep.rule("C12-R10", "construction sites of output-bounded conversion structs: the fixed dimensions of the output type and constant extents are implied by the path "
                        "(requested shape tested) or are the fixed dimensions of the source's storage form (builder that keeps the shape)")
    rep.rule("C12-R11", "calls of a shape-keeping builder pass the source's own shape() or a list compared equal to it in both positions on every path")
    structs = output_bounded_structs(S)
    rep.floor("C12-R10", "output-bounded conversion structs (kernel ranges over the output buffer)", len(structs), 2)
    if not structs:
        return
    cg = CallGraph(F, [CRATE, CORE])
    roles = Roles(cg)
    bodies = [b for b in F.bodies(CRATE)]
    has_site = {}
    for b in bodies:
        n = sum(1 for _, s in b.aggs() if s.get("adt") in structs)
        if n:
            has_site[b.fn] = n

    def helper(c):
        hb = cg.bodies.get(c)
        return hb is not None and c.startswith(PREFIX) and not hb.pub and c not in has_site and len(hb.blocks) <= 200 and "{closure" not in c

    seen_keys = defaultdict(int)

    def uniq(k):
        seen_keys[k] += 1
        return k if seen_keys[k] == 1 else "%s#%d" % (k, seen_keys[k])

    n_alloc = 0
    site_classes, alloc_classes, call_classes = set(), set(), set()
    contracts = {}          # builder fn -> (list parameter, matrix parameter)
    relying = defaultdict(list)   # builder fn -> keys of the sites that rely on the list being the source's shape
    linked_allocs = set()   # (fn, block) of allocator calls judged as the `out` of a struct site
    site_bodies = {}
    supplied_in = set()     # private functions that build the struct around an output cell they are handed
    counters = {"sites": 0}

    def analyse_sites(b, vb):
        ex = Extents(vb)
        tested = ex.tested_lists()
        fname = b.fn.split("::")[-1]
        for blk, s in vb.aggs():
            if s.get("adt") not in structs:
                continue
            sname, kind = structs[s["adt"]]
            fields = s["fields"]
            if "out" not in fields:
                continue
            o_op = s["src"][fields.index("out")]
            a_op = s["src"][fields.index("arg")] if "arg" in fields else None
            if not isinstance(o_op, list):
                continue
            # the allocation behind `out`: through wrapper constructors (`Ref::new(x)`) to the call that makes the matrix
            cur, alloc, supplied = o_op, None, False
            for _ in range(5):
                org = ex.fl.origin(cur)
                if org[0] == "call":
                    t = org[2]
                    if ctor_extents(vb, t) is not None or allocation_operands(vb, t, roles):
                        alloc = (org[1], t)
                        break
                    if re.search(r"::new$", callee(t)) and len(t["args"]) == 1:
                        cur = t["args"][0]
                        continue
                    alloc = (org[1], t)
                    break
                supplied = org[0] in ("arg", "stmt")
                break
            if alloc is None and supplied:
                # the output cell is handed in (factory from decoded arguments, or a private wrapper without callers): nothing is allocated here
                rep.note("C12-R10-out-supplied", {"fn": b.fn, "struct": sname})
                continue
            # dimensions: the declared type of the cell, else (cell typed by a type parameter of an expanded wrapper) the type the allocation constructs
            odims = _typed_dims(vb, ex, o_op)
            if odims is None and alloc is not None:
                ce0 = ctor_extents(vb, alloc[1])
                odims = ce0[0] if ce0 else None
            if odims is None or any(isinstance(x, tuple) for x in odims):
                continue
            a_ty = vb.locals[a_op[0]] if isinstance(a_op, list) else ""
            adims = _typed_dims(vb, ex, a_op) if isinstance(a_op, list) else None
            if adims is not None and any(isinstance(x, tuple) for x in adims):
                adims = None
            counters["sites"] += 1
            site_classes.add((fname, sname, dims_text(adims) if adims else "scalar", dims_text(odims)))
            src_form = dims_text(adims) if adims else short(a_ty.replace("mech_core::types::Ref", "")).strip("<>") or "scalar"
            elem = short(na_elem(_typed(vb, ex, o_op) or "") or "")
            key = uniq("%s:%s:%s->%s:%s" % (fname, sname, src_form, dims_text(odims), elem))
            where = "%s (%s)" % (b.fn, vb.file)
            if alloc is None:
                rep.note("undecided", {"rule": "C12-R10", "site": key, "why": "the output cell is not traced to one allocation"})
                rep.ok("C12-R10", key + ":undecided")
                continue
            ablk, at = alloc
            ce = ctor_extents(vb, at)
            ops = (ce[1] if ce else None) or allocation_operands(vb, at, roles)
            if any(odims[p] == "Dyn" and p not in ops for p in (0, 1)):
                rep.note("undecided", {"rule": "C12-R10", "site": key, "why": "the output is built by %s, which takes its size from data" % callee(at).split("::")[-1]})
                rep.ok("C12-R10", key + ":undecided")
                continue
            linked_allocs.add((b.fn, ablk))
            a_src = ex.source_of(a_op) if isinstance(a_op, list) else None
            vals = {p: ex.value(ops[p]) for p in (0, 1) if odims[p] == "Dyn"}
            lists = {v[1] for v in vals.values() if v[0] == "elem"}
            cand = lists if lists else set(tested)
            Ls = [L for L in cand if L[0] in ("param", "call")]
            problems, undec = [], []
            relies_on_param, relies = None, False
            for p in (0, 1):
                d = odims[p]
                if d == "Dyn":
                    v = vals[p]
                    if v[0] == "elem":
                        L, q = v[1], v[2]
                        if L[0] == "param" or (_own_shape(L, a_src) and adims == odims):
                            if q != p:
                                problems.append("its %s extent is %s, but position %d of a shape list [rows, cols] is the %s count: the buffer gets the wrong length and the kernel converts only that many elements" % (
                                    POS[p], show_value(v), q, POS[q] if q < 2 else "?"))
                            elif L[0] == "param" and L[2] == "" and L not in tested:
                                relies_on_param = L[1]
                        else:
                            undec.append("%s extent from %s" % (POS[p], show_value(v)))
                    elif v[0] == "const":
                        if len(Ls) != 1:
                            undec.append("%s extent is the constant %d and no single requested-shape list is in sight" % (POS[p], v[1]))
                        elif not _established(ex, vb, Ls[0], p, v[1], ablk):
                            problems.append("its %s extent is the constant %d but no test on the path says that %s[%d] is %d" % (POS[p], v[1], show_list(Ls[0]), p, v[1]))
                    elif v[0] == "dim" and adims is not None and v[2] == a_src and a_src is not None:
                        want = ("nrows", "ncols")[p]
                        if v[1] == want or (v[1] == "len" and adims[1 - p] == 1 and odims[1 - p] == 1):
                            pass
                        elif v[1] in ("nrows", "ncols") and adims == odims:
                            problems.append("its %s extent is the source's %s()" % (POS[p], v[1]))
                        else:
                            undec.append("%s extent from the source's %s()" % (POS[p], v[1]))
                    elif v[0] == "op" and adims == odims and any(x[0] == "elem" and x[1][0] == "param" and x[1] not in tested for x in v[2:4]):
                        # same storage form in and out, sized from the (untested) list the builder is handed: only the list's own entry can be the source's extent
                        problems.append("its %s extent is computed, %s, where a shape-keeping conversion needs exactly position %d of the shape list" % (POS[p], show_value(v), p))
                    else:
                        undec.append("%s extent from %s" % (POS[p], show_value(v)))
                elif isinstance(d, int):
                    ok = any(_established(ex, vb, L, p, d, blk) for L in Ls)
                    if not ok and adims is not None and adims[p] == d:
                        # the source's storage form has the same fixed dimension: right whenever the result is to have the source's shape
                        ok = True
                        if adims != odims or any(x == "Dyn" for x in odims):
                            relies = True
                            prm = [L for L in Ls if L[0] == "param" and L[2] == ""]
                            if prm:
                                relies_on_param = prm[0][1]
                    if not ok:
                        if not Ls and adims is None:
                            undec.append("fixed %s extent %d with no shape list in sight" % (POS[p], d))
                        else:
                            problems.append("the output type has exactly %d %s%s, but neither a test of the requested shape on the path nor the source's storage form (%s) says the result has" % (
                                d, POS[p], "" if d == 1 else "s", dims_text(adims) if adims else "a scalar"))
            if len(lists) > 1:
                undec.append("row and column extents come from two different lists")
            if problems:
                rule = "C12-R9" if any("but position" in x or "extent is the source's" in x or "extent is computed" in x for x in problems) else "C12-R10"
                rep.bad(rule, key + ":" + ",".join("%s=%s" % (POS[p][:3], _vkey(vals[p])) for p in sorted(vals)),
                        "%s builds %s (%s kernel over the output buffer) for a %s source with a %s output: %s" % (
                            fname, sname, "zip" if kind == "map" else "fill", src_form, dims_text(odims), "; ".join(problems)), where,
                        {"site": key, "extents": {POS[p]: show_value(v) for p, v in vals.items()}})
            elif undec:
                rep.note("undecided", {"rule": "C12-R10", "site": key, "why": "; ".join(undec)})
                rep.ok("C12-R10", key + ":undecided")
            else:
                rep.ok("C12-R10", key, sample={"site": key, "extents": {POS[p]: show_value(v) for p, v in vals.items()}, "out": dims_text(odims)})
            if relies_on_param is not None and not problems and vb.fn == b.fn:
                mp = [i for i in range(1, b.nargs + 1) if "structures::matrix::Matrix<" in b.locals[i]]
                if len(mp) == 1 and relies_on_param <= b.nargs:
                    contracts[b.fn] = (relies_on_param, mp[0])
                    relying[b.fn].append((key, where, "%s -> %s" % (src_form, dims_text(odims))))

    # private wrappers that build the struct around a cell they are handed as a parameter: the allocation is with their callers, which are analysed
    # with the wrapper expanded
    for b in bodies:
        hb = cg.bodies.get(b.fn)
        if b.fn not in has_site or hb is None or hb.pub or "{closure" in b.fn or len(b.blocks) > 200:
            continue
        ex0 = Extents(b)
        for blk, st in b.aggs():
            if st.get("adt") in structs and "out" in st["fields"]:
                cur = st["src"][st["fields"].index("out")]
                for _ in range(5):
                    org = ex0.fl.origin(cur)
                    if org[0] == "call" and re.search(r"::new$", callee(org[2])) and len(org[2]["args"]) == 1:
                        cur = org[2]["args"][0]
                        continue
                    if org[0] == "arg":
                        supplied_in.add(b.fn)
                    break
    called_wrappers = {callee(t) for b in bodies for _, t in b.calls() if callee(t) in supplied_in and b.fn != callee(t)}

    def expand(c):
        return helper(c) or c in called_wrappers

    for b in bodies:
        if b.fn in called_wrappers:
            continue
        if b.fn not in has_site and not any(callee(t) in called_wrappers for _, t in b.calls()):
            continue
        vb = inline_body(b, cg, expand)
        site_bodies[b.fn] = vb
        analyse_sites(b, vb)
    n_sites = counters["sites"]
    rep.floor("C12-R10", "kinds of construction site (builder, struct, source form, output form) of output-bounded conversion structs with an allocation in sight", len(site_classes), 13)

    consumers = {}          # function that sizes an allocation from an untested list parameter (no struct site) -> list parameter
    # ---- R9: the remaining allocations of the conversion module (not the `out` of a struct site): positions only
    conv_bodies = [b for b in bodies if CONVERT_MOD in b.fn and "{closure" not in b.fn]
    expanded_helpers = {callee(t) for b in conv_bodies for _, t in b.calls() if helper(callee(t))}
    for b in conv_bodies:
        if b.fn in expanded_helpers:
            continue        # a private helper: its allocations are judged where it is called (expanded there)
        cand_calls = [(i, t) for i, t in b.calls() if (callee(t).startswith("nalgebra::base::construction::") or callee(t).startswith("mech_"))]
        if not cand_calls:
            continue
        vb = site_bodies.get(b.fn)
        if vb is None:
            if not any(allocation_operands(b, t, roles) for _, t in cand_calls):
                continue
            vb = inline_body(b, cg, helper)
        ex = None
        fname = b.fn.split("::")[-1]
        for blk, t in vb.calls():
            if (b.fn, blk) in linked_allocs:
                continue
            ops = allocation_operands(vb, t, roles)
            if not ops:
                continue
            ex = ex or Extents(vb)
            vals = {p: ex.value(o) for p, o in ops.items()}
            ev = {p: v for p, v in vals.items() if v[0] == "elem" and v[1][0] == "param"}
            if not ev:
                continue
            n_alloc += 1
            cname = _callee_name(callee(t))
            alloc_classes.add((fname, cname))
            for v in ev.values():
                if v[1][2] == "" and v[1] not in ex.tested_lists() and b.fn not in contracts:
                    consumers[b.fn] = v[1][1]
            key = uniq("%s:%s<%s>" % (fname, cname, ",".join(short(g) for g in (t.get("ga") or [])[:2])))
            wrong = [p for p, v in ev.items() if v[2] != p]
            split = len({v[1] for v in ev.values()}) > 1
            msg = "; ".join("the %s extent is %s" % (POS[p], show_value(ev[p])) for p in wrong) or "row and column extents come from two different shape lists"
            rep.check(not wrong and not split, "C12-R9", key if not (wrong or split) else key + ":" + ",".join("%s=%s" % (POS[p][:3], _vkey(v)) for p, v in sorted(ev.items())),
                      "%s allocates with %s: %s - a shape list is [rows, cols], so the converted value comes out with its extents exchanged or truncated" % (fname, cname, msg),
                      "%s (%s)" % (b.fn, vb.file), sample={"site": key, "extents": {POS[p]: show_value(v) for p, v in vals.items()}})
    rep.floor("C12-R9", "functions of the conversion module with further allocations sized from a shape list", len(alloc_classes), 1)

    # ---- R11: the shape contract at the call sites of shape-keeping builders
    n_calls = 0
    for fn, (lp, mp) in sorted(contracts.items()):
        bname = fn.split("::")[-1]
        results = []
        for b in [b for b in bodies if any(callee(t) == fn for _, t in b.calls())]:
            vb = inline_body(b, cg, helper)
            ex = Extents(vb)
            facts = None
            for blk, t in vb.calls():
                if callee(t) != fn or len(t["args"]) < max(lp, mp):
                    continue
                n_calls += 1
                key = uniq("%s:%s<%s>" % (b.fn.split("::")[-1], bname, ",".join(short(g) for g in (t.get("ga") or []))))
                L = ex.list_of(t["args"][lp - 1])
                msrc = ex.source_of(t["args"][mp - 1])
                own = _own_shape(L, msrc)
                call_classes.add((b.fn, fn, "own" if own else "other"))
                missing = []
                if not own:
                    if facts is None:
                        facts = ex.facts()
                    for p in (0, 1):
                        edges = set()
                        for fb, ft, f in facts:
                            if f[0] == "eq" and f[1][0] == "elem" and f[2][0] == "elem" and f[1][2] == p and f[2][2] == p:
                                A, B = f[1][1], f[2][1]
                            elif f[0] == "eqlist":
                                A, B = f[1], f[2]
                            else:
                                continue
                            if (A == L and _own_shape(B, msrc)) or (B == L and _own_shape(A, msrc)):
                                edges.add((fb, ft))
                        if not _dominating_edge(vb, edges, blk) and not every_path_uses(vb, edges, blk):
                            missing.append(p)
                results.append((key, own, missing, b, vb, L))
        if results and all(m for _, _, m, _, _, _ in results):
            # not one caller treats it as shape-keeping: the slip is in the builder's sites that lean on the source's form, not at the call sites
            for key, _, _, _, _, _ in results:
                rep.ok("C12-R11", key + ":no-contract")
            for skey, where, forms in relying[fn]:
                rep.bad("C12-R10", skey + ":form-from-source",
                        "%s sizes a %s conversion from the source's storage form / an untested shape list, which is right only if the list it is handed is the source's shape - but none of its %d call sites "
                        "passes the source's own shape() or a list compared equal to it: the output buffer has the source's extents where the requested ones are wanted" % (bname, forms, len(results)), where)
            continue
        for key, own, missing, b, vb, L in results:
            if own:
                rep.ok("C12-R11", key, sample={"call": key, "list": "the source's own shape()"})
                continue
            rep.check(not missing, "C12-R11", key if not missing else key + ":unguarded-" + "".join(POS[p][:3] for p in missing),
                      "%s calls the shape-keeping builder %s (it allocates its output from the list it is handed and never tests it) with %s, which is neither the source's own shape() nor "
                      "compared equal to it in the %s position on every path to the call: a matrix of different size is converted into a truncated or zero-padded buffer instead of failing" % (
                          b.fn.split("::")[-1], bname, show_list(L), " and ".join(POS[p] for p in missing)),
                      "%s (%s)" % (b.fn, vb.file), sample={"call": key, "list": show_list(L)})
    # ---- R11 (second form): a function that rebuilds a matrix from a flat element vector and a shape list it never tests: the list it is handed is
    #      (a copy of) some value's shape(), or was compared with one - equal as lists, or equal in element count - on every path to where it is chosen
    for fn, lp in sorted(consumers.items()):
        cname = fn.split("::")[-1]
        for b in [b for b in bodies if any(callee(t) == fn for _, t in b.calls())]:
            vb = inline_body(b, cg, helper)
            ex = Extents(vb)
            facts = ex.facts()

            def shape_list(X):
                return X[0] == "call" and X[1].split("::")[-1] == "shape" and X[2] is not None and X[3] == ""

            def admitted(X, at):
                if shape_list(X):
                    return True
                edges = set()
                for fb, ft, f in facts:
                    if f[0] == "eqlist":
                        A, B = f[1], f[2]
                    elif f[0] == "eq":
                        A, B = count_of(f[1]), count_of(f[2])
                        if A is None or B is None:
                            continue
                    else:
                        continue
                    if (A == X and shape_list(B)) or (B == X and shape_list(A)):
                        edges.add((fb, ft))
                return _dominating_edge(vb, edges, at) or every_path_uses(vb, edges, at)
            for blk, t in vb.calls():
                if callee(t) != fn or len(t["args"]) < lp:
                    continue
                n_calls += 1
                call_classes.add((b.fn, fn, "rebuild"))
                key = uniq("%s:%s" % (b.fn.split("::")[-1], cname))
                L = ex.list_of(t["args"][lp - 1])
                choices = []
                if L[0] == "local":
                    for db, st in ex.fl.live_defs(L[1]):
                        srcs = st["args"][:1] if st.get("k") == "call" else (st.get("src") or [])[:1]
                        choices.append((ex.list_of(srcs[0]) if srcs else ("unknown", "definition"), db))
                else:
                    choices.append((L, blk))
                bad = [X for X, at in choices if not admitted(X, at)]
                rep.check(not bad, "C12-R11", key if not bad else key + ":unguarded-list",
                          "%s hands %s (which sizes the rebuilt matrix from that list without testing it) %s, chosen on a path where it was neither compared equal to a shape() nor found to have the same "
                          "element count: the converted elements are laid out in a shape the source does not have" % (b.fn.split("::")[-1], cname, " / ".join(show_list(X) for X in bad)),
                          "%s (%s)" % (b.fn, vb.file), sample={"call": key, "choices": [show_list(X) for X, _ in choices]})
    rep.floor("C12-R11", "kinds of call of a shape-keeping builder (with the source's own shape / with a requested shape / rebuild from a flat element vector)", len(call_classes), 3)
    rep.analysed.update({"output_bounded_structs": sorted(v[0] for v in structs.values()), "struct_sites": n_sites, "other_allocations": n_alloc,
                         "shape_keeping_builders": sorted(f.split("::")[-1] for f in contracts), "list_sized_rebuilders": sorted(f.split("::")[-1] for f in consumers), "builder_calls": n_calls})


def _callee_name(c):
    """`Type::method` of a resolved callee path, without generic arguments"""
    if "<impl " in c:
        c = re.sub(r"<impl .*>>", "nalgebra::Matrix", c) if "nalgebra::base::matrix::Matrix<" in c else c
    prev = None
    while prev != c:
        prev = c
        c = re.sub(r"(::)?<[^<>]*>", "", c)
    return "::".join(c.split("::")[-2:])


def _typed(body, ex, op):
    """type text of the first local, on the way back from `op` to its origin, whose type names a concrete nalgebra matrix"""
    for l in ex.fl.chain(op):
        ty = body.locals[l] if l < len(body.locals) else ""
        d = na_dims(ty)
        if d is not None and not any(isinstance(x, tuple) for x in d):
            return ty
    return None


def _typed_dims(body, ex, op):
    ty = _typed(body, ex, op)
    return na_dims(ty) if ty else None


def _vkey(v):
    if v[0] == "elem":
        return "list[%d]" % v[2]
    if v[0] == "const":
        return "const%d" % v[1]
    if v[0] == "dim":
        return v[1]
    return v[0]


def _established(ex, body, L, p, k, target):
    edges = {(fb, ft) for fb, ft, f in ex.facts() if f[0] == "eq" and f[1] == ("elem", L, p) and f[2] == ("const", k)}
    return bool(edges) and (_dominating_edge(body, edges, target) or every_path_uses(body, edges, target))


def _dominating_edge(body, edges, target):
    """cheap sufficient test: an edge whose head has no other predecessor and dominates the target"""
    for fb, ft in edges:
        if body.pred(ft) == [fb] and body.dominates(ft, target):
            return True
    return False
