"""C02 — precedence and left associativity: grammar level chain, operator classes per level, left fold in term(), parentheses."""
import re
from collections import defaultdict
from lib.facts import CallGraph, find, is_node, path_of, fns_in_type, render

TECHNIQUE = ("grammar-level chain read from the generic arguments of the nom combinator calls in the MIR (many0(pair(OP, cut(NEXT)))), operator-class "
             "sets from MIR aggregates of the operator parsers, left-fold shape of term() and the parenthetical arms from the expanded syntax")
EXPLANATION = (
    "Decides C02 as a statement about grammar shape: (R1) starting at `formula`, every level is `next (op next)*` with the SAME next level on both sides "
    "(so grouping within a level is iterative/left and a level never recurses into itself or a looser level); (R2) the operator classes per level, from "
    "loosest to tightest, are logic < comparison < add/sub < mul/div/mod + matrix < power < table < set, disjoint, and unary minus / not take a `factor` "
    "operand while postfix transpose wraps a factor; (R3) term() folds left: it iterates the rhs list forwards, passes (accumulator, rhs) in that order to "
    "the operator and replaces the accumulator by the result; (R4) a parenthetical parses a full formula between the parentheses and evaluates it as a "
    "unit. With C01-R3 (each operator kernel computes lhs OP rhs) the value of an unparenthesised formula equals its parenthesised rendering by construction."
)

ORDER = [{"Logic"}, {"Comparison"}, {"AddSub"}, {"MulDiv", "Vec"}, {"Power"}, {"Table"}, {"Set"}]


def level_info(b):
    """for a grammar level body: (left operand callee, [(op parser fns, next fn)] from pair(OP, cut(NEXT)) inside many0)"""
    first = None
    for i, t in b.calls():
        c = t.get("f") or t["tf"]
        if c.startswith("mech_syntax::") and not c.startswith("mech_syntax::ParseString"):
            first = c
            break
    pairs = []
    many = [t for i, t in b.calls() if (t.get("f") or t["tf"]).startswith("nom::multi::many0") and "closure" not in (t.get("f") or t["tf"])]
    for i, t in b.calls():
        c = t.get("f") or t["tf"]
        if c == "nom::sequence::pair":
            ga = t["ga"]
            ops = fns_in_type(ga[-2])
            nxt = fns_in_type(ga[-1])
            ops = [o for o in ops if o.startswith("mech_syntax::")]
            cutn = [n for n in nxt if n.startswith("mech_syntax::")]
            has_cut = "nom::combinator::cut" in ga[-1]
            pairs.append((ops, cutn, has_cut))
    return first, pairs, len(many)


def run(F, rep, tier):
    rep.rule("C02-R1", "grammar chain from `formula`: each level is NEXT (OP NEXT)* with the same NEXT on both sides, 7 levels ending at `factor`")
    rep.rule("C02-R2", "operator classes per level in the documented order; classes disjoint; unary minus / not / transpose operate on a factor")
    rep.rule("C02-R3", "term() is a forward left fold with (accumulator, rhs) argument order")
    rep.rule("C02-R4", "parentheses: parser wraps a full formula; interpreter evaluates the inner formula as a unit")
    cg = CallGraph(F, ["mech_syntax.lib", "mech_core.lib"])
    B = cg.bodies
    start = "mech_syntax::expressions::formula"
    if not rep.check(start in B, "C02-R1", "anchor:formula", "grammar entry `formula` not found"):
        return
    first, pairs, _ = level_info(B[start])
    chain = []
    cur = first
    seen = set()
    classes = []
    while cur and cur in B and cur not in seen:
        seen.add(cur)
        nxt, pairs, nmany = level_info(B[cur])
        if not pairs:
            break
        chain.append(cur)
        lvl = cur.split("::")[-1]
        rep.check(len(pairs) == 1 and nmany == 1, "C02-R1", "%s:shape" % len(chain),
                  "level %s is not a single `many0(pair(op, next))` repetition (pairs=%d, many0=%d)" % (lvl, len(pairs), nmany), B[cur].where())
        ops, cutn, has_cut = pairs[0]
        rep.check(len(cutn) == 1 and cutn[0] == nxt, "C02-R1", "level%d:same-next-both-sides" % len(chain),
                  "level %s parses its left operand with %s but its right operands with %s: operators of this level no longer group left-to-right at one level (e.g. a ^ b ^ c parses as a ^ (b ^ c))" % (lvl, nxt, cutn),
                  B[cur].where(), sample={"level": cur, "left": nxt, "ops": ops, "right": cutn})
        rep.check(nxt != cur and nxt not in chain, "C02-R1", "level%d:descends" % len(chain), "level %s recurses into itself or a looser level (%s)" % (lvl, nxt), B[cur].where())
        # operator class of this level: FormulaOperator variants constructed by the op parsers
        cls = set()
        for o in ops:
            ob = B.get(o)
            if ob:
                for i, s in ob.aggs():
                    if s["adt"].endswith("nodes::FormulaOperator"):
                        cls.add(s["var"])
        classes.append(cls)
        cur = nxt
    rep.floor("C02-R1", "grammar levels between formula and factor", len(chain), 7)
    rep.check(cur == "mech_syntax::expressions::factor", "C02-R1", "chain-ends-at-factor", "the level chain ends at %s, not at `factor`" % cur)
    # R2 order
    for i, want in enumerate(ORDER):
        got = classes[i] if i < len(classes) else None
        rep.check(got == want, "C02-R2", "level%d:class" % (i + 1),
                  "grammar level %d accepts operator classes %s, documented precedence requires %s" % (i + 1, sorted(got) if got is not None else None, sorted(want)),
                  B[chain[i]].where() if i < len(chain) else "", sample={"level": chain[i] if i < len(chain) else None, "classes": sorted(got or [])})
    rep.check(len(classes) == len(ORDER), "C02-R2", "level-count", "found %d operator levels, expected %d" % (len(classes), len(ORDER)))
    allc = [c for cl in classes for c in cl]
    rep.check(len(allc) == len(set(allc)), "C02-R2", "classes-disjoint", "an operator class appears on two levels: %s" % sorted(allc))
    # unary operators take a factor
    fac = "mech_syntax::expressions::factor"
    for u, var in (("negate_factor", "Negate"), ("not_factor", "Not")):
        ub = B.get("mech_syntax::expressions::" + u)
        if not rep.check(ub is not None, "C02-R2", "anchor:%s" % u, "%s not found" % u):
            continue
        local = [t.get("f") or t["tf"] for i, t in ub.calls() if (t.get("f") or t["tf"]).startswith("mech_syntax::expressions::")]
        operand = [c for c in local if c in chain or c in (fac, start)]
        rep.check(operand == [fac], "C02-R2", "%s:operand-is-factor" % u, "%s parses its operand with %s instead of `factor`: the unary operator no longer binds tightest" % (u, operand), ub.where())
        rep.check(any(s["adt"].endswith("nodes::Factor") and s["var"] == var for i, s in ub.aggs()), "C02-R2", "%s:builds-%s" % (u, var), "%s does not build Factor::%s" % (u, var), ub.where())
    fb = B.get(fac)
    if fb:
        rep.check(any(s["adt"].endswith("nodes::Factor") and s["var"] == "Transpose" for i, s in fb.aggs()), "C02-R2", "factor:transpose-wraps-factor",
                  "postfix transpose is no longer applied inside `factor`", fb.where())
        # factor's alternatives include the parenthetical, negate and not parsers
        reach1 = cg.reach([fac])
        for need in ("parenthetical_term", "negate_factor", "not_factor"):
            rep.check(("mech_syntax::expressions::" + need) in reach1, "C02-R2", "factor:alt:%s" % need, "`factor` no longer tries %s" % need, fb.where())
    # R4 parser side
    pb = B.get("mech_syntax::expressions::parenthetical_term")
    if rep.check(pb is not None, "C02-R4", "anchor:parenthetical_term", "parenthetical_term not found"):
        ment = pb.mentioned_fns()
        rep.check(start in ment, "C02-R4", "parenthetical:inner-is-formula", "parenthetical_term does not parse a full `formula` between the parentheses", pb.where())
        rep.check(any(s["adt"].endswith("nodes::Factor") and s["var"] == "Parenthetical" for i, s in pb.aggs()), "C02-R4", "parenthetical:builds-node", "does not build Factor::Parenthetical", pb.where())
        rep.check(any("left_parenthesis" in m for m in ment) and any("right_parenthesis" in m for m in ment), "C02-R4", "parenthetical:delimiters", "parenthetical_term does not use both parenthesis leaves", pb.where())

    # ---- interpreter side (syn)
    items = F.syn("mech_interpreter.lib")
    term = [it for it in items if it["k"] == "fn" and it["name"] == "term" and it["mod"].endswith("expressions")]
    if rep.check(len(term) == 1, "C02-R3", "anchor:term", "interpreter term() not found"):
        check_term(rep, term[0])
    fct = [it for it in items if it["k"] == "fn" and it["name"] == "factor" and it["mod"].endswith("expressions")]
    if rep.check(len(fct) == 1, "C02-R4", "anchor:interp-factor", "interpreter factor() not found"):
        ok = False
        for m in find(fct[0]["body"], "match"):
            for arm in m[2]:
                p = arm[0]
                if p[0] == "pts" and p[1] == "Factor::Parenthetical":
                    binder = p[2][0][1] if p[2] and p[2][0][0] == "pident" else None
                    body = arm[2]
                    calls = [c for c in find(body, "call") if path_of(c[1]) == "factor"]
                    if len(calls) == 1 and binder and any(x[1] == binder for x in find(calls[0][2][0], "path")):
                        # tail position: the arm body is (a block ending in) that call / Ok(call?)
                        ok = True
        rep.check(ok, "C02-R4", "interp:parenthetical-evaluates-inner", "Factor::Parenthetical is not evaluated by a single recursive factor() call on its inner formula")
    rep.analysed = {"levels": chain, "classes": [sorted(c) for c in classes]}


def check_term(rep, it):
    body = it["body"]
    loops = [f for f in find(body, "for")]
    fold = None
    for f in loops:
        itx = render(f[2])
        if re.search(r"\.rhs\b", itx):
            fold = f
    if not rep.check(fold is not None, "C02-R3", "term:loop-over-rhs", "term() has no loop over the term's rhs list"):
        return
    itx = render(fold[2])
    rep.check(not re.search(r"rev\(|rposition|rfold|last\(", itx), "C02-R3", "term:forward-iteration",
              "term() iterates the operator list as `%s` (not forwards)" % itx, sample={"iterator": itx})
    # loop pattern (op, rhs)
    pat = fold[1]
    pvars = [p[1] for p in find(pat, "pident")]
    # accumulator: a `let mut X = factor(&trm.lhs ..)` before the loop, assigned at the end of the loop body
    acc = None
    for st in body:
        if st[0] == "let" and st[2] is not None and is_node(st[1]) and st[1][0] == "pident" and st[1][3]:
            if re.search(r"\.lhs\b", render(st[2])):
                acc = st[1][1]
    if not rep.check(acc is not None, "C02-R3", "term:accumulator", "no mutable accumulator initialised from the term's lhs"):
        return
    lbody = fold[3]
    # rhs value evaluated inside loop
    rhsv = None
    for st in lbody:
        if st[0] == "let" and st[2] is not None and is_node(st[1]) and st[1][0] == "pident":
            if any(x[1] in pvars for x in find(st[2], "path")) and path_of(st[2][1] if st[2][0] in ("try",) and is_node(st[2][1]) and st[2][1][0] == "call" and False else None) is None:
                if any(c for c in find(st[2], "call") if path_of(c[1]) == "factor"):
                    rhsv = st[1][1]
    rep.check(rhsv is not None, "C02-R3", "term:rhs-evaluated", "the right operand is not evaluated with factor() inside the loop")
    # every compile() call in the loop gets [acc, rhs] in that order
    n = 0
    bad = []
    for mc in find(lbody, "mcall"):
        if mc[2] != "compile" or not (is_node(mc[1]) and mc[1][0] == "struct"):
            continue
        arrs = [a for a in find(mc[4], "array")]
        if not arrs:
            continue
        elems = [path_of(x) or path_of(x[1]) if is_node(x) else None for x in arrs[-1][1]]
        # allow lhs.clone()
        el = []
        for x in arrs[-1][1]:
            while is_node(x) and x[0] in ("mcall", "ref") and (x[0] == "ref" or x[2] == "clone"):
                x = x[2] if x[0] == "ref" else x[1]
            el.append(path_of(x))
        n += 1
        if el != [acc, rhsv]:
            bad.append((mc[1][1], el))
    rep.floor("C02-R3", "operator compiler calls inside the fold", n, 30)
    rep.check(not bad, "C02-R3", "term:argument-order", "operator compilers are not called with (accumulator, rhs) in that order: %s" % bad[:5],
              sample={"accumulator": acc, "rhs": rhsv, "calls": n})
    # accumulator replaced by the result
    assigns = [a for a in find(lbody, "assign") if path_of(a[1]) == acc]
    last = lbody[-1] if lbody else None
    ok = False
    for a in assigns:
        src = path_of(a[2])
        if src:
            # src must come from `<new_fxn>.out()`
            for st in lbody:
                if st[0] == "let" and is_node(st[1]) and st[1][0] == "pident" and st[1][1] == src and st[2] is not None and any(m[2] == "out" for m in find(st[2], "mcall")):
                    ok = True
    rep.check(ok, "C02-R3", "term:accumulator-updated", "the accumulator is not replaced by the operator's output each iteration")
