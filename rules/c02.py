"""C02 — precedence and left associativity: grammar level chain, operator classes per level, left fold in term(), parentheses."""
import re
from lib.facts import CallGraph, find, is_node, path_of, fns_in_type, render, last_seg, walk
from lib.mirview import View, callee
from lib.provenance import Prov, param_names
from lib.mirq import result_exits
from lib.synflow_c02 import SEQ_VIEWS, bind_call, inits_of, mentions, pat_idents, pattern_bodies, peel

TECHNIQUE = ("grammar-level chain from the MIR of the parser crate: a level is a fn holding one repetition (nom many0 / fold_many0 whose argument type names the "
             "operator parsers and operand parsers - identified by their signature - or a hand-written parse loop), in its own body or in a helper / closure it "
             "delegates to (lib/mirview.View); operator-class sets from aggregates and constructor values in the operator parsers' views; left-fold shape of "
             "term() from the expanded syntax with roles assigned by provenance (components of the &Term parameter), callee and position, followed into helper "
             "fns the loop hands (accumulator, rhs) to; the parenthetical case as match arm or if-let")
EXPLANATION = (
    "Decides C02 as a statement about grammar shape: (R1) starting at `formula`, every level is `next (op next)*` with the SAME next level on both sides "
    "(so grouping within a level is iterative/left and a level never recurses into itself or a looser level); (R2) the operator classes per level, from "
    "loosest to tightest, are logic < comparison < add/sub < mul/div/mod + matrix < power < table < set, disjoint, and unary minus / not take a `factor` "
    "operand while postfix transpose wraps a factor; (R3) term() folds left: it iterates the rhs list forwards, passes (accumulator, rhs) in that order to "
    "the operator, replaces the accumulator by the result, and consumes EVERY (operator, operand) pair - the iteration has no exit other than exhaustion of the "
    "list or error propagation (no break / value return / skipping continue / truncating adaptor / ControlFlow::Break), decided on the control-flow graph of "
    "term() for loops and on the closure for fold / try_fold; (R4) a parenthetical parses a full formula between the parentheses and evaluates it as a "
    "unit. With C01-R3 (each operator kernel computes lhs OP rhs) the value of an unparenthesised formula equals its parenthesised rendering by construction."
)

ORDER = [{"Logic"}, {"Comparison"}, {"AddSub"}, {"MulDiv", "Vec"}, {"Power"}, {"Table"}, {"Set"}]


PARSE_IN = "mech_syntax::ParseString"
EXPR = "mech_syntax::expressions::"


def is_parser(b):
    """grammar symbol: fn(ParseString) -> ParseResult<_>; such fns are never treated as part of another fn's own code"""
    return b is not None and "{closure#" not in b.fn and b.nargs == 1 and len(b.locals) > 1 and b.locals[1].startswith(PARSE_IN)


def parses(b, node):
    """grammar symbol producing the AST node type `node` (identified by signature, not by name)"""
    return is_parser(b) and ("mech_core::nodes::%s)" % node) in b.locals[0]


REPEAT = re.compile(r"^nom::multi::(many0|fold_many0)$")
INDIRECT = re.compile(r"^core::ops::function::Fn(Mut|Once)?::call(_mut|_once)?$")


def crate_fns_in(B, type_str, depth=2):
    """crate fns named inside a (combinator / closure) type, looking into the crate's own closures that the type contains:
    `many0(pair(op, cut(next)))`, `many0(tuple((op, cut(next))))` and `many0(|i| { .. op(i) .. next(i) .. })` all name op and next"""
    out, todo, seen = [], [f for f in fns_in_type(type_str) if f.startswith("mech_syntax::")], set()
    for _ in range(depth + 1):
        nxt = []
        for f in todo:
            if f in seen:
                continue
            seen.add(f)
            if "{closure#" in f:
                if f in B:
                    nxt.extend(m for m in B[f].mentioned_fns() if m.startswith("mech_syntax::"))
            else:
                out.append(f)
        todo = nxt
    return out


def cycle_blocks(b):
    """blocks of a MIR body that lie on a CFG cycle (normal edges)"""
    out = set()
    for i in range(len(b.blocks)):
        if b.blocks[i]["cl"]:
            continue
        if i in b.reachable_from(b.succ(i)):
            out.add(i)
    return out


def has_parse_loop(B, b):
    """a hand-written repetition: a CFG cycle that applies a parser (directly, through a parameter or a fn pointer)"""
    cyc = cycle_blocks(b)
    for i, t in b.calls():
        if i in cyc:
            c = callee(t)
            if "fp" in t or INDIRECT.match(t["tf"]) or is_parser(B.get(c)):
                return True
    return False


def level_info(B, b):
    """for a grammar level body: (left operand callee, [(op parser fns, next fns)] per repetition, number of repetitions).
    The left operand is the Factor parser the body calls directly outside the repetition (helpers with another signature - e.g. an
    extracted `fold(first, rest)` - are not operands, wherever they sit in the block order). A repetition is a nom `many0` /
    `fold_many0` whose parser argument's TYPE names the operator parsers (fns returning FormulaOperator) and the right operand
    parsers (fns returning Factor) - whichever of pair / tuple / closure glues them together - or a hand-written loop that calls them."""
    cyc = None
    first = None
    reps = []
    nrep = 0
    for i, t in b.calls():
        if REPEAT.match(callee(t)):
            nrep += 1
            fns = crate_fns_in(B, " ".join(t["ga"]))
            ops = [f for f in fns if parses(B.get(f), "FormulaOperator")]
            nxt = [f for f in fns if parses(B.get(f), "Factor")]
            if ops and nxt:
                reps.append((ops, nxt))
    if not nrep:
        cyc = cycle_blocks(b)
        used = set()
        for i, t in b.calls():
            if i in cyc:
                used.add(callee(t))
                for g in t.get("ga", []):
                    used.update(fns_in_type(g))
                for a in list(t["args"]) + ([t["fp"]] if "fp" in t else []):
                    if isinstance(a, dict) and "fn" in a:
                        used.update(fns_in_type(a["fn"]))
        ops = sorted(f for f in used if parses(B.get(f), "FormulaOperator"))
        nxt = sorted(f for f in used if parses(B.get(f), "Factor"))
        if ops and nxt:
            nrep = 1
            reps.append((ops, nxt))
    for i, t in b.calls():
        c = callee(t)
        if c.startswith("mech_syntax::") and parses(B.get(c), "Factor") and not (cyc and i in cyc):
            first = c
            break
    return first, reps, nrep


def analyse_level(B, cur):
    """-> None when `cur` is not a repetition level, else {left, ops, right, nrep, via}.
    Direct form: the body itself holds the repetition - operands are read from the types / calls of the repetition (level_info).
    Delegated form: the repetition sits in a helper of the crate that `cur` calls (`level(input, NEXT, OP)`, `level(NEXT, OP)(input)`,
    fn pointers, generics or `impl Fn`): the operand parsers are the Factor parsers that flow into the view of `cur` (its body,
    closures and non-parser helpers). With exactly ONE Factor parser in the view both sides of the repetition necessarily use it;
    with more than one the positions cannot be told apart here and `left` stays None (fail closed)."""
    b = B[cur]
    first, reps, nrep = level_info(B, b)
    if reps:
        ops, nxt = reps[0]
        return {"left": first, "ops": ops, "right": sorted(set(nxt)), "nrep": nrep, "nlevel": len(reps), "via": None}
    V = View(B, cur, stop=is_parser)
    if len(V.bodies) < 2:
        return None
    nrep = sum(1 for _b, _i, t in V.calls() if REPEAT.match(callee(t)))
    nrep += sum(1 for vb in V.bodies if has_parse_loop(B, vb))
    if not nrep:
        return None
    ment = V.mentioned()
    nexts = sorted(m for m in ment if parses(B.get(m), "Factor"))
    ops = sorted(m for m in ment if parses(B.get(m), "FormulaOperator"))
    if not nexts or not ops:
        return None
    return {"left": nexts[0] if len(nexts) == 1 else None, "ops": ops, "right": nexts, "nrep": nrep, "nlevel": 1, "via": sorted(V.helpers)}


def run(F, rep, tier):
    rep.rule("C02-R1", "grammar chain from `formula`: each level is NEXT (OP NEXT)* with the same NEXT on both sides, 7 levels ending at `factor`")
    rep.rule("C02-R2", "operator classes per level in the documented order; classes disjoint; unary minus / not / transpose operate on a factor")
    rep.rule("C02-R3", "term() is a forward left fold with (accumulator, rhs) argument order that consumes every (operator, operand) pair")
    rep.rule("C02-R4", "parentheses: parser wraps a full formula; interpreter evaluates the inner formula as a unit")
    cg = CallGraph(F, ["mech_syntax.lib", "mech_core.lib"])
    B = cg.bodies
    start = EXPR + "formula"
    if not rep.check(start in B, "C02-R1", "anchor:formula", "grammar entry `formula` not found"):
        return
    chain = []
    seen = set()
    classes = []
    cur = start
    if analyse_level(B, start) is None:
        # `formula` is a pass-through to the loosest level: the Factor parser it calls (or hands to a wrapper)
        cur = level_info(B, B[start])[0]
        if cur is None:
            c = sorted(m for m in View(B, start, stop=is_parser).mentioned() if m != start and parses(B.get(m), "Factor"))
            cur = c[0] if len(c) == 1 else None
    while cur and cur in B and cur not in seen:
        seen.add(cur)
        info = analyse_level(B, cur)
        if info is None:
            break
        chain.append(cur)
        lvl = cur.split("::")[-1]
        nxt, ops, cutn = info["left"], info["ops"], info["right"]
        rep.check(info["nrep"] == 1 and info["nlevel"] == 1, "C02-R1", "%s:shape" % len(chain),
                  "level %s is not a single `many0(pair(op, next))` repetition (repetitions=%d, of which operator/operand repetitions=%d)" % (lvl, info["nrep"], info["nlevel"]), B[cur].where())
        rep.check(len(cutn) == 1 and cutn[0] == nxt, "C02-R1", "level%d:same-next-both-sides" % len(chain),
                  "level %s parses its left operand with %s but its right operands with %s: operators of this level no longer group left-to-right at one level (e.g. a ^ b ^ c parses as a ^ (b ^ c))" % (lvl, nxt, cutn),
                  B[cur].where(), sample={"level": cur, "left": nxt, "ops": ops, "right": cutn})
        rep.check(nxt != cur and nxt not in chain, "C02-R1", "level%d:descends" % len(chain), "level %s recurses into itself or a looser level (%s)" % (lvl, nxt), B[cur].where())
        if info["via"]:
            rep.note("delegated_level", {"level": cur, "via": info["via"]})
        # operator class of this level: FormulaOperator variants constructed by the op parsers (in their body, closures,
        # non-parser helpers, or as a constructor passed to a combinator)
        cls = set()
        for o in ops:
            if o in B:
                cls |= View(B, o, stop=is_parser).variants("nodes::FormulaOperator")
        classes.append(cls)
        cur = nxt
    rep.floor("C02-R1", "grammar levels between formula and factor", len(chain), 7)
    rep.check(cur == EXPR + "factor", "C02-R1", "chain-ends-at-factor", "the level chain ends at %s, not at `factor`" % cur)
    # R2 order
    for i, want in enumerate(ORDER):
        got = classes[i] if i < len(classes) else None
        rep.check(got == want, "C02-R2", "level%d:class" % (i + 1),
                  "grammar level %d accepts operator classes %s, documented precedence requires %s" % (i + 1, sorted(got) if got is not None else None, sorted(want)),
                  B[chain[i]].where() if i < len(chain) else "", sample={"level": chain[i] if i < len(chain) else None, "classes": sorted(got or [])})
    rep.check(len(classes) == len(ORDER), "C02-R2", "level-count", "found %d operator levels, expected %d" % (len(classes), len(ORDER)))
    allc = [c for cl in classes for c in cl]
    rep.check(len(allc) == len(set(allc)), "C02-R2", "classes-disjoint", "an operator class appears on two levels: %s" % sorted(allc))
    # unary operators take a factor
    fac = EXPR + "factor"
    for u, var in (("negate_factor", "Negate"), ("not_factor", "Not")):
        if not rep.check(B.get(EXPR + u) is not None, "C02-R2", "anchor:%s" % u, "%s not found" % u):
            continue
        uv = View(B, EXPR + u, stop=is_parser)
        ub = B[EXPR + u]
        # the operand parser: every formula-level / factor parser that the unary parser (or a helper / closure of it) calls or hands on
        operand = sorted(c for c in uv.mentioned() if c in chain or c in (fac, start))
        rep.check(operand == [fac], "C02-R2", "%s:operand-is-factor" % u, "%s parses its operand with %s instead of `factor`: the unary operator no longer binds tightest" % (u, operand), ub.where())
        rep.check(var in uv.variants("nodes::Factor"), "C02-R2", "%s:builds-%s" % (u, var), "%s does not build Factor::%s" % (u, var), ub.where())
    fb = B.get(fac)
    if fb:
        rep.check("Transpose" in View(B, fac, stop=is_parser).variants("nodes::Factor"), "C02-R2", "factor:transpose-wraps-factor",
                  "postfix transpose is no longer applied inside `factor`", fb.where())
        # factor's alternatives include the parenthetical, negate and not parsers
        reach1 = cg.reach([fac])
        for need in ("parenthetical_term", "negate_factor", "not_factor"):
            rep.check((EXPR + need) in reach1, "C02-R2", "factor:alt:%s" % need, "`factor` no longer tries %s" % need, fb.where())
    # R4 parser side
    pb = B.get(EXPR + "parenthetical_term")
    if rep.check(pb is not None, "C02-R4", "anchor:parenthetical_term", "parenthetical_term not found"):
        pv = View(B, EXPR + "parenthetical_term", stop=is_parser)
        ment = pv.mentioned()
        rep.check(start in ment, "C02-R4", "parenthetical:inner-is-formula", "parenthetical_term does not parse a full `formula` between the parentheses", pb.where())
        rep.check("Parenthetical" in pv.variants("nodes::Factor"), "C02-R4", "parenthetical:builds-node", "does not build Factor::Parenthetical", pb.where())
        rep.check(any("left_parenthesis" in m for m in ment) and any("right_parenthesis" in m for m in ment), "C02-R4", "parenthetical:delimiters", "parenthetical_term does not use both parenthesis leaves", pb.where())

    # ---- interpreter side (syn)
    items = F.syn("mech_interpreter.lib")
    term = [it for it in items if it["k"] == "fn" and it["name"] == "term" and it["mod"].endswith("expressions")]
    if rep.check(len(term) == 1, "C02-R3", "anchor:term", "interpreter term() not found"):
        tb = [b for b in F.bodies("mech_interpreter.lib") if b.fn.endswith("::expressions::term") and "{closure#" not in b.fn]
        check_term(rep, term[0], items, tb[0] if len(tb) == 1 else None)
    fct = [it for it in items if it["k"] == "fn" and it["name"] == "factor" and it["mod"].endswith("expressions")]
    if rep.check(len(fct) == 1, "C02-R4", "anchor:interp-factor", "interpreter factor() not found"):
        rep.check(paren_evaluates_inner(fct[0]), "C02-R4", "interp:parenthetical-evaluates-inner", "Factor::Parenthetical is not evaluated by a single recursive factor() call on its inner formula")
    rep.analysed = {"levels": chain, "classes": [sorted(c) for c in classes]}


def paren_evaluates_inner(fct):
    """the Parenthetical case - a `match` arm or an `if let` - makes exactly one recursive factor() call whose first argument is
    the bound inner formula (directly or through a local computed from it)"""
    body = fct["body"]
    for pat, scrut, arm in pattern_bodies(body):
        for p in find(pat, "pts"):
            if last_seg(p[1]) != "Parenthetical":
                continue
            binders = pat_idents(p)
            if not binders:
                continue
            # locals of the arm computed from the binder count as the binder
            derived = set(binders)
            for _ in range(3):
                for st in find(arm, "let"):
                    if len(st) > 2 and st[2] is not None and any(mentions(st[2], d) for d in list(derived)):
                        derived.update(pat_idents(st[1]))
            calls = [c for c in find(arm, "call") if last_seg(path_of(c[1]) or "") == "factor"]
            if len(calls) == 1 and calls[0][2] and any(mentions(calls[0][2][0], d) for d in derived):
                return True
    return False


def _unwrap_pat(p):
    while is_node(p) and p[0] in ("ptype", "pref"):
        p = p[1] if p[0] == "ptype" else p[2]
    return p


LOOPS = ("for", "while", "loop")


def exit_sites(stmts):
    """control transfers in a loop body that concern THAT loop: yields (kind, node, enclosing statement list, index of the statement)
    for `break` (without a value: a value-carrying break belongs to an inner `loop` / labelled block), `continue` - both not looked for
    inside inner loops or closures - and `return` (looked for everywhere except closures)."""
    out = []

    def expr(e, ctx, inner):
        if not isinstance(e, list):
            return
        if not is_node(e):
            for x in e:
                expr(x, ctx, inner)
            return
        t = e[0]
        if t == "closure":
            return
        if t == "break":
            if not inner and (len(e) < 2 or e[1] is None):
                out.append(("break", e) + ctx)
            if len(e) > 1:
                expr(e[1], ctx, inner)
            return
        if t == "continue":
            if not inner:
                out.append(("continue", e) + ctx)
            return
        if t == "ret":
            out.append(("return", e) + ctx)
            expr(e[1], ctx, inner)
            return
        if t in ("block", "unsafe"):
            block(e[1], inner)
            return
        if t == "if":
            expr(e[1], ctx, inner)
            block(e[2], inner)
            expr(e[3], ctx, inner)
            return
        if t == "match":
            expr(e[1], ctx, inner)
            for arm in e[2]:
                expr(arm[1], ctx, inner)
                a = arm[2]
                if is_node(a) and a[0] in ("block", "unsafe"):
                    block(a[1], inner)
                else:
                    block([["expr", a, False]], inner)
            return
        if t == "for":
            expr(e[2], ctx, inner)
            block(e[3], True)
            return
        if t == "while":
            expr(e[1], ctx, True)
            block(e[2], True)
            return
        if t == "loop":
            block(e[1], True)
            return
        for x in e[1:]:
            expr(x, ctx, inner)

    def block(stmts_, inner):
        for i, st in enumerate(stmts_ or []):
            if not is_node(st):
                continue
            if st[0] == "let":
                expr(st[2], (stmts_, i), inner)
                if len(st) > 3:
                    expr(st[3], (stmts_, i), inner)
            elif st[0] == "expr":
                expr(st[1], (stmts_, i), inner)
    block(stmts, False)
    return out


def mir_fold_exits(tb, acc_name):
    """MIR view of `the fold consumes every (operator, operand) pair`: L = the CFG cycle of term() that evaluates operands (calls the
    interpreter's factor()). (a) every edge leaving L starts at the switch on the discriminant of an `Iterator::next` result (the
    iteration is exhausted) or leads to error returns only; (b) no path through L from one `next` to the following one avoids writing
    the accumulator. Returns None when there is no such cycle (closure forms), else a list of problems (empty = holds)."""
    fac = [i for i, t in tb.calls() if re.search(r"::expressions::factor$", callee(t))]
    L = set()
    for i in fac:
        fwd = tb.reachable_from(tb.succ(i))
        if i in fwd:
            bwd, st = set(), [i]
            while st:
                x = st.pop()
                if x not in bwd:
                    bwd.add(x)
                    st.extend(tb.pred(x))
            L |= fwd & bwd
    if not L:
        return None
    _reach = {}

    def reach_from(d):
        if d not in _reach:
            _reach[d] = tb.reachable_from([d])
        return _reach[d]
    problems = []
    # the loop's own iterator: the `next` call(s) every operand evaluation of the cycle is dominated by (not some other `.next()` in the body)
    infac = [i for i in fac if i in L]
    nexts = [(i, t) for i, t in tb.calls() if i in L and re.search(r"Iterator>::next$|::next$", callee(t)) and all(tb.dominates(i, f) for f in infac)]
    allowed = set()
    for i, t in nexts:
        d = t["d"][0]
        alias = {d}
        for j in sorted(L):
            blk = tb.blocks[j]
            for st in blk["s"]:
                if st.get("rk") in ("discr", "use") and st.get("src") and isinstance(st["src"][0], list) and st["src"][0][0] in alias and st["src"][0][1] == "":
                    alias.add(st["d"][0])
            tt = blk["t"]
            if tt["k"] == "switch" and isinstance(tt.get("on"), list) and tt["on"][0] in alias:
                allowed.add(j)
    ok_blocks, _err = result_exits(tb)
    rets = set(tb.ret_blocks())
    for j in sorted(L):
        for d in tb.succ(j):
            if d in L or j in allowed:
                continue
            reach = reach_from(d)
            if not (reach & rets):
                continue        # diverges (unreachable / panic / todo!): not a way to finish the fold with a value
            if reach & ok_blocks:
                problems.append("the loop is left at line %s without the operand list being exhausted and not through an error return" % tb.blocks[j]["t"].get("l", "?"))
            elif not any(tb.blocks[x]["t"]["k"] == "call" and callee(tb.blocks[x]["t"]).endswith("from_residual") and tb.blocks[x]["t"]["d"][0] == 0 for x in reach | {j}) \
                    and not any(st["d"][0] == 0 and st.get("rk") == "agg" and st.get("var") == "Err" for x in reach | {j} for st in tb.blocks[x]["s"]):
                # leaves the loop towards a return that is neither Ok(..) nor Err(..) / `?`: a value computed elsewhere (e.g. `return helper(..)`)
                problems.append("the loop is left at line %s through a return whose value is not an error" % tb.blocks[j]["t"].get("l", "?"))
    acc = tb.var_local(acc_name) if acc_name else None
    if acc is not None and nexts:
        writers = set()
        for j in L:
            blk = tb.blocks[j]
            if any(st["d"][0] == acc and st["d"][1] == "" for st in blk["s"]) or (blk["t"]["k"] == "call" and blk["t"]["d"][0] == acc and blk["t"]["d"][1] == ""):
                writers.add(j)
        heads = {i for i, _ in nexts}
        outside = set(range(len(tb.blocks))) - L
        for h in heads:
            if h in writers:
                continue
            starts = [x for x in tb.succ(h) if x in L]
            seen = tb.reachable_from(starts, avoid=writers | outside)
            if seen & heads:
                problems.append("an iteration can reach the next one without replacing the accumulator: a (operator, operand) pair is skipped")
                break
    return problems


def check_term(rep, it, items, tb=None):
    """left fold in term(): roles are identified by provenance (which component of the `&Term` parameter a value is computed from),
    by callee (`factor`, `.compile`, `.out`) and by position - never by the spelling of a local."""
    body = it["body"]
    P = Prov(it)
    tp = param_names(it, r"\bTerm\b")
    ti = tp[0][0] if len(tp) == 1 else None
    comp_l, comp_r = (ti, "lhs"), (ti, "rhs")
    params = {n for _, n in param_names(it)}

    def comps(e):
        """parameter components the value of e is computed from; member accesses `param.field` count as the member, not the whole"""
        out = set()
        st = [e]
        while st:
            x = st.pop()
            if is_node(x) and x[0] in ("path", "field"):
                ex = P.exact(x)
                if ex is not None:
                    out.add(ex)
                    continue
                if x[0] == "path":
                    out |= set(P.roots(x))
                    continue
            if isinstance(x, list):
                st.extend(y for y in x if isinstance(y, list))
        return out

    def is_list(e, comp, depth=0):
        """e IS the term's list `comp`, seen through references, copies and order-preserving complete views (`.iter()` ..), or a local
        every initialiser of which is"""
        e = peel(e, SEQ_VIEWS)
        if is_node(e) and e[0] in ("path", "field") and P.exact(e) == comp:
            return True
        p = path_of(e)
        if p and p not in params and depth < 4:
            inits = inits_of(body, p)
            return bool(inits) and all(is_list(i, comp, depth + 1) for i in inits)
        return False

    def determined_by(e):
        """e and, transitively, the initialisers of the locals it names"""
        out, frontier, seen = [e], [e], set(params)
        for _ in range(4):
            nxt = []
            for x in frontier:
                for pth in find(x, "path"):
                    if isinstance(pth[1], str) and pth[1] not in seen:
                        seen.add(pth[1])
                        nxt.extend(inits_of(body, pth[1]))
            out.extend(nxt)
            frontier = nxt
        return out

    def touches_rhs_list(e):
        return any(n[0] in ("path", "field") and P.exact(n) == comp_r for x in determined_by(e) for n in find_any(x))

    def find_any(x):
        return (n for n in walk(x) if n[0] in ("path", "field"))

    # ---- the fold loop: a `for` over (something determined by) the term's rhs list; with several, the one that compiles operators
    cands = [f for f in find(body, "for") if ti is not None and touches_rhs_list(f[2])]
    fold = None
    if cands:
        fold = max(cands, key=lambda f: sum(1 for m in find(f[3], "mcall") if m[2] == "compile") + sum(1 for c in find(f[3], "call") if last_seg(path_of(c[1]) or "") == "factor"))
    fold_call = None
    if fold is None and ti is not None:
        # the same fold written with an iterator adaptor: `list.iter().try_fold(init, |acc, (op, rhs)| ..)` / `.fold(..)`
        for m in find(body, "mcall"):
            if m[2] in ("fold", "try_fold") and len(m[4]) == 2 and is_node(m[4][1]) and m[4][1][0] == "closure" and touches_rhs_list(m[1]):
                cl = m[4][1]
                cb = cl[2][1] if is_node(cl[2]) and cl[2][0] == "block" else [["expr", cl[2], False]]
                fold_call = m
                fold = ["for", ["ptuple", cl[1][1:]], m[1], cb]
    if not rep.check(fold is not None, "C02-R3", "term:loop-over-rhs", "term() has no loop over the term's rhs list"):
        return
    itx = render(fold[2])
    lbody = fold[3]
    forward = is_list(fold[2], comp_r)
    if not forward and is_node(fold[2]) and fold[2][0] == "range":
        # index loop `for i in 0..list.len()`: forwards iff every element access into the list uses exactly the loop variable
        lo, hi = fold[2][1], fold[2][2]
        pv = _unwrap_pat(fold[1])
        hi_ok = is_node(hi) and hi[0] == "mcall" and hi[2] == "len" and is_list(hi[1], comp_r) and not fold[2][3]
        if is_node(lo) and lo[0] == "int" and lo[1] == "0" and hi_ok and is_node(pv) and pv[0] == "pident":
            idx = [ix for ix in find(lbody, "index") if is_list(ix[1], comp_r)]
            forward = bool(idx) and all(path_of(ix[2]) == pv[1] for ix in idx)
    rep.check(forward, "C02-R3", "term:forward-iteration",
              "term() iterates the operator list as `%s` (not the rhs list itself, front to back)" % itx, sample={"iterator": itx})
    # ---- accumulator: a mutable local declared outside the loop and computed from the term's lhs
    inside = {id(n) for n in walk(fold)}
    acc = None
    if fold_call is not None:
        # accumulator = first closure parameter, seeded with a value computed from the term's lhs
        a0 = _unwrap_pat(fold_call[4][1][1][0]) if fold_call[4][1][1] else None
        if is_node(a0) and a0[0] == "pident" and comp_l in comps(fold_call[4][0]):
            acc = a0[1]
    for st in ([] if fold_call is not None else find(body, "let")):
        if id(st) in inside or len(st) < 3 or st[2] is None:
            continue
        pat = _unwrap_pat(st[1])
        if is_node(pat) and pat[0] == "pident" and pat[3] and comp_l in comps(st[2]):
            acc = pat[1]
    if not rep.check(acc is not None, "C02-R3", "term:accumulator", "no mutable accumulator initialised from the term's lhs"):
        return

    # ---- right operand: evaluated inside the loop by factor() from the loop element
    # names that stand for (parts of) the current element: the loop pattern and loop-body locals computed from it
    elem = set(pat_idents(fold[1]))
    if fold_call is not None and acc in elem:
        elem.discard(acc)
    for _ in range(3):
        for st in find(lbody, "let"):
            if len(st) > 2 and st[2] is not None and any(mentions(st[2], e_) for e_ in list(elem)):
                elem.update(pat_idents(st[1]))

    def is_factor_of_elem(e):
        return any(last_seg(path_of(c[1]) or "") == "factor" and comp_r in comps(c) and any(mentions(c[2], e_) for e_ in elem) for c in find(e, "call"))
    rhs_names = set()
    for st in find(lbody, "let"):
        if len(st) > 2 and st[2] is not None and is_factor_of_elem(st[2]):
            pat = _unwrap_pat(st[1])
            if is_node(pat) and pat[0] == "pident":
                rhs_names.add(pat[1])
    inline_rhs = any(is_factor_of_elem(c) for c in find(lbody, "call") if last_seg(path_of(c[1]) or "") == "factor")
    rep.check(bool(rhs_names) or inline_rhs, "C02-R3", "term:rhs-evaluated", "the right operand is not evaluated with factor() inside the loop")

    def role_top(x):
        y = peel(x)
        if path_of(y) == acc:
            return "acc"
        if path_of(y) in rhs_names:
            return "rhs"
        if is_node(y) and y[0] == "call" and last_seg(path_of(y[1]) or "") == "factor" and is_factor_of_elem(y):
            return "rhs"
        return None

    # ---- every operator compiler call of the loop - in the loop body or in a helper fn the loop hands (accumulator, rhs) to -
    # gets [accumulator, rhs] in that order
    st_ = {"n": 0, "bad": [], "site_ids": set(), "helper_calls": set(), "out_helpers": set()}

    def scan(stmts, role, depth):
        n0 = st_["n"]
        for mc in find(stmts, "mcall"):
            if mc[2] != "compile" or not (is_node(mc[1]) and mc[1][0] == "struct"):
                continue
            arrs = [a for a in find(mc[4], "array")]
            if not arrs:
                continue
            el = [role(x) for x in arrs[-1][1]]
            st_["n"] += 1
            st_["site_ids"].add(id(mc))
            if el != ["acc", "rhs"]:
                st_["bad"].append((mc[1][1], [render(x) for x in arrs[-1][1]]))
        if depth > 0:
            for c in find(stmts, "call"):
                if last_seg(path_of(c[1]) or "") in ("factor", it["name"]):
                    continue
                h, pn = bind_call(items, c, it["mod"])
                if h is None:
                    continue
                roles = [role(a) for a in c[2]]
                if roles.count("acc") != 1 or roles.count("rhs") != 1:
                    continue
                pa, pr = pn[roles.index("acc")], pn[roles.index("rhs")]
                if pa is None or pr is None:
                    continue
                before = st_["n"]
                scan(h["body"], lambda x, pa=pa, pr=pr: "acc" if path_of(peel(x)) == pa else "rhs" if path_of(peel(x)) == pr else None, depth - 1)
                if st_["n"] > before:
                    st_["helper_calls"].add(id(c))
                    if any(m[2] == "out" and not m[4] for m in find(h["body"], "mcall")):
                        st_["out_helpers"].add(id(c))
        return st_["n"] - n0
    scan(lbody, role_top, 2)
    n, bad = st_["n"], st_["bad"]
    rep.floor("C02-R3", "operator compiler calls inside the fold", n, 30)
    rep.check(not bad, "C02-R3", "term:argument-order", "operator compilers are not called with (accumulator, rhs) in that order: %s" % bad[:5],
              sample={"accumulator": acc, "rhs": sorted(rhs_names), "calls": n})
    # ---- accumulator replaced by the result: `acc = <the compiled function>.out()` directly, through a local, or from a helper that
    # compiles, solves and returns the output
    produced = st_["site_ids"] | st_["helper_calls"]
    holders = set()
    for st in find(lbody, "let"):
        if len(st) > 2 and st[2] is not None and any(id(n_) in produced for n_ in walk(st[2])):
            holders.update(pat_idents(st[1]))

    def from_out(e, depth=0):
        for m in find(e, "mcall"):
            if m[2] == "out" and not m[4]:
                r = peel(m[1])
                if path_of(r) in holders or any(id(n_) in produced for n_ in walk(r)):
                    return True
        if any(id(c) in st_["out_helpers"] for c in find(e, "call")):
            return True
        y = peel(e)
        while is_node(y) and y[0] == "call" and last_seg(path_of(y[1]) or "") in ("Ok", "Some") and len(y[2]) == 1:
            y = peel(y[2][0])
        p = path_of(y)
        if p and p != acc and p not in params and depth < 3:
            return any(from_out(i, depth + 1) for i in inits_of(lbody, p))
        return False
    assigns = [a for a in find(lbody, "assign") if path_of(a[1]) == acc]
    updated = any(from_out(a[2]) for a in assigns)
    if fold_call is not None and lbody:
        # closure form: the next accumulator is the closure's value (tail expression)
        tail = lbody[-1]
        updated = tail[0] == "expr" and not (len(tail) > 2 and tail[2]) and from_out(tail[1])
    rep.check(updated, "C02-R3", "term:accumulator-updated", "the accumulator is not replaced by the operator's output each iteration")

    # ---- the fold consumes EVERY (operator, operand) pair: the iteration over the rhs list has no exit other than error propagation,
    # and no iteration is completed without applying its operator. (Adaptors that drop elements - take / take_while / skip / filter /
    # step_by .. - are excluded by term:forward-iteration: the iterator must be the list itself.)
    def is_error_value(e, depth=0):
        y = peel(e)
        if is_node(y) and y[0] == "call" and last_seg(path_of(y[1]) or "") == "Err":
            return True
        if is_node(y) and y[0] == "mcall" and is_error_value(y[1], depth):      # Err(..).map_err(..) / error builder chains on an Err
            return True
        p = path_of(y)
        if p and p != acc and p not in params and depth < 2:
            ins = inits_of(lbody, p)
            return bool(ins) and all(is_error_value(i, depth + 1) for i in ins)
        if is_node(y) and y[0] == "call" and depth < 2:
            h, _pn = bind_call(items, y, it["mod"])
            if h is not None and h["name"] != it["name"]:
                # a helper all of whose results are errors (`return unhandled_operator(op, trm)`)
                outs = [r[1] for r in find(h["body"], "ret")]
                if h["body"] and h["body"][-1][0] == "expr" and not (len(h["body"][-1]) > 2 and h["body"][-1][2]):
                    outs.append(h["body"][-1][1])
                return bool(outs) and all(o is not None and is_error_value(o, depth + 1) for o in outs)
        return False

    def assigns_acc_before(stmts_, idx):
        return any(is_node(st) and st[0] == "expr" and is_node(st[1]) and st[1][0] == "assign" and path_of(st[1][1]) == acc for st in stmts_[:idx])
    syn_problems = []
    for kind, node, stmts_, idx in exit_sites(lbody):
        if fold_call is None:
            if kind == "break":
                syn_problems.append("`break` leaves the loop before the operand list is exhausted")
            elif kind == "return" and not is_error_value(node[1]):
                syn_problems.append("`return %s` leaves the loop with a value" % render(node[1])[:60])
            elif kind == "continue" and not assigns_acc_before(stmts_, idx):
                syn_problems.append("`continue` skips the application of the operator")
        elif kind == "return" and not is_error_value(node[1]):
            # closure form: `return v` hands v to the next iteration; handing on the unchanged accumulator skips the operator
            v = peel(node[1])
            while is_node(v) and v[0] == "call" and last_seg(path_of(v[1]) or "") in ("Ok", "Some", "Continue") and len(v[2]) == 1:
                v = peel(v[2][0])
            if path_of(v) == acc:
                syn_problems.append("the closure returns the unchanged accumulator: the operator is not applied")
    if fold_call is not None:
        cl = fold_call[4][1]
        if any(last_seg(pth[1]) == "Break" or "ControlFlow" in pth[1] for pth in find(cl, "path") if isinstance(pth[1], str)):
            syn_problems.append("the fold closure can stop the iteration with ControlFlow::Break")
        if fold_call[2] == "try_fold":
            # the only early exit of try_fold is its Err/None/Break value: it must be propagated (`?` / returned), not turned into a result
            propagated = any(t_[1] is fold_call for t_ in find(body, "try")) or any(r[1] is fold_call for r in find(body, "ret")) \
                or (body and body[-1][0] == "expr" and body[-1][1] is fold_call)
            if not propagated:
                syn_problems.append("the early exit value of try_fold is not propagated as an error")
    problems = syn_problems
    if fold_call is None and tb is not None:
        mp = mir_fold_exits(tb, acc)
        if mp is not None:
            # the control-flow graph decides for loops; the syntactic reading is kept as evidence when they disagree
            if syn_problems and not mp:
                rep.note("fold_exit_syntactic_only", syn_problems[:5])
            problems = mp
    rep.check(not problems, "C02-R3", "term:consumes-every-pair",
              "term() does not fold over every (operator, operand) pair of the term: %s (the remaining pairs are dropped, so `a && b || c` no longer equals `(a && b) || c`)" % "; ".join(sorted(set(problems))[:4]))
