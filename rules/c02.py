"""C02 — precedence and left associativity: grammar level chain, operator classes per level, left fold in term(), parentheses."""
import re
from lib.facts import CallGraph, find, is_node, path_of, fns_in_type, render, last_seg, walk
from lib.mirview import View, callee
from lib.provenance import Prov, param_names
from lib.synflow_c02 import SEQ_VIEWS, bind_call, inits_of, mentions, pat_idents, pattern_bodies, peel

TECHNIQUE = ("grammar-level chain from the MIR of the parser crate: a level is a fn holding one repetition (nom many0 / fold_many0 whose argument type names the "
             "operator parsers and operand parsers - identified by their signature - or a hand-written parse loop), in its own body or in a helper / closure it "
             "delegates to (lib/mirview.View); operator-class sets from aggregates and constructor values in the operator parsers' views; left-fold shape of "
             "term() from the expanded syntax with roles assigned by provenance (components of the &Term parameter), callee and position, followed into helper "
             "fns the loop hands (accumulator, rhs) to; the parenthetical case as match arm or if-let")
EXPLANATION = (
    "Decides C02 as a statement about grammar shape: (R1) starting at `formula`, every level is `next (op next)*` with the SAME next level on both sides "
    "(so grouping within a level is iterative/left and a level never recurses into itself or a looser level); (R2) the operator classes per level, from "
    "loosest to tightest, are logic < comparison < add/sub < mul/div/mod + matrix < power < table < set, disjoint, and unary minus / not take a `factor` "
    "operand while postfix transpose wraps a factor; (R3) term() folds left: it iterates the rhs list forwards, passes (accumulator, rhs) in that order to "
    "the operator and replaces the accumulator by the result; (R4) a parenthetical parses a full formula between the parentheses and evaluates it as a "
    "unit. With C01-R3 (each operator kernel computes lhs OP rhs) the value of an unparenthesised formula equals its parenthesised rendering by construction."
)

ORDER = [{"Logic"}, {"Comparison"}, {"AddSub"}, {"MulDiv", "Vec"}, {"Power"}, {"Table"}, {"Set"}]


PARSE_IN = "mech_syntax::ParseString"
EXPR = "mech_syntax::expressions::"


def is_parser(b):
    """grammar symbol: fn(ParseString) -> ParseResult<_>; such fns are never treated as part of another fn's own code"""
    return b is not None and "{closure#" not in b.fn and b.nargs == 1 and len(b.locals) > 1 and b.locals[1].startswith(PARSE_IN)


def parses(b, node):
    """grammar symbol producing the AST node type `node` (identified by signature, not by name)"""
    return is_parser(b) and ("mech_core::nodes::%s)" % node) in b.locals[0]


REPEAT = re.compile(r"^nom::multi::(many0|fold_many0)$")
INDIRECT = re.compile(r"^core::ops::function::Fn(Mut|Once)?::call(_mut|_once)?$")


def crate_fns_in(B, type_str, depth=2):
    """crate fns named inside a (combinator / closure) type, looking into the crate's own closures that the type contains:
    `many0(pair(op, cut(next)))`, `many0(tuple((op, cut(next))))` and `many0(|i| { .. op(i) .. next(i) .. })` all name op and next"""
    out, todo, seen = [], [f for f in fns_in_type(type_str) if f.startswith("mech_syntax::")], set()
    for _ in range(depth + 1):
        nxt = []
        for f in todo:
            if f in seen:
                continue
            seen.add(f)
            if "{closure#" in f:
                if f in B:
                    nxt.extend(m for m in B[f].mentioned_fns() if m.startswith("mech_syntax::"))
            else:
                out.append(f)
        todo = nxt
    return out


def cycle_blocks(b):
    """blocks of a MIR body that lie on a CFG cycle (normal edges)"""
    out = set()
    for i in range(len(b.blocks)):
        if b.blocks[i]["cl"]:
            continue
        if i in b.reachable_from(b.succ(i)):
            out.add(i)
    return out


def has_parse_loop(B, b):
    """a hand-written repetition: a CFG cycle that applies a parser (directly, through a parameter or a fn pointer)"""
    cyc = cycle_blocks(b)
    for i, t in b.calls():
        if i in cyc:
            c = callee(t)
            if "fp" in t or INDIRECT.match(t["tf"]) or is_parser(B.get(c)):
                return True
    return False


def level_info(B, b):
    """for a grammar level body: (left operand callee, [(op parser fns, next fns)] per repetition, number of repetitions).
    The left operand is the Factor parser the body calls directly outside the repetition (helpers with another signature - e.g. an
    extracted `fold(first, rest)` - are not operands, wherever they sit in the block order). A repetition is a nom `many0` /
    `fold_many0` whose parser argument's TYPE names the operator parsers (fns returning FormulaOperator) and the right operand
    parsers (fns returning Factor) - whichever of pair / tuple / closure glues them together - or a hand-written loop that calls them."""
    cyc = None
    first = None
    reps = []
    nrep = 0
    for i, t in b.calls():
        if REPEAT.match(callee(t)):
            nrep += 1
            fns = crate_fns_in(B, " ".join(t["ga"]))
            ops = [f for f in fns if parses(B.get(f), "FormulaOperator")]
            nxt = [f for f in fns if parses(B.get(f), "Factor")]
            if ops and nxt:
                reps.append((ops, nxt))
    if not nrep:
        cyc = cycle_blocks(b)
        used = set()
        for i, t in b.calls():
            if i in cyc:
                used.add(callee(t))
                for g in t.get("ga", []):
                    used.update(fns_in_type(g))
                for a in list(t["args"]) + ([t["fp"]] if "fp" in t else []):
                    if isinstance(a, dict) and "fn" in a:
                        used.update(fns_in_type(a["fn"]))
        ops = sorted(f for f in used if parses(B.get(f), "FormulaOperator"))
        nxt = sorted(f for f in used if parses(B.get(f), "Factor"))
        if ops and nxt:
            nrep = 1
            reps.append((ops, nxt))
    for i, t in b.calls():
        c = callee(t)
        if c.startswith("mech_syntax::") and parses(B.get(c), "Factor") and not (cyc and i in cyc):
            first = c
            break
    return first, reps, nrep


def analyse_level(B, cur):
    """-> None when `cur` is not a repetition level, else {left, ops, right, nrep, via}.
    Direct form: the body itself holds the repetition - operands are read from the types / calls of the repetition (level_info).
    Delegated form: the repetition sits in a helper of the crate that `cur` calls (`level(input, NEXT, OP)`, `level(NEXT, OP)(input)`,
    fn pointers, generics or `impl Fn`): the operand parsers are the Factor parsers that flow into the view of `cur` (its body,
    closures and non-parser helpers). With exactly ONE Factor parser in the view both sides of the repetition necessarily use it;
    with more than one the positions cannot be told apart here and `left` stays None (fail closed)."""
    b = B[cur]
    first, reps, nrep = level_info(B, b)
    if reps:
        ops, nxt = reps[0]
        return {"left": first, "ops": ops, "right": sorted(set(nxt)), "nrep": nrep, "nlevel": len(reps), "via": None}
    V = View(B, cur, stop=is_parser)
    if len(V.bodies) < 2:
        return None
    nrep = sum(1 for _b, _i, t in V.calls() if REPEAT.match(callee(t)))
    nrep += sum(1 for vb in V.bodies if has_parse_loop(B, vb))
    if not nrep:
        return None
    ment = V.mentioned()
    nexts = sorted(m for m in ment if parses(B.get(m), "Factor"))
    ops = sorted(m for m in ment if parses(B.get(m), "FormulaOperator"))
    if not nexts or not ops:
        return None
    return {"left": nexts[0] if len(nexts) == 1 else None, "ops": ops, "right": nexts, "nrep": nrep, "nlevel": 1, "via": sorted(V.helpers)}


def run(F, rep, tier):
    rep.rule("C02-R1", "grammar chain from `formula`: each level is NEXT (OP NEXT)* with the same NEXT on both sides, 7 levels ending at `factor`")
    rep.rule("C02-R2", "operator classes per level in the documented order; classes disjoint; unary minus / not / transpose operate on a factor")
    rep.rule("C02-R3", "term() is a forward left fold with (accumulator, rhs) argument order")
    rep.rule("C02-R4", "parentheses: parser wraps a full formula; interpreter evaluates the inner formula as a unit")
    cg = CallGraph(F, ["mech_syntax.lib", "mech_core.lib"])
    B = cg.bodies
    start = EXPR + "formula"
    if not rep.check(start in B, "C02-R1", "anchor:formula", "grammar entry `formula` not found"):
        return
    chain = []
    seen = set()
    classes = []
    cur = start
    if analyse_level(B, start) is None:
        # `formula` is a pass-through to the loosest level: the Factor parser it calls (or hands to a wrapper)
        cur = level_info(B, B[start])[0]
        if cur is None:
            c = sorted(m for m in View(B, start, stop=is_parser).mentioned() if m != start and parses(B.get(m), "Factor"))
            cur = c[0] if len(c) == 1 else None
    while cur and cur in B and cur not in seen:
        seen.add(cur)
        info = analyse_level(B, cur)
        if info is None:
            break
        chain.append(cur)
        lvl = cur.split("::")[-1]
        nxt, ops, cutn = info["left"], info["ops"], info["right"]
        rep.check(info["nrep"] == 1 and info["nlevel"] == 1, "C02-R1", "%s:shape" % len(chain),
                  "level %s is not a single `many0(pair(op, next))` repetition (repetitions=%d, of which operator/operand repetitions=%d)" % (lvl, info["nrep"], info["nlevel"]), B[cur].where())
        rep.check(len(cutn) == 1 and cutn[0] == nxt, "C02-R1", "level%d:same-next-both-sides" % len(chain),
                  "level %s parses its left operand with %s but its right operands with %s: operators of this level no longer group left-to-right at one level (e.g. a ^ b ^ c parses as a ^ (b ^ c))" % (lvl, nxt, cutn),
                  B[cur].where(), sample={"level": cur, "left": nxt, "ops": ops, "right": cutn})
        rep.check(nxt != cur and nxt not in chain, "C02-R1", "level%d:descends" % len(chain), "level %s recurses into itself or a looser level (%s)" % (lvl, nxt), B[cur].where())
        if info["via"]:
            rep.note("delegated_level", {"level": cur, "via": info["via"]})
        # operator class of this level: FormulaOperator variants constructed by the op parsers (in their body, closures,
        # non-parser helpers, or as a constructor passed to a combinator)
        cls = set()
        for o in ops:
            if o in B:
                cls |= View(B, o, stop=is_parser).variants("nodes::FormulaOperator")
        classes.append(cls)
        cur = nxt
    rep.floor("C02-R1", "grammar levels between formula and factor", len(chain), 7)
    rep.check(cur == EXPR + "factor", "C02-R1", "chain-ends-at-factor", "the level chain ends at %s, not at `factor`" % cur)
    # R2 order
    for i, want in enumerate(ORDER):
        got = classes[i] if i < len(classes) else None
        rep.check(got == want, "C02-R2", "level%d:class" % (i + 1),
                  "grammar level %d accepts operator classes %s, documented precedence requires %s" % (i + 1, sorted(got) if got is not None else None, sorted(want)),
                  B[chain[i]].where() if i < len(chain) else "", sample={"level": chain[i] if i < len(chain) else None, "classes": sorted(got or [])})
    rep.check(len(classes) == len(ORDER), "C02-R2", "level-count", "found %d operator levels, expected %d" % (len(classes), len(ORDER)))
    allc = [c for cl in classes for c in cl]
    rep.check(len(allc) == len(set(allc)), "C02-R2", "classes-disjoint", "an operator class appears on two levels: %s" % sorted(allc))
    # unary operators take a factor
    fac = EXPR + "factor"
    for u, var in (("negate_factor", "Negate"), ("not_factor", "Not")):
        if not rep.check(B.get(EXPR + u) is not None, "C02-R2", "anchor:%s" % u, "%s not found" % u):
            continue
        uv = View(B, EXPR + u, stop=is_parser)
        ub = B[EXPR + u]
        # the operand parser: every formula-level / factor parser that the unary parser (or a helper / closure of it) calls or hands on
        operand = sorted(c for c in uv.mentioned() if c in chain or c in (fac, start))
        rep.check(operand == [fac], "C02-R2", "%s:operand-is-factor" % u, "%s parses its operand with %s instead of `factor`: the unary operator no longer binds tightest" % (u, operand), ub.where())
        rep.check(var in uv.variants("nodes::Factor"), "C02-R2", "%s:builds-%s" % (u, var), "%s does not build Factor::%s" % (u, var), ub.where())
    fb = B.get(fac)
    if fb:
        rep.check("Transpose" in View(B, fac, stop=is_parser).variants("nodes::Factor"), "C02-R2", "factor:transpose-wraps-factor",
                  "postfix transpose is no longer applied inside `factor`", fb.where())
        # factor's alternatives include the parenthetical, negate and not parsers
        reach1 = cg.reach([fac])
        for need in ("parenthetical_term", "negate_factor", "not_factor"):
            rep.check((EXPR + need) in reach1, "C02-R2", "factor:alt:%s" % need, "`factor` no longer tries %s" % need, fb.where())
    # R4 parser side
    pb = B.get(EXPR + "parenthetical_term")
    if rep.check(pb is not None, "C02-R4", "anchor:parenthetical_term", "parenthetical_term not found"):
        pv = View(B, EXPR + "parenthetical_term", stop=is_parser)
        ment = pv.mentioned()
        rep.check(start in ment, "C02-R4", "parenthetical:inner-is-formula", "parenthetical_term does not parse a full `formula` between the parentheses", pb.where())
        rep.check("Parenthetical" in pv.variants("nodes::Factor"), "C02-R4", "parenthetical:builds-node", "does not build Factor::Parenthetical", pb.where())
        rep.check(any("left_parenthesis" in m for m in ment) and any("right_parenthesis" in m for m in ment), "C02-R4", "parenthetical:delimiters", "parenthetical_term does not use both parenthesis leaves", pb.where())

    # ---- interpreter side (syn)
    items = F.syn("mech_interpreter.lib")
    term = [it for it in items if it["k"] == "fn" and it["name"] == "term" and it["mod"].endswith("expressions")]
    if rep.check(len(term) == 1, "C02-R3", "anchor:term", "interpreter term() not found"):
        check_term(rep, term[0], items)
    fct = [it for it in items if it["k"] == "fn" and it["name"] == "factor" and it["mod"].endswith("expressions")]
    if rep.check(len(fct) == 1, "C02-R4", "anchor:interp-factor", "interpreter factor() not found"):
        rep.check(paren_evaluates_inner(fct[0]), "C02-R4", "interp:parenthetical-evaluates-inner", "Factor::Parenthetical is not evaluated by a single recursive factor() call on its inner formula")
    rep.analysed = {"levels": chain, "classes": [sorted(c) for c in classes]}


def paren_evaluates_inner(fct):
    """the Parenthetical case - a `match` arm or an `if let` - makes exactly one recursive factor() call whose first argument is
    the bound inner formula (directly or through a local computed from it)"""
    body = fct["body"]
    for pat, scrut, arm in pattern_bodies(body):
        for p in find(pat, "pts"):
            if last_seg(p[1]) != "Parenthetical":
                continue
            binders = pat_idents(p)
            if not binders:
                continue
            # locals of the arm computed from the binder count as the binder
            derived = set(binders)
            for _ in range(3):
                for st in find(arm, "let"):
                    if len(st) > 2 and st[2] is not None and any(mentions(st[2], d) for d in list(derived)):
                        derived.update(pat_idents(st[1]))
            calls = [c for c in find(arm, "call") if last_seg(path_of(c[1]) or "") == "factor"]
            if len(calls) == 1 and calls[0][2] and any(mentions(calls[0][2][0], d) for d in derived):
                return True
    return False


def _unwrap_pat(p):
    while is_node(p) and p[0] in ("ptype", "pref"):
        p = p[1] if p[0] == "ptype" else p[2]
    return p


def check_term(rep, it, items):
    """left fold in term(): roles are identified by provenance (which component of the `&Term` parameter a value is computed from),
    by callee (`factor`, `.compile`, `.out`) and by position - never by the spelling of a local."""
    body = it["body"]
    P = Prov(it)
    tp = param_names(it, r"\bTerm\b")
    ti = tp[0][0] if len(tp) == 1 else None
    comp_l, comp_r = (ti, "lhs"), (ti, "rhs")
    params = {n for _, n in param_names(it)}

    def comps(e):
        """parameter components the value of e is computed from; member accesses `param.field` count as the member, not the whole"""
        out = set()
        st = [e]
        while st:
            x = st.pop()
            if is_node(x) and x[0] in ("path", "field"):
                ex = P.exact(x)
                if ex is not None:
                    out.add(ex)
                    continue
                if x[0] == "path":
                    out |= set(P.roots(x))
                    continue
            if isinstance(x, list):
                st.extend(y for y in x if isinstance(y, list))
        return out

    def is_list(e, comp, depth=0):
        """e IS the term's list `comp`, seen through references, copies and order-preserving complete views (`.iter()` ..), or a local
        every initialiser of which is"""
        e = peel(e, SEQ_VIEWS)
        if is_node(e) and e[0] in ("path", "field") and P.exact(e) == comp:
            return True
        p = path_of(e)
        if p and p not in params and depth < 4:
            inits = inits_of(body, p)
            return bool(inits) and all(is_list(i, comp, depth + 1) for i in inits)
        return False

    def determined_by(e):
        """e and, transitively, the initialisers of the locals it names"""
        out, frontier, seen = [e], [e], set(params)
        for _ in range(4):
            nxt = []
            for x in frontier:
                for pth in find(x, "path"):
                    if isinstance(pth[1], str) and pth[1] not in seen:
                        seen.add(pth[1])
                        nxt.extend(inits_of(body, pth[1]))
            out.extend(nxt)
            frontier = nxt
        return out

    def touches_rhs_list(e):
        return any(n[0] in ("path", "field") and P.exact(n) == comp_r for x in determined_by(e) for n in find_any(x))

    def find_any(x):
        return (n for n in walk(x) if n[0] in ("path", "field"))

    # ---- the fold loop: a `for` over (something determined by) the term's rhs list; with several, the one that compiles operators
    cands = [f for f in find(body, "for") if ti is not None and touches_rhs_list(f[2])]
    fold = None
    if cands:
        fold = max(cands, key=lambda f: sum(1 for m in find(f[3], "mcall") if m[2] == "compile") + sum(1 for c in find(f[3], "call") if last_seg(path_of(c[1]) or "") == "factor"))
    fold_call = None
    if fold is None and ti is not None:
        # the same fold written with an iterator adaptor: `list.iter().try_fold(init, |acc, (op, rhs)| ..)` / `.fold(..)`
        for m in find(body, "mcall"):
            if m[2] in ("fold", "try_fold") and len(m[4]) == 2 and is_node(m[4][1]) and m[4][1][0] == "closure" and touches_rhs_list(m[1]):
                cl = m[4][1]
                cb = cl[2][1] if is_node(cl[2]) and cl[2][0] == "block" else [["expr", cl[2], False]]
                fold_call = m
                fold = ["for", ["ptuple", cl[1][1:]], m[1], cb]
    if not rep.check(fold is not None, "C02-R3", "term:loop-over-rhs", "term() has no loop over the term's rhs list"):
        return
    itx = render(fold[2])
    lbody = fold[3]
    forward = is_list(fold[2], comp_r)
    if not forward and is_node(fold[2]) and fold[2][0] == "range":
        # index loop `for i in 0..list.len()`: forwards iff every element access into the list uses exactly the loop variable
        lo, hi = fold[2][1], fold[2][2]
        pv = _unwrap_pat(fold[1])
        hi_ok = is_node(hi) and hi[0] == "mcall" and hi[2] == "len" and is_list(hi[1], comp_r) and not fold[2][3]
        if is_node(lo) and lo[0] == "int" and lo[1] == "0" and hi_ok and is_node(pv) and pv[0] == "pident":
            idx = [ix for ix in find(lbody, "index") if is_list(ix[1], comp_r)]
            forward = bool(idx) and all(path_of(ix[2]) == pv[1] for ix in idx)
    rep.check(forward, "C02-R3", "term:forward-iteration",
              "term() iterates the operator list as `%s` (not the rhs list itself, front to back)" % itx, sample={"iterator": itx})
    # ---- accumulator: a mutable local declared outside the loop and computed from the term's lhs
    inside = {id(n) for n in walk(fold)}
    acc = None
    if fold_call is not None:
        # accumulator = first closure parameter, seeded with a value computed from the term's lhs
        a0 = _unwrap_pat(fold_call[4][1][1][0]) if fold_call[4][1][1] else None
        if is_node(a0) and a0[0] == "pident" and comp_l in comps(fold_call[4][0]):
            acc = a0[1]
    for st in ([] if fold_call is not None else find(body, "let")):
        if id(st) in inside or len(st) < 3 or st[2] is None:
            continue
        pat = _unwrap_pat(st[1])
        if is_node(pat) and pat[0] == "pident" and pat[3] and comp_l in comps(st[2]):
            acc = pat[1]
    if not rep.check(acc is not None, "C02-R3", "term:accumulator", "no mutable accumulator initialised from the term's lhs"):
        return

    # ---- right operand: evaluated inside the loop by factor() from the loop element
    # names that stand for (parts of) the current element: the loop pattern and loop-body locals computed from it
    elem = set(pat_idents(fold[1]))
    if fold_call is not None and acc in elem:
        elem.discard(acc)
    for _ in range(3):
        for st in find(lbody, "let"):
            if len(st) > 2 and st[2] is not None and any(mentions(st[2], e_) for e_ in list(elem)):
                elem.update(pat_idents(st[1]))

    def is_factor_of_elem(e):
        return any(last_seg(path_of(c[1]) or "") == "factor" and comp_r in comps(c) and any(mentions(c[2], e_) for e_ in elem) for c in find(e, "call"))
    rhs_names = set()
    for st in find(lbody, "let"):
        if len(st) > 2 and st[2] is not None and is_factor_of_elem(st[2]):
            pat = _unwrap_pat(st[1])
            if is_node(pat) and pat[0] == "pident":
                rhs_names.add(pat[1])
    inline_rhs = any(is_factor_of_elem(c) for c in find(lbody, "call") if last_seg(path_of(c[1]) or "") == "factor")
    rep.check(bool(rhs_names) or inline_rhs, "C02-R3", "term:rhs-evaluated", "the right operand is not evaluated with factor() inside the loop")

    def role_top(x):
        y = peel(x)
        if path_of(y) == acc:
            return "acc"
        if path_of(y) in rhs_names:
            return "rhs"
        if is_node(y) and y[0] == "call" and last_seg(path_of(y[1]) or "") == "factor" and is_factor_of_elem(y):
            return "rhs"
        return None

    # ---- every operator compiler call of the loop - in the loop body or in a helper fn the loop hands (accumulator, rhs) to -
    # gets [accumulator, rhs] in that order
    st_ = {"n": 0, "bad": [], "site_ids": set(), "helper_calls": set(), "out_helpers": set()}

    def scan(stmts, role, depth):
        n0 = st_["n"]
        for mc in find(stmts, "mcall"):
            if mc[2] != "compile" or not (is_node(mc[1]) and mc[1][0] == "struct"):
                continue
            arrs = [a for a in find(mc[4], "array")]
            if not arrs:
                continue
            el = [role(x) for x in arrs[-1][1]]
            st_["n"] += 1
            st_["site_ids"].add(id(mc))
            if el != ["acc", "rhs"]:
                st_["bad"].append((mc[1][1], [render(x) for x in arrs[-1][1]]))
        if depth > 0:
            for c in find(stmts, "call"):
                if last_seg(path_of(c[1]) or "") in ("factor", it["name"]):
                    continue
                h, pn = bind_call(items, c, it["mod"])
                if h is None:
                    continue
                roles = [role(a) for a in c[2]]
                if roles.count("acc") != 1 or roles.count("rhs") != 1:
                    continue
                pa, pr = pn[roles.index("acc")], pn[roles.index("rhs")]
                if pa is None or pr is None:
                    continue
                before = st_["n"]
                scan(h["body"], lambda x, pa=pa, pr=pr: "acc" if path_of(peel(x)) == pa else "rhs" if path_of(peel(x)) == pr else None, depth - 1)
                if st_["n"] > before:
                    st_["helper_calls"].add(id(c))
                    if any(m[2] == "out" and not m[4] for m in find(h["body"], "mcall")):
                        st_["out_helpers"].add(id(c))
        return st_["n"] - n0
    scan(lbody, role_top, 2)
    n, bad = st_["n"], st_["bad"]
    rep.floor("C02-R3", "operator compiler calls inside the fold", n, 30)
    rep.check(not bad, "C02-R3", "term:argument-order", "operator compilers are not called with (accumulator, rhs) in that order: %s" % bad[:5],
              sample={"accumulator": acc, "rhs": sorted(rhs_names), "calls": n})
    # ---- accumulator replaced by the result: `acc = <the compiled function>.out()` directly, through a local, or from a helper that
    # compiles, solves and returns the output
    produced = st_["site_ids"] | st_["helper_calls"]
    holders = set()
    for st in find(lbody, "let"):
        if len(st) > 2 and st[2] is not None and any(id(n_) in produced for n_ in walk(st[2])):
            holders.update(pat_idents(st[1]))

    def from_out(e, depth=0):
        for m in find(e, "mcall"):
            if m[2] == "out" and not m[4]:
                r = peel(m[1])
                if path_of(r) in holders or any(id(n_) in produced for n_ in walk(r)):
                    return True
        if any(id(c) in st_["out_helpers"] for c in find(e, "call")):
            return True
        y = peel(e)
        while is_node(y) and y[0] == "call" and last_seg(path_of(y[1]) or "") in ("Ok", "Some") and len(y[2]) == 1:
            y = peel(y[2][0])
        p = path_of(y)
        if p and p != acc and p not in params and depth < 3:
            return any(from_out(i, depth + 1) for i in inits_of(lbody, p))
        return False
    assigns = [a for a in find(lbody, "assign") if path_of(a[1]) == acc]
    updated = any(from_out(a[2]) for a in assigns)
    if fold_call is not None and lbody:
        # closure form: the next accumulator is the closure's value (tail expression)
        tail = lbody[-1]
        updated = tail[0] == "expr" and not (len(tail) > 2 and tail[2]) and from_out(tail[1])
    rep.check(updated, "C02-R3", "term:accumulator-updated", "the accumulator is not replaced by the operator's output each iteration")
