"""C13 — numeric literals (narrow): every literal form has an evaluator, prefix -> radix agreement, component order and use
(whole / fraction / exponent sign / numerator / denominator), negation keeps the variant."""
import re
from collections import defaultdict
from lib.facts import CallGraph, find, walk, is_node, path_of, render, render_stmt, render_pat, fns_in_type, strip_refs
from lib.provenance import Prov, within, comp_str, split_top, param_names
from lib.mirq import Slice

TECHNIQUE = ("table agreement parser leaf (prefix tag -> RealNumber variant) vs evaluator arm (variant -> from_str_radix radix); field-use and operand-order "
             "rules on the float / scientific / rational evaluators (roles = components of the evaluator's parameter, followed through the locals by lib.provenance, independent of local spellings); MIR provenance of the exponent-sign flag back to the parser that produced it; "
             "deviant-sibling check of the negation arms")
EXPLANATION = (
    "Decides structural clauses of C13 (narrow): (R1) every RealNumber variant a parser leaf constructs has an explicit evaluator arm in real(); (R2) the leaf "
    "that accepts 0x/0o/0b/0d builds the variant whose evaluator calls from_str_radix with 16/8/2/10; (R3) float and scientific put the whole part before "
    "and the fractional part after the point, the exponent-sign flag built by the parser derives only from the minus-sign parser (never from `+`) and the "
    "evaluator negates the exponent exactly when it is set; rational uses numerator then denominator and tests the denominator for zero before constructing; "
    "(R4) negated() maps every numeric variant to the same variant with unary minus. Not decided: rounding, clamping of suffixed literals, ordered-choice "
    "shadowing between token languages (e.g. `1e3`)."
    ' (R5) sibling partition of negated(); (R6) the digits of a suffixed integer are re-wrapped in the variant untyped_integer builds and converted by typed_literal, i.e. `300u8` and `300<u8>` share one digit evaluator and one conversion.'
    ' (R7) based-literal evaluators parse with <T>::from_str_radix where T is the payload type of the Value variant they build, without a cast.'
    " (R8) float-valued literal evaluators (float, integer, scientific) return the result of str::parse::<f64>() on text spelled from the literal's tokens; float arithmetic between the digits and the result is allowed only under a guard on the exponent's fractional digits (no decimal spelling exists there)."
    ' (R9) rational(): numerator and denominator are parsed with parse::<i64>() and reach R64::new without a cast or a detour through f64.'
    " (R10) suffixed / annotated integer digits reach their integer kind through an integer parse (today they go through integer()'s f64: known finding)."
)
RADIX = {"Hexadecimal": ("0x", "16"), "Octal": ("0o", "8"), "Binary": ("0b", "2"), "Decimal": ("0d", "10")}


def run(F, rep, tier):
    rep.rule("C13-R1", "every constructible RealNumber variant has an evaluator arm")
    rep.rule("C13-R2", "prefix tag -> variant -> radix agreement")
    rep.rule("C13-R3", "component order/use in float, scientific (incl. exponent sign provenance) and rational")
    rep.rule("C13-R4", "negated(): same variant, unary minus")
    syn_items = F.syn("mech_syntax.lib")
    int_items = F.syn("mech_interpreter.lib")
    lit = {it["name"]: it for it in int_items if it["k"] == "fn" and it["mod"].endswith("literals")}
    plit = {it["name"]: it for it in syn_items if it["k"] == "fn" and it["mod"].endswith("literals")}
    # constructible variants (MIR aggregates in mech_syntax)
    built = defaultdict(set)
    for b in F.bodies("mech_syntax.lib"):
        for i, s in b.aggs():
            if s["adt"].endswith("nodes::RealNumber"):
                built[s["var"]].add(b.fn.split("::")[-1])
    rep.floor("C13-R1", "RealNumber variants constructed by the parser", len(built), 8)
    real = lit.get("real")
    arms = {}
    if rep.check(real is not None, "C13-R1", "anchor:real", "literal evaluator real() not found"):
        for m in find(real["body"], "match"):
            for arm in m[2]:
                p = arm[0]
                if p[0] == "pts" and p[1].startswith("RealNumber::"):
                    callee = [path_of(c[1]) for c in find(arm[2], "call") if path_of(c[1])]
                    arms[p[1].split("::")[-1]] = callee
        for v in sorted(built):
            rep.check(v in arms, "C13-R1", "evaluator-arm:%s" % v, "RealNumber::%s is built by the parser (%s) but real() has no arm for it (it falls into the panic arm)" % (v, sorted(built[v])),
                      sample={"variant": v, "evaluator": arms.get(v)})
    # R2
    for var, (tag, radix) in sorted(RADIX.items()):
        leafs = [n for n in built.get(var, ())]
        ok_tag = False
        for n in leafs:
            it = plit.get(n)
            if it is None:
                continue
            tags = [c[2][0][1] for c in find(it["body"], "call") if path_of(c[1]) == "tag" and c[2] and c[2][0][0] == "str"]
            if tags == [tag]:
                ok_tag = True
            else:
                rep.bad("C13-R2", "%s:prefix:%s" % (var, ",".join(tags)), "the parser leaf %s that builds RealNumber::%s accepts prefix %s, expected [\"%s\"]" % (n, var, tags, tag))
        rep.check(ok_tag or not leafs, "C13-R2", "%s:prefix" % var, "no parser leaf accepts `%s` for RealNumber::%s" % (tag, var))
        ev = arms.get(var, [])
        ev = [e for e in ev if e in lit]
        if rep.check(len(ev) == 1, "C13-R2", "%s:evaluator" % var, "RealNumber::%s is not evaluated by a dedicated function (%s)" % (var, arms.get(var))):
            body = lit[ev[0]]["body"]
            radixes = [render(c[2][1]) for c in find(body, "call") if (path_of(c[1]) or "").endswith("from_str_radix") and len(c[2]) == 2]
            rep.check(radixes == [radix], "C13-R2", "%s:radix" % var, "RealNumber::%s (prefix %s) is parsed with radix %s, expected %s" % (var, tag, radixes, radix),
                      sample={"variant": var, "prefix": tag, "evaluator": ev[0], "radix": radixes})
    # R3 float / scientific / rational evaluators.  The roles (whole part, fraction, exponent sign, ...) are identified by the COMPONENT of the
    # evaluator's parameter a value is computed from (lib.provenance), never by the spelling of the locals that carry them.
    WHOLE, FRAC = (0, "0"), (0, "1")                                       # float(&(whole, fraction)), rational(&(numerator, denominator))
    M_WHOLE, M_FRAC = (0, "0", "0"), (0, "0", "1")                         # scientific(&((whole, part), (sign, exp_whole, exp_part)))
    E_SIGN, E_WHOLE, E_FRAC = (0, "1", "0"), (0, "1", "1"), (0, "1", "2")

    def fmt_args(fn, P, spec='"{0}.{1}"', exact_spec=True):
        """[[roots of argument i] ...] of every format!/format_args! in fn whose format string is `spec`"""
        out = []
        for m in find(lit[fn]["body"], "macro"):
            if m[1].split("::")[-1] in ("format_args", "format"):
                parts = split_top(m[2] or "")
                if parts and (parts[0] == spec if exact_spec else parts[0].startswith(spec)):
                    out.append([r for _, r in P.macro_args(m)[1:]])
        return out

    def show(fa):
        return [[sorted(comp_str(c) for c in r) for r in a] for a in fa]
    if rep.check("float" in lit, "C13-R3", "anchor:float", "float() not found"):
        P = Prov(lit["float"])
        fa = fmt_args("float", P)
        ok = len(fa) == 1 and len(fa[0]) == 2 and within(fa[0][0], WHOLE) and within(fa[0][1], FRAC)
        rep.check(bool(ok), "C13-R3", "float:whole-then-fraction", "float() does not format `<whole>.<fraction>` from components (0, 1) of its argument in that order: %s" % show(fa))
    if rep.check("scientific" in lit, "C13-R3", "anchor:scientific", "scientific() not found"):
        body = lit["scientific"]["body"]
        P = Prov(lit["scientific"])
        fa = fmt_args("scientific", P)
        # tuple destructuring: every component of ((whole, part), (sign, exp_whole, exp_part)) is bound to a local of its own
        comps = (M_WHOLE, M_FRAC, E_SIGN, E_WHOLE, E_FRAC)
        rep.check(all(c in P.bound for c in comps), "C13-R3", "scientific:destructuring",
                  "scientific() no longer destructures its argument into ((whole, part), (sign, exp_whole, exp_part)): components bound to a local: %s" % sorted(comp_str(c) for c in P.bound))
        mant = [a for a in fa if len(a) == 2 and within(a[0], M_WHOLE) and within(a[1], M_FRAC)]
        expo = [a for a in fa if len(a) == 2 and within(a[0], E_WHOLE) and within(a[1], E_FRAC)]
        ok = len(fa) == 2 and len(mant) == 1 and len(expo) == 1
        # the decimal spelling `<whole>.<part>e<sign><exp_whole>` (when the function spells one) takes the same components in that order
        for a in fmt_args("scientific", P, '"{0}.{1}e', exact_spec=False):
            ok = ok and len(a) == 4 and within(a[0], M_WHOLE) and within(a[1], M_FRAC) and within(a[2], E_SIGN) and within(a[3], E_WHOLE)
        rep.check(bool(ok), "C13-R3", "scientific:mantissa-and-exponent-components",
                  "scientific() does not build mantissa from (whole, part) and exponent from (exp_whole, exp_part): %s" % show(fa + fmt_args("scientific", P, '"{0}.{1}e', exact_spec=False)))
        neg = [n for n in find(body, "if") if P.exact(n[1]) == E_SIGN]
        okn = False
        if len(neg) == 1 and neg[0][3] is None:
            okn = any(is_node(a[2]) and a[2][0] == "un" and a[2][1] == "-" and path_of(a[1]) and path_of(a[1]) == path_of(a[2][2]) and within(P.roots(a[2][2]), (0, "1")) and
                      not any(within([r], E_SIGN) for r in P.roots(a[2][2])) for a in find(neg[0][2], "assign"))
        rep.check(bool(okn), "C13-R3", "scientific:sign-negates-exponent", "scientific() does not negate the exponent exactly when the sign flag is set")
        # scaling: <mantissa> * 10^<exponent> - the power's argument is computed from the exponent components only
        pows = [m for m in find(body, "mcall") if m[2] in ("powf", "powi")] + [c for c in find(body, "call") if (path_of(c[1]) or "").split("::")[-1] in ("powf", "powi")]
        okp = bool(pows) and all(within(P.roots(m[4] if m[0] == "mcall" else m[2][1:]), (0, "1")) for m in pows)
        rep.check(okp, "C13-R3", "scientific:power-of-ten", "scientific() does not scale the mantissa by a power of ten whose exponent is computed from the exponent components")
    if rep.check("rational" in lit, "C13-R3", "anchor:rational", "rational() not found"):
        body = lit["rational"]["body"]
        P = Prov(lit["rational"])
        news = [c for c in find(body, "call") if (path_of(c[1]) or "").endswith("R64::new")]
        ok = len(news) == 1 and len(news[0][2]) == 2 and within(P.roots(news[0][2][0]), WHOLE) and within(P.roots(news[0][2][1]), FRAC) and WHOLE in P.bound and FRAC in P.bound
        rep.check(ok, "C13-R3", "rational:numerator-then-denominator", "rational() does not construct R64::new(num, denom) from the (numerator, denominator) pair in that order")
        # zero test precedes construction
        def zero_test(c):
            if not (is_node(c) and c[0] == "bin" and c[1] == "=="):
                return False
            for x, z in ((c[2], c[3]), (c[3], c[2])):
                if is_node(z) and z[0] == "int" and z[1] == "0" and path_of(strip_refs(x)) and within(P.roots(x), FRAC):
                    return True
            return False
        idx_new = None
        idx_test = None
        for i, st in enumerate(body):
            if any(True for c in find(st, "call") if (path_of(c[1]) or "").endswith("R64::new")) and idx_new is None:
                idx_new = i
            if st[0] == "expr" and is_node(st[1]) and st[1][0] == "if" and zero_test(st[1][1]) and idx_test is None:
                idx_test = i
        rep.check(idx_test is not None and idx_new is not None and idx_test < idx_new, "C13-R3", "rational:zero-denominator-test-first", "rational() does not test the denominator for zero before constructing the value")
    # exponent sign provenance (MIR, parser side)
    sb = [b for b in F.bodies("mech_syntax.lib") if b.fn.endswith("literals::scientific_literal")]
    if rep.check(len(sb) == 1, "C13-R3", "anchor:scientific_literal", "scientific_literal not found"):
        b = sb[0]
        sl = Slice(b, extra_pass=re.compile(r"::is_some$|::is_none$|::is_ok$|::map$|::unwrap_or$|::then$|::then_some$"))
        done = False
        for i, s in b.aggs():
            if s["adt"].endswith("nodes::RealNumber") and s["var"] == "Scientific":
                # payload tuple -> exponent tuple -> first component
                tup = s["src"][0]
                exp_local = None
                for bi, st in sl.defs.get(tup[0], []):
                    if st.get("rk") == "agg" and st.get("tuple") and len(st["src"]) == 2:
                        exp_local = st["src"][1]
                sign_op = None
                if exp_local is not None:
                    for bi, st in sl.defs.get(exp_local[0], []):
                        if st.get("rk") == "agg" and st.get("tuple") and len(st["src"]) == 3:
                            sign_op = st["src"][0]
                if sign_op is None:
                    continue
                done = True
                roots = sl.roots(sign_op)
                if roots and all(r[0] == "const" for r in roots):
                    # the flag is set by control flow (`match neg { Some(_) => true, None => false }`): take what the deciding branch tests
                    defb = sorted({bi for bi, st in sl.defs.get(sign_op[0], [])})
                    idom = b.idom()
                    x = defb[0]
                    ctrl = set()
                    while x != 0:
                        x = idom.get(x, 0)
                        t = b.blocks[x]["t"]
                        if t["k"] == "switch" and isinstance(t["on"], list) and all(any(d in b.reachable_from([sx]) for sx in b.succ(x)) for d in defb):
                            ctrl = sl.roots(t["on"])
                            break
                    roots = ctrl
                fns = set()
                for r in roots:
                    if r[0] == "call":
                        t = b.blocks[r[2]]["t"]
                        for g in t.get("ga", []):
                            fns |= {f.split("::")[-1] for f in fns_in_type(g) if f.startswith("mech_syntax::")}
                consts = [r for r in roots if r[0] == "const"]
                ok = fns == {"dash"}
                rep.check(ok, "C13-R3", "scientific_literal:exponent-sign-from-minus-only" if ok else "scientific_literal:exponent-sign-from:%s" % ",".join(sorted(fns)),
                          "the exponent-sign flag of RealNumber::Scientific derives from the parsers %s; it must derive from the minus-sign parser only (an explicit `+` must not negate the exponent)" % sorted(fns),
                          b.where(), sample={"parsers_feeding_sign_flag": sorted(fns)})
        rep.check(done, "C13-R3", "scientific_literal:sign-flag-found", "could not locate the exponent-sign component of RealNumber::Scientific", b.where())
    # R4 negated
    if rep.check("negated" in lit, "C13-R4", "anchor:negated", "negated() not found"):
        n = 0
        for m in find(lit["negated"]["body"], "match"):
            for arm in m[2]:
                p = arm[0]
                if p[0] == "pts" and p[1].startswith("Value::") and p[2] and p[2][0][0] == "pident":
                    v = p[1].split("::")[-1]
                    b_ = p[2][0][1]
                    n += 1
                    calls = [c for c in find(arm[2], "call") if path_of(c[1]) == "Value::" + v]
                    ok = len(calls) == 1 and any(u[1] == "-" and any(x[1] == b_ for x in find(u[2], "path")) for u in find(calls[0], "un"))
                    rep.check(ok, "C13-R4", "negated:%s" % v, "negated(): the arm for Value::%s does not produce Value::%s(-value): `%s`" % (v, v, render(arm[2])[:80]), sample={"variant": v})
        rep.floor("C13-R4", "negation arms", n, 5)
    from rules.k2_targets import run_k2
    run_k2(F, rep, "C13", "C13-R5")
    # ---- R6: a suffixed integer (`300u8`) is evaluated as the annotated form (`300<u8>`) is: its digits are re-wrapped in the variant the parser
    # builds for plain (unprefixed) digits and handed to typed_literal, so both forms go through the same digit evaluator and the same conversion
    rep.rule("C13-R6", "suffixed integers: real() re-wraps the digits of RealNumber::TypedInteger in the variant untyped_integer builds (the annotated form's path) before typed_literal converts them")
    plain = {v for v, fns in built.items() if "untyped_integer" in fns}
    if rep.check(real is not None and len(plain) == 1, "C13-R6", "anchor:plain-integer-variant", "cannot identify the variant built by untyped_integer: %s" % sorted(plain)):
        found = 0
        for m in find(real["body"], "match"):
            for arm in m[2]:
                if not pat_has_variant(arm[0], "TypedInteger"):
                    continue
                found += 1
                wrapped = sorted({re.match(r"RealNumber::(\w+)$", c[1][1]).group(1) for c in find(arm[2], "call")
                                  if is_node(c[1]) and c[1][0] == "path" and re.match(r"RealNumber::(\w+)$", c[1][1])})
                conv = [path_of(c[1]) for c in find(arm[2], "call") if path_of(c[1]) and path_of(c[1]).split("::")[-1] == "typed_literal"]
                rep.check(wrapped == sorted(plain) and bool(conv), "C13-R6", "typed-integer:rewrap",
                          "real(): the TypedInteger arm re-wraps its digits as RealNumber::%s and %s; the annotated form `N<kind>` evaluates RealNumber::%s through typed_literal - the two spellings of one literal "
                          "then go through different digit evaluators (f64 vs i64 parse) and the out-of-range conversion differs (saturating vs wrapping cast)" % (
                              wrapped, "calls typed_literal" if conv else "does not call typed_literal", sorted(plain)),
                          sample={"arm": "TypedInteger", "rewrapped_as": wrapped, "plain_digit_variant": sorted(plain)})
        rep.floor("C13-R6", "TypedInteger arms in real()", found, 1)
    # ---- R7: based literals are parsed in the integer type of the value they build, with no cast in between
    rep.rule("C13-R7", "based-literal evaluators parse with <T>::from_str_radix where T is the payload type of the Value variant they return, and do not cast the result "
                       "(parsing as u64 and casting to i64 turns 0xffffffffffffffff into -1 instead of rejecting it)")
    n7 = 0
    for name, it in sorted(lit.items()):
        calls = [c for c in find(it["body"], "call") if (path_of(c[1]) or "").endswith("::from_str_radix")]
        if not calls:
            continue
        built = {re.match(r"^Value::(\w+)$", x[1]).group(1) for x in find(it["body"], "path") if re.match(r"^Value::(\w+)$", x[1])}
        for c in calls:
            n7 += 1
            ty = path_of(c[1]).split("::")[-2]
            casts = [x for x in find(it["body"], "cast") if any(y is c for y in walk(x))]
            want = {b.lower() for b in built}
            ok = ty in want and not casts
            rep.check(ok, "C13-R7", "%s:parse-type" % name,
                      "%s(): digits are parsed with %s::from_str_radix%s but the function builds Value::%s: a literal outside that type's range becomes an unrelated value instead of being rejected" % (
                          name, ty, " and cast with `as`" if casts else "", "/".join(sorted(built))), sample={"fn": name, "parsed_as": ty, "builds": sorted(built)})
    rep.floor("C13-R7", "from_str_radix call sites in the literal evaluators", n7, 4)
    run_r8(F, rep)


def pat_has_variant(pat, variant):
    """the pattern names the enum variant (as a path segment of a tuple-struct / path / struct pattern; binding names are not looked at)"""
    return any(x[0] in ("pts", "ppath", "pstruct") and isinstance(x[1], str) and x[1].split("::")[-1] == variant for x in walk(pat))


_FLOAT_TY = ("f64", "f32")


def _value_type(e):
    """float type an expression evidently has by its own form (a cast, a suffixed literal, parse::<f64>() possibly unwrapped), else None"""
    while is_node(e) and ((e[0] == "mcall" and e[2] in ("unwrap", "expect", "unwrap_or", "unwrap_or_default", "abs", "clone")) or e[0] == "try" or (e[0] == "un" and e[1] in ("-", "*")) or e[0] == "ref"):
        e = e[1] if e[0] in ("mcall", "try") else e[2]
    if not is_node(e):
        return None
    if e[0] == "cast" and re.sub(r"\s", "", e[2]) in _FLOAT_TY:
        return e[2]
    if e[0] == "int" and len(e) > 2 and e[2] in _FLOAT_TY:
        return e[2]
    if e[0] == "lit" and re.match(r"^[0-9][0-9_]*(\.[0-9_]*)?([eE][+-]?[0-9_]+)?(_?f(32|64))?$", str(e[1])) and re.search(r"[.eE]|f(32|64)$", str(e[1])):
        return "f64"
    if e[0] == "mcall" and e[2] == "parse" and re.sub(r"[:<>\s]", "", e[3] or "") in _FLOAT_TY:
        return "f64"
    if e[0] == "mcall" and e[2] in ("powf", "powi", "sqrt", "mul_add", "exp", "exp2", "exp10", "ln", "log10", "floor", "ceil", "round", "trunc", "fract"):
        return "f64"
    if e[0] == "call" and re.match(r"^(f64|f32)::", path_of(e[1]) or ""):
        return "f64"
    return None


def float_locals(body):
    """locals of a body that hold a float by their declaration (`: f64`) or by the evident type of their initialiser, closed under float arithmetic"""
    fl = set()
    for _ in range(4):
        for st in find(body, "let"):
            pat, init = st[1], st[2]
            ty = None
            if pat[0] == "ptype":
                ty, pat = re.sub(r"\s", "", pat[2]), pat[1]
            if pat[0] != "pident":
                continue
            if ty in _FLOAT_TY or (init is not None and (_value_type(init) or (is_node(init) and init[0] == "bin" and is_float_arith(init, fl)) or
                                                         (is_node(init) and init[0] == "path" and init[1] in fl))):
                fl.add(pat[1])
    return fl


def is_float_arith(e, fl):
    """a binary arithmetic expression with an operand that is evidently a float (by form, or a float local)"""
    for x in (e[2], e[3]):
        y = x
        while is_node(y) and ((y[0] == "un" and y[1] in ("-", "*")) or y[0] == "ref"):
            y = y[2]
        if _value_type(y) or (is_node(y) and y[0] == "path" and y[1] in fl):
            return True
        if is_node(y) and y[0] == "bin" and y[1] in ("*", "/", "+", "-") and is_float_arith(y, fl):
            return True
    return False


def run_r8(F, rep):
    """C13-R8: float-valued literal evaluators return what the correctly rounded parser returns"""
    from lib import guards as G
    rep.rule("C13-R8", "float-valued literal evaluators (float, integer, scientific): the value is the result of str::parse::<f64>() on text spelled from the literal's tokens; "
                      "float arithmetic (* / + - powi powf on an f64) between the digits and the result rounds twice and is allowed only where no decimal spelling exists "
                      "(scientific() with a fractional exponent: under a guard on the exponent's fractional digits)")
    items = {it["name"]: it for it in F.syn("mech_interpreter.lib") if it["k"] == "fn" and it.get("mod", "").endswith("literals") and it["name"] in ("float", "integer", "scientific")}
    if not rep.check(len(items) == 3, "C13-R8", "anchor:float-evaluators", "expected float(), integer(), scientific() in interpreter::literals, found %s" % sorted(items)):
        return
    n_parse = 0
    for name, it in sorted(items.items()):
        body = it["body"]
        parses = [m for m in find(body, "mcall") if m[2] == "parse" and (m[3] or "").replace(" ", "").lstrip(":") == "<f64>"]
        n_parse += len(parses)
        rep.check(bool(parses), "C13-R8", "%s:parses-f64" % name, "%s() no longer obtains its value from str::parse::<f64>()" % name, "%s (mech_interpreter.lib)" % name)
        # the exponent's fractional digits: 3rd component of the exponent tuple of scientific()'s argument (and whatever is computed from it alone)
        P = Prov(it)
        frac = (0, "1", "2") if name == "scientific" else None
        fl = float_locals(body)
        ariths = []
        for e, facts in G.sites(body, "bin"):
            if e[1] in ("*", "/", "+", "-", "*=", "/=", "+=", "-=") and is_float_arith(e, fl):
                ariths.append((e, facts))
        for e, facts in G.sites(body, "mcall"):
            if e[2] in ("powf", "powi", "mul_add", "exp", "exp2", "exp10") and not any(e is x or any(y is e for y in walk(x)) for x, _ in ariths):
                ariths.append((e, facts))
        for e, facts in ariths:
            guarded = False
            for c, pol in G.atoms(facts):
                if not pol and frac is not None and within(P.roots(c), frac):
                    guarded = True
            key = "%s:float-arithmetic:%s" % (name, re.sub(r"\s", "", P.shape(e))[:50])
            rep.check(guarded, "C13-R8", key if not guarded else "%s:arithmetic-only-for-fractional-exponent" % name,
                      "%s() computes `%s` on the way to its result%s: the literal is rounded twice (e.g. 4.35e2 -> 434.99999999999994, a 17-digit mantissa divided by a power of ten is 1 ulp off) instead of "
                      "being the nearest f64 of its spelling" % (name, render(e)[:70], "" if frac is None else " on paths where the exponent has no fractional digits"),
                      "%s (mech_interpreter.lib)" % name, sample={"fn": name, "arithmetic": P.shape(e)[:70], "guard_component": comp_str(frac) if frac else None})
    rep.floor("C13-R8", "parse::<f64>() sites in the float evaluators", n_parse, 3)
    run_r9(F, rep)


def run_r9(F, rep):
    """C13-R9: rational literals are parsed exactly"""
    rep.rule("C13-R9", "rational(): numerator and denominator are parsed with str::parse::<i64>() - the component type of R64 - and reach R64::new without a cast or a detour through "
                      "another numeric type (parsing as f64 rounds parts above 2^53 and saturates parts wider than i64 instead of rejecting them)")
    its = [it for it in F.syn("mech_interpreter.lib") if it["k"] == "fn" and it["name"] == "rational" and it.get("mod", "").endswith("literals") and it.get("body")]
    if not rep.check(len(its) == 1, "C13-R9", "anchor:rational", "interpreter::literals::rational not found (%d)" % len(its)):
        return
    body = its[0]["body"]
    parses = [re.sub(r"[:<>\s]", "", m[3] or "") for m in find(body, "mcall") if m[2] == "parse"]
    P = Prov(its[0])
    casts = [P.shape(c)[:40] for c in find(body, "cast")]
    radix = [path_of(c[1]) for c in find(body, "call") if (path_of(c[1]) or "").endswith("from_str_radix")]
    types = sorted(set(parses) | {p.split("::")[0] for p in radix})
    ok = (len(parses) + len(radix)) >= 2 and types == ["i64"] and not casts
    rep.check(ok, "C13-R9", "rational:exact-parts" if ok else "rational:parts-parsed-as-%s%s" % ("+".join(types) or "nothing", "-then-cast" if casts else ""),
              "rational() parses its parts as %s%s: a numerator or denominator that f64 cannot hold exactly (>= 2^53) becomes another number, and one wider than i64 is no longer rejected" % (
                  types, (" and casts " + ", ".join(casts)) if casts else ""), "rational (mech_interpreter.lib)", sample={"parsed_as": types, "casts": casts})
    news = [c for c in find(body, "call") if (path_of(c[1]) or "").endswith("R64::new")]
    rep.floor("C13-R9", "R64::new constructions in rational()", len(news), 1)
    run_r10(F, rep)


def run_r10(F, rep):
    """C13-R10: suffixed / annotated integer digits are converted exactly"""
    rep.rule("C13-R10", "suffixed and annotated integer literals are exact: on the way from the digits of an integer token to a value of an integer kind (typed_literal / the TypedInteger "
                       "arm of real()) the digits are parsed with an integer type (directly or in a helper the literal is handed to); evaluating them only through integer()'s f64 rounds "
                       "digits above 2^53 before the kind conversion sees them")
    its = {it["name"]: it for it in F.syn("mech_interpreter.lib") if it["k"] == "fn" and it.get("mod", "").endswith("literals") and it["name"] in ("typed_literal", "integer", "real") and it.get("body")}
    if not rep.check(len(its) == 3, "C13-R10", "anchor:typed_literal-integer-real", "typed_literal / integer / real not found: %s" % sorted(its)):
        return
    def int_parse(body):
        out = []
        for m in find(body, "mcall"):
            if m[2] == "parse" and re.sub(r"[:<>\s]", "", m[3] or "") in ("u64", "i64", "u128", "i128", "u32", "i32", "u16", "i16", "u8", "i8"):
                out.append(re.sub(r"[:<>\s]", "", m[3]))
        for c in find(body, "call"):
            if (path_of(c[1]) or "").endswith("from_str_radix"):
                out.append(path_of(c[1]).split("::")[0])
        return out
    via_f64 = any(m[2] == "parse" and re.sub(r"[:<>\s]", "", m[3] or "") == "f64" for m in find(its["integer"]["body"], "mcall"))
    exact_path = int_parse(its["typed_literal"]["body"])
    # helpers of the same module that typed_literal calls with the literal (one level)
    mod_fns = {it["name"]: it for it in F.syn("mech_interpreter.lib") if it["k"] == "fn" and it.get("mod", "").endswith("literals") and it.get("body")}
    # "the literal" is the first parameter of typed_literal (type &Literal), under whatever name, and locals that alias it
    P = Prov(its["typed_literal"])
    lp = param_names(its["typed_literal"], r"^&?\s*Literal$")
    LTRL = (lp[0][0],) if lp else (0,)
    for c in find(its["typed_literal"]["body"], "call"):
        h = (path_of(c[1]) or "").split("::")[-1]
        if h in mod_fns and h not in ("literal", "kind_annotation", "typed_literal") and any(within(P.roots(a), LTRL) for a in c[2]):
            exact_path += int_parse(mod_fns[h]["body"])
    # the TypedInteger arm of real()
    for m in find(its["real"]["body"], "match"):
        for a in m[2]:
            if pat_has_variant(a[0], "TypedInteger"):
                exact_path += int_parse(a[2])
    ok = bool(exact_path) or not via_f64
    rep.check(ok, "C13-R10", "typed-integer:exact-digits" if ok else "typed-integer:digits-through-f64",
              "an integer token is evaluated by integer() as parse::<f64>() and neither typed_literal() nor the TypedInteger arm of real() parses the digits with an integer type: "
              "`9007199254740993u64` and `9007199254740993<u64>` evaluate to 9007199254740992", "typed_literal / real (mech_interpreter.lib)", sample={"integer_parses_f64": via_f64, "exact_parses": exact_path})
