"""C13 — numeric literals (narrow): every literal form has an evaluator, prefix -> radix agreement, component order and use
(whole / fraction / exponent sign / numerator / denominator), negation keeps the variant; parser leaf vs evaluator agreement on where each
part of a literal is stored (R12, rules/c13_leaf.py)."""
import re
from collections import defaultdict
from lib.facts import CallGraph, find, walk, is_node, path_of, render, render_stmt, render_pat, fns_in_type, strip_refs
from lib.provenance import Prov, within, comp_str, split_top, param_names, const_items
from lib.inline import module_fns, inline_item, inlined_name
from lib.mirq import Slice

TECHNIQUE = ("table agreement parser leaf (prefix tag -> RealNumber variant) vs evaluator arm (variant -> from_str_radix radix); field-use and operand-order "
             "rules on the float / scientific / rational evaluators (roles = components of the evaluator's parameter, followed through the locals by lib.provenance, independent of local spellings); MIR provenance of the exponent-sign flag back to the parser that produced it; "
             "deviant-sibling check of the negation arms (on their canonical form). Robustness: every evaluator is inspected with the private helpers of its module inlined "
             "(lib.inline: `helper(a)` = its body with the parameters bound to the arguments; an arm of real() is the evaluator of its variant whether written in place, "
             "a function of its own or going through shared helpers), values are followed through named locals and `const` items (Prov.resolve / origin / sel_roots), "
             "guards are recognised in either polarity / nesting, the MIR flag provenance follows moves into named locals and a helper's parameter into its callers; "
             "R12: role provenance / table agreement between the evaluator's spelling templates (format strings and external constructors, components by lib.provenance) and the parser leafs "
             "(rules/c13_leaf.py on lib.parsesites + lib.mirfields + lib.mirinline: private helpers expanded, sites and separators found by type and accepted text, never by name)")
EXPLANATION = (
    "Decides structural clauses of C13 (narrow): (R1) every RealNumber variant a parser leaf constructs has an explicit evaluator arm in real(); (R2) the leaf "
    "that accepts 0x/0o/0b/0d builds the variant whose evaluator calls from_str_radix with 16/8/2/10; (R3) float and scientific put the whole part before "
    "and the fractional part after the point, the exponent-sign flag built by the parser derives only from the minus-sign parser (never from `+`) and the "
    "evaluator negates the exponent exactly when it is set; rational uses numerator then denominator and tests the denominator for zero before constructing; "
    "(R4) negated() maps every numeric variant to the same variant with unary minus. Not decided: rounding, clamping of suffixed literals, ordered-choice "
    "shadowing between token languages (e.g. `1e3`)."
    ' (R5) sibling partition of negated(); (R6) the digits of a suffixed integer are re-wrapped in the variant untyped_integer builds and converted by typed_literal, i.e. `300u8` and `300<u8>` share one digit evaluator and one conversion.'
    ' (R7) based-literal evaluators parse with <T>::from_str_radix where T is the payload type of the Value variant they build, without a cast.'
    " (R8) float-valued literal evaluators (float, integer, scientific) return the result of str::parse::<f64>() on text spelled from the literal's tokens; float arithmetic between the digits and the result is allowed only under a guard on the exponent's fractional digits (no decimal spelling exists there)."
    ' (R9) rational(): numerator and denominator are parsed with parse::<i64>() and reach R64::new without a cast or a detour through f64.'
    " (R10) suffixed / annotated integer digits reach their integer kind through an integer parse (today they go through integer()'s f64: known finding)."
    " (R11) complex(): each part is real()'s result converted by a conversion that is total on the numeric variants untyped literal forms evaluate to (a Value method with an arm for each, or a match naming each); "
    "a variant pattern that accepts fewer and defaults the rest to a constant is reported."
    " (R12) parser leaf vs evaluator, per component of every numeric literal node a parser function of mech_syntax builds (RealNumber::Float / Scientific / Rational, C64Node): "
    "the component that the evaluator writes before a fixed text of its re-spelling (`.`, `e`, `/`, the sign of the imaginary part) is built from what the leaf parsed before its parser of that "
    "text and the one written after it from what it parsed after (decided on the MIR: parser applications by type, their order on the input thread, field-sensitive provenance of each "
    "component; `Token::default()` counts as absent); a part taken over from a sub-literal keeps its side of the decimal point; every variable text the leaf consumed reaches some component; "
    "a negation node is built exactly on the branch on which the minus-sign parser succeeded. Decided is this positional / conditional agreement of the two tables, not the value the "
    "evaluator then computes from the spelling."
)
RADIX = {"Hexadecimal": ("0x", "16"), "Octal": ("0o", "8"), "Binary": ("0b", "2"), "Decimal": ("0d", "10")}


def pat_variants(pat, enum):
    """variants of `enum` that the top-level alternatives of a pattern name (`E::A(x) | E::B(x)`, `&E::A`, `v @ E::A(..)`); bindings are not looked at"""
    while is_node(pat) and pat[0] in ("ptype", "pref"):
        pat = pat[1] if pat[0] == "ptype" else pat[2]
    if not is_node(pat):
        return set()
    if pat[0] == "pident":
        return pat_variants(pat[4], enum) if pat[4] else set()
    if pat[0] == "por":
        out = set()
        for x in pat[1]:
            out |= pat_variants(x, enum)
        return out
    if pat[0] in ("pts", "ppath", "pstruct") and isinstance(pat[1], str):
        segs = pat[1].split("::")
        if len(segs) >= 2 and segs[-2] == enum:
            return {segs[-1]}
    return set()


def variant_arms(body, enum):
    """(scrutinee, pattern, arm body expression) for every `match` arm and every `if let` whose pattern names a variant of `enum`"""
    for n in walk(body):
        if n[0] == "match":
            for arm in n[2]:
                if pat_variants(arm[0], enum):
                    yield n[1], arm[0], arm[2]
        elif n[0] == "if" and is_node(n[1]) and n[1][0] == "letc" and pat_variants(n[1][1], enum):
            yield n[1][2], n[1][1], ["block", n[2]]


def const_text(P, e):
    """rendering of the constant an expression evaluates to, looking through named locals, helper parameters (after inlining), `const` items and casts"""
    e = P.resolve(e)
    while is_node(e) and e[0] in ("cast", "paren"):
        e = P.resolve(e[1])
    return render(e)


def inlined_helpers(e):
    return sorted({inlined_name(b) for b in find(e, "block") if inlined_name(b) and inlined_name(b) != "closure"})


def _unparen(e):
    while is_node(e) and e[0] == "paren":
        e = e[1]
    return e


def flag_polarity(P, c, comp, depth=6):
    """True when the condition `c` is the bool component `comp` itself (directly or through named locals), False when it is its negation, else None"""
    pol = True
    while depth > 0:
        depth -= 1
        c = _unparen(c)
        if P.exact(c) == comp:
            return pol
        c = _unparen(P.resolve(c))
        if is_node(c) and c[0] == "un" and c[1] == "!":
            pol, c = not pol, c[2]
            continue
        if is_node(c) and c[0] == "bin" and c[1] in ("==", "!="):
            for x, z in ((c[2], c[3]), (c[3], c[2])):
                if is_node(z) and z[0] == "bool":
                    if bool(z[1]) != (c[1] == "=="):
                        pol = not pol
                    c = x
                    break
            else:
                return None
            continue
        return pol if P.exact(c) == comp else None
    return None


def _tail(e):
    """the value expression of a block / statement list (its last, unterminated expression statement), looking through nested blocks"""
    while True:
        if is_node(e) and e[0] in ("block", "unsafe"):
            e = e[1]
        if isinstance(e, list) and not is_node(e):
            if not e or not (is_node(e[-1]) and e[-1][0] == "expr"):
                return None
            e = e[-1][1]
            continue
        if is_node(e) and e[0] == "paren":
            e = e[1]
            continue
        return e


def flag_selections(body, P, comp):
    """[(node, value when the flag is set, value when it is clear)] for every `if` / `match` in the body that branches on the bool component `comp`
    (values: statement list / expression, or None for a missing else)"""
    out = []
    for n in walk(body):
        if n[0] == "if" and not (is_node(n[1]) and n[1][0] == "letc"):
            pol = flag_polarity(P, n[1], comp)
            if pol is not None:
                out.append((n, n[2], n[3]) if pol else (n, n[3], n[2]))
        elif n[0] == "match" and flag_polarity(P, n[1], comp) is not None:
            pol = flag_polarity(P, n[1], comp)
            t = f = rest = None
            for arm in n[2]:
                pt = arm[0]
                if is_node(pt) and pt[0] == "plit" and is_node(pt[1]) and pt[1][0] == "bool":
                    if bool(pt[1][1]) == pol:
                        t = arm[2]
                    else:
                        f = arm[2]
                elif is_node(pt) and pt[0] in ("pwild", "pident") and rest is None:
                    rest = arm[2]
            out.append((n, t if t is not None else rest, f if f is not None else rest))
    return out


def _is_neg_of(P, a, b):
    """`a` is `-b` (same expression up to the spelling of locals, same provenance, same binding when both are plain locals)"""
    a, b = _unparen(a), _unparen(b)
    if not (is_node(a) and a[0] == "un" and a[1] == "-"):
        return False
    x, y = _unparen(a[2]), _unparen(b)
    if not is_node(y):
        return False
    if is_node(x) and x[0] == "path" and y[0] == "path":
        ox, oy = P.origin(x), P.origin(y)
        return ox is not None and ox is oy
    return P.shape(x) == P.shape(y) and P.roots(x) == P.roots(y)


def _num_lit(e):
    """numeric value of a (possibly negated) numeric literal, else None"""
    e = _unparen(e)
    sign = 1.0
    if is_node(e) and e[0] == "un" and e[1] == "-":
        sign, e = -1.0, _unparen(e[2])
    if is_node(e) and e[0] in ("int", "lit") and re.match(r"^[0-9][0-9_]*(\.[0-9_]*)?", str(e[1])):
        try:
            return sign * float(re.match(r"^[0-9][0-9_]*(\.[0-9_]*)?", str(e[1])).group(0).replace("_", ""))
        except ValueError:
            return None
    return None


def _unit_sign(P, x):
    """`x` is (a local initialised by) a selection between the literals 1 and -1"""
    x = _unparen(P.resolve(x))
    if is_node(x) and x[0] == "if" and x[3] is not None:
        vals = {_num_lit(_tail(x[2])), _num_lit(_tail(x[3]))}
    elif is_node(x) and x[0] == "match" and len(x[2]) == 2:
        vals = {_num_lit(_tail(a[2])) for a in x[2]}
    else:
        return False
    return vals == {1.0, -1.0}


def sign_negates_exponent(body, P, sign, exp):
    """the exponent (a value computed from the components `exp` other than the flag) is negated exactly when the flag component `sign` is set.
    Recognised spellings of the negation: `if flag { x = -x; }`, `if flag { -x } else { x }` (also with the flag negated and the branches swapped,
    or as a `match` on the flag, in place or as the initialiser of a local), and a factor `if flag { -1.0 } else { 1.0 }` multiplied onto the exponent.
    Every other branch on the flag may only select the spelled sign (a text with `-` when the flag is set, without when it is clear)."""
    def exp_value(e):
        r = P.roots(e)
        return within(r, exp) and not any(within([c], sign) for c in r)
    negators = 0
    for n, t, f in flag_selections(body, P, sign):
        tv, fv = _tail(t) if t is not None else None, _tail(f) if f is not None else None
        if f is None or (isinstance(f, list) and not f):
            # `if flag { x = -x; }`
            if any(is_node(a[2]) and a[2][0] == "un" and a[2][1] == "-" and path_of(a[1]) and path_of(a[1]) == path_of(_unparen(a[2][2])) and exp_value(a[2][2])
                   for a in find(t, "assign")) and not list(find(f or [], "assign")):
                negators += 1
                continue
            return False
        if tv is not None and fv is not None and _is_neg_of(P, tv, fv) and exp_value(fv):
            negators += 1
            continue
        if tv is not None and fv is not None and _num_lit(tv) == -1.0 and _num_lit(fv) == 1.0:
            # a sign factor: it must be multiplied onto an exponent value
            def is_factor(x):
                x = _unparen(x)
                return x is n or (is_node(x) and x[0] == "path" and _unparen(P.resolve(x)) is n)
            if any(m[1] in ("*", "*=") and ((is_factor(m[2]) and exp_value(m[3])) or (is_factor(m[3]) and exp_value(m[2]))) for m in find(body, "bin")):
                negators += 1
                continue
            return False
        rt, rf = _unparen(P.resolve(tv)) if tv is not None else None, _unparen(P.resolve(fv)) if fv is not None else None
        if is_node(rt) and rt[0] == "str" and is_node(rf) and rf[0] == "str" and "-" in rt[1] and "-" not in rf[1]:
            continue                                    # selects the spelled sign: a minus exactly when the flag is set
        return False
    return negators == 1


def zero_test_polarity(P, c, comp):
    """True when `c` holds exactly if a value computed from component `comp` is zero, False when it holds exactly if it is not, else None"""
    pol = True
    c = _unparen(c)
    while is_node(c) and c[0] == "un" and c[1] == "!":
        pol, c = not pol, _unparen(c[2])
    c = _unparen(P.resolve(c)) if is_node(c) and c[0] == "path" else c
    while is_node(c) and c[0] == "un" and c[1] == "!":
        pol, c = not pol, _unparen(c[2])
    if not is_node(c):
        return None
    if c[0] == "mcall" and c[2] == "is_zero" and not c[4] and within(P.roots(c[1]), comp):
        return pol
    if c[0] == "bin" and c[1] in ("==", "!="):
        for x, z in ((c[2], c[3]), (c[3], c[2])):
            z = _unparen(P.resolve(z))
            if is_node(z) and z[0] == "int" and re.match(r"^0+$", str(z[1])) and path_of(_unparen(strip_refs(_unparen(x)))) and within(P.roots(x), comp):
                return pol if c[1] == "==" else not pol
    return None


def zero_tested_before(body, P, site, comp):
    """the node `site` is evaluated only after a test of a `comp`-derived value for zero: it sits in the non-zero branch of such a test, or a
    statement that unconditionally performs the test (with a non-empty zero branch: a panic / early exit) precedes it in an enclosing block.
    Blocks of inlined helpers are looked into."""
    def contains(n, x):
        return n is x or any(y is x for y in walk(n))

    def zero_if(e):
        if is_node(e) and e[0] == "if":
            zp = zero_test_polarity(P, e[1], comp)
            if zp is not None:
                return (e[2], e[3]) if zp else (e[3], e[2])
        return None

    def performs_test(e):
        """evaluating e unconditionally runs a zero test whose zero branch does something"""
        if not is_node(e):
            return False
        zi = zero_if(e)
        if zi is not None:
            zb = zi[0]
            return bool(zb[1] if is_node(zb) and zb[0] in ("block", "unsafe") else zb)
        if e[0] in ("block", "unsafe"):
            return any(performs_test(s) for s in e[1])
        if e[0] == "let":
            return performs_test(e[2])
        if e[0] in ("expr", "try", "paren"):
            return performs_test(e[1])
        if e[0] == "call":
            return any(performs_test(a) for a in e[2])
        if e[0] == "mcall":
            return performs_test(e[1]) or any(performs_test(a) for a in e[4])
        return False

    if is_node(site) and site[0] == "call" and any(performs_test(a) for a in site[2]):
        return True                 # the test runs while the arguments of the construction are evaluated

    def in_stmts(stmts):
        seen = False
        for st in stmts:
            if contains(st, site):
                return seen or descend(st)
            if performs_test(st):
                seen = True
        return False

    def descend(n):
        if n is site:
            return False
        zi = zero_if(n)
        if zi is not None:
            zb, nb = zi
            if nb is not None and contains(nb, site):
                return True
            if zb is not None and contains(zb, site):
                return False
        for x in n[1:] if is_node(n) else n:
            if isinstance(x, list) and contains(x, site):
                if x and not is_node(x) and all(is_node(y) and y[0] in ("let", "expr", "item") for y in x):
                    return in_stmts(x)
                return descend(x)
        return False
    return in_stmts(body)


_FLAG_PASS = re.compile(r"::is_some$|::is_none$|::is_ok$|::map$|::unwrap_or$|::then$|::then_some$")


def tuple_def(sl, op, arity):
    """the tuple aggregate statement (of `arity` components) that defines the operand, looking through moves / copies into named locals"""
    seen = set()
    while isinstance(op, list) and op[0] not in seen and op[1] == "":
        seen.add(op[0])
        ds = sl.defs.get(op[0], [])
        for bi, st in ds:
            if st.get("rk") == "agg" and st.get("tuple") and len(st["src"]) == arity:
                return st
        nxt = None
        for bi, st in ds:
            if st.get("rk") == "use" and st["src"] and isinstance(st["src"][0], list):
                nxt = st["src"][0]
        op = nxt
    return None


def _const_def_blocks(sl, op):
    """blocks in which a constant is stored into the operand's local (directly or into a local that is moved / copied into it)"""
    out, seen, st = set(), set(), [op[0]]
    while st:
        l = st.pop()
        if l in seen:
            continue
        seen.add(l)
        for bi, s in sl.defs.get(l, []):
            if s.get("k") == "call":
                continue
            if s.get("rk") in ("use", "cast"):
                for o in s["src"]:
                    if isinstance(o, list):
                        st.append(o[0])
                    else:
                        out.add(bi)
    return sorted(out)


def flag_parsers(F, b, op, depth=2):
    """names of the mech_syntax parser functions whose result decides the bool operand `op` of body `b`: by data flow (`neg.is_some()`), by the
    branch that selects between constant stores (`match neg { Some(_) => true, None => false }`, `if let`, `if neg.is_some() {..}`), and - when the
    flag is a parameter of a helper that builds the node - in the callers of that helper"""
    sl = Slice(b, extra_pass=_FLAG_PASS)
    roots = sl.roots(op)
    if roots and all(r[0] == "const" for r in roots):
        defb = _const_def_blocks(sl, op)
        ctrl = set()
        if defb:
            idom = b.idom()
            x = defb[0]
            while x != 0:
                x = idom.get(x, 0)
                t = b.blocks[x]["t"]
                if t["k"] == "switch" and isinstance(t["on"], list) and all(b.dominates(x, d) for d in defb):
                    reach = [frozenset(d for d in defb if d in b.reachable_from([sx])) for sx in b.succ(x)]
                    if len(set(reach)) > 1 or len(defb) == 1:
                        ctrl = sl.roots(t["on"])
                        break
        roots = ctrl
    fns = set()
    for r in roots:
        if r[0] == "call":
            t = b.blocks[r[2]]["t"]
            for g in t.get("ga", []):
                fns |= {f.split("::")[-1] for f in fns_in_type(g) if f.startswith("mech_syntax::")}
        elif r[0] == "arg" and depth > 0:
            for c in F.bodies("mech_syntax.lib"):
                for bi, t in c.calls():
                    if (t.get("f") or t.get("tf")) == b.fn and len(t["args"]) >= r[1]:
                        fns |= flag_parsers(F, c, t["args"][r[1] - 1], depth - 1)
    return fns


def canon(P, e, binds=(), depth=0):
    """AST of `e` modulo behaviour-preserving spelling: helper calls are expected to be inlined already (lib.inline); locals with an initialiser
    are replaced by it, a block of such `let`s followed by a value by that value, references / dereferences / parentheses / type ascriptions are
    dropped, the bindings `binds` (pident nodes, e.g. the payload binding of a match arm) become `$0, $1 ..` and every other local `_`."""
    def sub(n, d):
        if not isinstance(n, list):
            return n
        if not is_node(n):
            return [sub(x, d) for x in n]
        t = n[0]
        if t == "path" and isinstance(n[1], str):
            i = P.init(n)
            if i is not None and d < 10:
                return sub(i, d + 1)
            pid = P._pid.get(id(n))
            if pid is not None:
                for k, b in enumerate(binds):
                    if pid is b:
                        return ["path", "$%d" % k]
                return ["path", "_"]
            return n
        if t == "ref" or (t == "un" and n[1] == "*"):
            return sub(n[2], d)
        if t == "paren":
            return sub(n[1], d)
        if t in ("block", "unsafe"):
            stmts = n[1]
            if stmts and is_node(stmts[-1]) and stmts[-1][0] == "expr" and all(
                    is_node(st) and st[0] == "let" and st[2] is not None and (len(st) < 4 or st[3] is None) and _plain_ident(st[1]) is not None
                    and _plain_ident(st[1]) not in P._mutated for st in stmts[:-1]):
                return sub(stmts[-1][1], d)
            return [t, [sub(x, d) for x in stmts]]
        if t == "pident":
            return ["pident", "_", n[2], n[3], sub(n[4], d)]
        if t == "ptype":
            return sub(n[1], d)
        if t == "macro":
            return n
        return [n[0]] + [sub(x, d) for x in n[1:]]
    return sub(e, depth)


def _plain_ident(pat):
    while is_node(pat) and pat[0] == "ptype":
        pat = pat[1]
    return pat[1] if is_node(pat) and pat[0] == "pident" and not pat[4] else None


def run_r5(rep, lit, prov):
    """K2 deviant sibling over the arms of negated(), on the arms' canonical form (helpers inlined, named locals substituted, payload binding
    abstracted): an arm that was rewritten without changing what it computes stays in its class, an arm that computes something else leaves it"""
    from lib import k2
    rule = "C13-R5"
    rep.rule(rule, "deviant sibling (K2): per-variant arms of the listed functions keep their frozen co-classification (one arm edited differently from its siblings is reported)")
    ref = k2.load_ref()
    want = 1 if "negated" in ref else 0
    found = 0
    if "negated" in lit:
        it = inline_item(lit["negated"], lit, 2, stop=DISPATCH)
        P = prov(it)
        best = None
        for m in find(it["body"], "match"):
            part = {}
            for arm in m[2]:
                vs = pat_variants(arm[0], "Value")
                binds = [x for x in walk(arm[0]) if x[0] == "pident"]
                for v in vs:
                    text = render(canon(P, arm[2], binds)) + ((" if " + render(canon(P, arm[1], binds))) if arm[1] else "")
                    part[v] = k2.norm("%d => %s" % (len(binds), text), v)
            if len(part) >= 6 and (best is None or len(part) > len(best)):
                best = part
        if best and want:
            found = 1
            k2.check(rep, rule, "negated", best, "negated (mech_interpreter.lib)")
    rep.floor(rule, "sibling-partition targets found", found, want)


# dispatchers of the literal evaluator: they stay calls when a rule inlines the helpers of an evaluator (the rules that inspect them do so by name)
DISPATCH = ("literal", "number", "real", "typed_literal", "kind_annotation")


def run(F, rep, tier):
    rep.rule("C13-R1", "every constructible RealNumber variant has an evaluator arm")
    rep.rule("C13-R2", "prefix tag -> variant -> radix agreement")
    rep.rule("C13-R3", "component order/use in float, scientific (incl. exponent sign provenance) and rational")
    rep.rule("C13-R4", "negated(): same variant, unary minus")
    syn_items = F.syn("mech_syntax.lib")
    int_items = F.syn("mech_interpreter.lib")
    lit = module_fns(int_items, "literals")
    plit = module_fns(syn_items, "literals")
    consts = const_items(int_items)
    pconsts = const_items(syn_items)

    def prov(it, cs=consts):
        P = Prov(it)
        P.consts = cs
        return P

    # constructible variants (MIR aggregates in mech_syntax)
    built = defaultdict(set)
    for b in F.bodies("mech_syntax.lib"):
        for i, s in b.aggs():
            if s["adt"].endswith("nodes::RealNumber"):
                built[s["var"]].add(b.fn.split("::")[-1])
    rep.floor("C13-R1", "RealNumber variants constructed by the parser", len(built), 8)
    real = lit.get("real")

    def real_arms(stop=(), depth=4):
        """{variant: [arm body]} of the match(es) on real()'s parameter, with the module's helpers inlined into real() and into the arms
        (an arm is the evaluator of its variant whether it is written in place, is a function of its own or goes through shared helpers)"""
        it = inline_item(real, lit, depth, stop)
        P = prov(it)
        out = defaultdict(list)
        for scrut, pat, arm in variant_arms(it["body"], "RealNumber"):
            if P.exact(scrut) == (0,):
                for v in pat_variants(pat, "RealNumber"):
                    out[v].append(arm)
        return P, out
    arms, P_real = {}, None
    if rep.check(real is not None, "C13-R1", "anchor:real", "literal evaluator real() not found"):
        P_real, arms = real_arms()
        for v in sorted(built):
            rep.check(v in arms, "C13-R1", "evaluator-arm:%s" % v, "RealNumber::%s is built by the parser (%s) but real() has no arm for it (it falls into the panic arm)" % (v, sorted(built[v])),
                      sample={"variant": v, "evaluator": inlined_helpers(arms.get(v))[:1] if v in arms else None})
    # R2
    # parser helpers that do not themselves build a RealNumber are part of the leaf that calls them (a leaf that calls another leaf is an alternative, not a part)
    builders = set()
    for fns_ in built.values():
        builders |= fns_
    for var, (tag, radix) in sorted(RADIX.items()):
        leafs = [n for n in built.get(var, ())]
        ok_tag = False
        for n in sorted(leafs):
            it = plit.get(n)
            if it is None:
                continue
            it = inline_item(it, plit, 2, stop=builders)
            PL = prov(it, pconsts)
            tags = []
            for c in find(it["body"], "call"):
                if (path_of(c[1]) or "").split("::")[-1] == "tag" and c[2]:
                    a = PL.resolve(c[2][0])
                    if is_node(a) and a[0] == "str":
                        tags.append(a[1])
            if tags == [tag]:
                ok_tag = True
            else:
                rep.bad("C13-R2", "%s:prefix:%s" % (var, ",".join(tags)), "the parser leaf %s that builds RealNumber::%s accepts prefix %s, expected [\"%s\"]" % (n, var, tags, tag))
        rep.check(ok_tag or not leafs, "C13-R2", "%s:prefix" % var, "no parser leaf accepts `%s` for RealNumber::%s" % (tag, var))
        ev = arms.get(var, [])
        sites = [c for a in ev for c in find(a, "call") if (path_of(c[1]) or "").endswith("from_str_radix") and len(c[2]) == 2]
        if rep.check(len(ev) == 1 and bool(sites), "C13-R2", "%s:evaluator" % var,
                     "RealNumber::%s is not evaluated by a radix parse: its arm in real() (helpers followed: %s) reaches no from_str_radix call" % (var, inlined_helpers(ev))):
            radixes = [const_text(P_real, c[2][1]) for c in sites]
            rep.check(radixes == [radix], "C13-R2", "%s:radix" % var, "RealNumber::%s (prefix %s) is parsed with radix %s, expected %s" % (var, tag, radixes, radix),
                      sample={"variant": var, "prefix": tag, "evaluator": (inlined_helpers(ev) or [None])[0], "radix": radixes})
    # R3 float / scientific / rational evaluators.  The roles (whole part, fraction, exponent sign, ...) are identified by the COMPONENT of the
    # evaluator's parameter a value is computed from (lib.provenance), never by the spelling of the locals that carry them.  Private helpers of
    # the module are inlined first (lib.inline), so a role is followed into a helper the value is handed to.
    WHOLE, FRAC = (0, "0"), (0, "1")                                       # float(&(whole, fraction)), rational(&(numerator, denominator))
    M_WHOLE, M_FRAC = (0, "0", "0"), (0, "0", "1")                         # scientific(&((whole, part), (sign, exp_whole, exp_part)))
    E_SIGN, E_WHOLE, E_FRAC = (0, "1", "0"), (0, "1", "1"), (0, "1", "2")

    def evaluator(name):
        it = inline_item(lit[name], lit, 3, stop=DISPATCH)
        return it, prov(it)

    def fmt_args(body, P, spec='"{0}.{1}"', exact_spec=True, influence=False):
        """[[roots of argument i] ...] of every format!/format_args! in fn whose format string is `spec` (influence: incl. what selects the value of
        an argument that is a local initialised by a conditional)"""
        out = []
        for m in find(body, "macro"):
            if m[1].split("::")[-1] in ("format_args", "format"):
                parts = split_top(m[2] or "")
                if parts and (parts[0] == spec if exact_spec else parts[0].startswith(spec)):
                    out.append(P.macro_sel_roots(m)[1:] if influence else [r for _, r in P.macro_args(m)[1:]])
        return out

    def show(fa):
        return [[sorted(comp_str(c) for c in r) for r in a] for a in fa]
    if rep.check("float" in lit, "C13-R3", "anchor:float", "float() not found"):
        it, P = evaluator("float")
        fa = fmt_args(it["body"], P)
        ok = len(fa) == 1 and len(fa[0]) == 2 and within(fa[0][0], WHOLE) and within(fa[0][1], FRAC)
        rep.check(bool(ok), "C13-R3", "float:whole-then-fraction", "float() does not format `<whole>.<fraction>` from components (0, 1) of its argument in that order: %s" % show(fa))
    if rep.check("scientific" in lit, "C13-R3", "anchor:scientific", "scientific() not found"):
        it, P = evaluator("scientific")
        body = it["body"]
        fa = fmt_args(body, P)
        # every component of ((whole, part), (sign, exp_whole, exp_part)) is referred to on its own (bound to a local by destructuring, or by member access)
        comps = (M_WHOLE, M_FRAC, E_SIGN, E_WHOLE, E_FRAC)
        used = P.used_components(body)
        rep.check(all(c in used for c in comps), "C13-R3", "scientific:destructuring",
                  "scientific() no longer takes its argument apart into ((whole, part), (sign, exp_whole, exp_part)): components referred to: %s" % sorted(comp_str(c) for c in used))
        mant = [a for a in fa if len(a) == 2 and within(a[0], M_WHOLE) and within(a[1], M_FRAC)]
        expo = [a for a in fa if len(a) == 2 and within(a[0], E_WHOLE) and within(a[1], E_FRAC)]
        ok = len(fa) == 2 and len(mant) == 1 and len(expo) == 1
        # the decimal spelling `<whole>.<part>e<sign><exp_whole>` (when the function spells one) takes the same components in that order; the sign
        # text is SELECTED by the sign flag (`if sign {"-"} else {""}` in place, or a local initialised that way): what influences it is the flag only
        spelled = fmt_args(body, P, '"{0}.{1}e', exact_spec=False, influence=True)
        for a in spelled:
            ok = ok and len(a) == 4 and within(a[0], M_WHOLE) and within(a[1], M_FRAC) and within(a[2], E_SIGN) and within(a[3], E_WHOLE)
        rep.check(bool(ok), "C13-R3", "scientific:mantissa-and-exponent-components",
                  "scientific() does not build mantissa from (whole, part) and exponent from (exp_whole, exp_part): %s" % show(fa + spelled))
        rep.check(sign_negates_exponent(body, P, E_SIGN, (0, "1")), "C13-R3", "scientific:sign-negates-exponent", "scientific() does not negate the exponent exactly when the sign flag is set")
        # scaling: <mantissa> * 10^<exponent> - the power's argument is computed from the exponent components only
        pows = [m for m in find(body, "mcall") if m[2] in ("powf", "powi")] + [c for c in find(body, "call") if (path_of(c[1]) or "").split("::")[-1] in ("powf", "powi")]
        okp = bool(pows) and all(within(P.roots(m[4] if m[0] == "mcall" else m[2][1:]), (0, "1")) for m in pows)
        rep.check(okp, "C13-R3", "scientific:power-of-ten", "scientific() does not scale the mantissa by a power of ten whose exponent is computed from the exponent components")
    if rep.check("rational" in lit, "C13-R3", "anchor:rational", "rational() not found"):
        it, P = evaluator("rational")
        body = it["body"]
        news = [c for c in find(body, "call") if (path_of(c[1]) or "").endswith("R64::new")]
        used = P.used_components(body)
        ok = len(news) == 1 and len(news[0][2]) == 2 and within(P.roots(news[0][2][0]), WHOLE) and within(P.roots(news[0][2][1]), FRAC) and WHOLE in used and FRAC in used
        rep.check(ok, "C13-R3", "rational:numerator-then-denominator", "rational() does not construct R64::new(num, denom) from the (numerator, denominator) pair in that order")
        rep.check(len(news) >= 1 and all(zero_tested_before(body, P, c, FRAC) for c in news), "C13-R3", "rational:zero-denominator-test-first",
                  "rational() does not test the denominator for zero before constructing the value")
    # exponent sign provenance (MIR, parser side): in whichever parser function builds RealNumber::Scientific (found by the aggregate, not by name)
    sb = [b for b in F.bodies("mech_syntax.lib") if any(s["adt"].endswith("nodes::RealNumber") and s["var"] == "Scientific" for _, s in b.aggs())]
    if rep.check(len(sb) >= 1, "C13-R3", "anchor:scientific_literal", "no parser function builds RealNumber::Scientific (scientific_literal not found)"):
        done = False
        for b in sb:
            sl = Slice(b, extra_pass=_FLAG_PASS)
            for i, s in b.aggs():
                if s["adt"].endswith("nodes::RealNumber") and s["var"] == "Scientific":
                    # payload tuple -> exponent tuple -> first component (each possibly through named locals / moves)
                    pay = tuple_def(sl, s["src"][0], 2)
                    exp = tuple_def(sl, pay["src"][1], 3) if pay is not None else None
                    if exp is None:
                        continue
                    done = True
                    fns = flag_parsers(F, b, exp["src"][0])
                    ok = fns == {"dash"}
                    rep.check(ok, "C13-R3", "scientific_literal:exponent-sign-from-minus-only" if ok else "scientific_literal:exponent-sign-from:%s" % ",".join(sorted(fns)),
                              "the exponent-sign flag of RealNumber::Scientific derives from the parsers %s; it must derive from the minus-sign parser only (an explicit `+` must not negate the exponent)" % sorted(fns),
                              b.where(), sample={"parsers_feeding_sign_flag": sorted(fns)})
        rep.check(done, "C13-R3", "scientific_literal:sign-flag-found", "could not locate the exponent-sign component of RealNumber::Scientific", sb[0].where())
    # R4 negated
    if rep.check("negated" in lit, "C13-R4", "anchor:negated", "negated() not found"):
        n = 0
        it = inline_item(lit["negated"], lit, 2, stop=DISPATCH)
        P = prov(it)
        for scrut, pat, arm in variant_arms(it["body"], "Value"):
            vs = pat_variants(pat, "Value")
            binds = [x for x in walk(pat) if x[0] == "pident"]
            if len(vs) != 1 or len(binds) != 1:
                continue
            v = sorted(vs)[0]
            b_ = binds[0]
            n += 1
            calls = [c for c in find(arm, "call") if (path_of(c[1]) or "").split("::")[-2:] == ["Value", v]]
            # the payload binding of the arm (whatever it is called, also after it was handed to a helper) under a unary minus
            ok = len(calls) == 1 and any(u[1] == "-" and any(P.origin(x) is b_ for x in find(u[2], "path")) for u in find(calls[0], "un"))
            rep.check(ok, "C13-R4", "negated:%s" % v, "negated(): the arm for Value::%s does not produce Value::%s(-value): `%s`" % (v, v, render(arm)[:80]), sample={"variant": v})
        rep.floor("C13-R4", "negation arms", n, 5)
    run_r5(rep, lit, prov)
    # ---- R6: a suffixed integer (`300u8`) is evaluated as the annotated form (`300<u8>`) is: its digits are re-wrapped in the variant the parser
    # builds for plain (unprefixed) digits and handed to typed_literal, so both forms go through the same digit evaluator and the same conversion
    rep.rule("C13-R6", "suffixed integers: real() re-wraps the digits of RealNumber::TypedInteger in the variant untyped_integer builds (the annotated form's path) before typed_literal converts them")
    # the variant of plain digits: what untyped_integer builds, itself or in private helpers (functions that are not parser leaves of their own)
    cg = CallGraph(F, ["mech_syntax.lib"])
    plain_fns = {"untyped_integer"}
    for b in F.bodies("mech_syntax.lib"):
        if b.fn.endswith("literals::untyped_integer"):
            for g in cg.out(b.fn):
                if g.startswith("mech_syntax::literals::") and g.split("::")[-1] in plit and plit[g.split("::")[-1]].get("vis", "") == "":
                    plain_fns.add(g.split("::")[-1])
    plain = {v for v, fns in built.items() if fns & plain_fns}
    if rep.check(real is not None and len(plain) == 1, "C13-R6", "anchor:plain-integer-variant", "cannot identify the variant built by untyped_integer: %s" % sorted(plain)):
        found = 0
        P6, arms6 = real_arms(stop=("typed_literal",) + tuple(x for x in DISPATCH if x != "typed_literal"))
        for arm in arms6.get("TypedInteger", []):
            found += 1
            wrapped = sorted({re.match(r"(?:.*::)?RealNumber::(\w+)$", c[1][1]).group(1) for c in find(arm, "call")
                              if is_node(c[1]) and c[1][0] == "path" and re.match(r"(?:.*::)?RealNumber::(\w+)$", c[1][1])})
            conv = [path_of(c[1]) for c in find(arm, "call") if path_of(c[1]) and path_of(c[1]).split("::")[-1] == "typed_literal"]
            rep.check(wrapped == sorted(plain) and bool(conv), "C13-R6", "typed-integer:rewrap",
                      "real(): the TypedInteger arm re-wraps its digits as RealNumber::%s and %s; the annotated form `N<kind>` evaluates RealNumber::%s through typed_literal - the two spellings of one literal "
                      "then go through different digit evaluators (f64 vs i64 parse) and the out-of-range conversion differs (saturating vs wrapping cast)" % (
                          wrapped, "calls typed_literal" if conv else "does not call typed_literal", sorted(plain)),
                      sample={"arm": "TypedInteger", "rewrapped_as": wrapped, "plain_digit_variant": sorted(plain)})
        rep.floor("C13-R6", "TypedInteger arms in real()", found, 1)
    # ---- R7: based literals are parsed in the integer type of the value they build, with no cast in between
    rep.rule("C13-R7", "based-literal evaluators parse with <T>::from_str_radix where T is the payload type of the Value variant they return, and do not cast the result "
                       "(parsing as u64 and casting to i64 turns 0xffffffffffffffff into -1 instead of rejecting it)")
    n7 = 0

    def parse_type_check(key, what, code):
        """every from_str_radix call in `code` parses in the payload type of the Value variant(s) that `code` builds, uncast"""
        cnt = 0
        calls = [c for c in find(code, "call") if (path_of(c[1]) or "").endswith("::from_str_radix")]
        builds = {re.match(r"^(?:.*::)?Value::(\w+)$", x[1]).group(1) for x in find(code, "path") if isinstance(x[1], str) and re.match(r"^(?:.*::)?Value::(\w+)$", x[1])}
        for c in calls:
            cnt += 1
            ty = path_of(c[1]).split("::")[-2]
            casts = [x for x in find(code, "cast") if any(y is c for y in walk(x))]
            want = {b.lower() for b in builds}
            ok = ty in want and not casts
            rep.check(ok, "C13-R7", "%s:parse-type" % key,
                      "%s: digits are parsed with %s::from_str_radix%s but the value built is Value::%s: a literal outside that type's range becomes an unrelated value instead of being rejected" % (
                          what, ty, " and cast with `as`" if casts else "", "/".join(sorted(builds))), sample={"evaluator": key, "parsed_as": ty, "builds": sorted(builds)})
        return cnt
    # the evaluator of a variant = its arm in real() with the helpers it goes through inlined (keys name the variant, not the functions involved)
    reached = set()
    for v in sorted(arms):
        for arm in arms[v]:
            reached |= set(inlined_helpers(arm))
            n7 += parse_type_check(v, "RealNumber::%s (evaluated through %s)" % (v, ", ".join(inlined_helpers(arm)) or "the arm of real()"), arm)
    # radix parses of the module that no arm of real() reaches are checked where they stand
    for name, it in sorted(lit.items()):
        if name not in reached and name != "real":
            parse_type_check("fn:" + name, name + "()", it["body"])
    rep.floor("C13-R7", "from_str_radix call sites in the literal evaluators", n7, 4)
    run_r11(F, rep, lit, prov, arms)
    run_r8(F, rep)
    from rules.c13_leaf import run_r12
    run_r12(F, rep)


def pat_has_variant(pat, variant):
    """the pattern names the enum variant (as a path segment of a tuple-struct / path / struct pattern; binding names are not looked at)"""
    return any(x[0] in ("pts", "ppath", "pstruct") and isinstance(x[1], str) and x[1].split("::")[-1] == variant for x in walk(pat))


_FLOAT_TY = ("f64", "f32")


def _value_type(e):
    """float type an expression evidently has by its own form (a cast, a suffixed literal, parse::<f64>() possibly unwrapped), else None"""
    while is_node(e) and ((e[0] == "mcall" and e[2] in ("unwrap", "expect", "unwrap_or", "unwrap_or_default", "abs", "clone")) or e[0] == "try" or (e[0] == "un" and e[1] in ("-", "*")) or e[0] == "ref"):
        e = e[1] if e[0] in ("mcall", "try") else e[2]
    if not is_node(e):
        return None
    if e[0] == "cast" and re.sub(r"\s", "", e[2]) in _FLOAT_TY:
        return e[2]
    if e[0] == "int" and len(e) > 2 and e[2] in _FLOAT_TY:
        return e[2]
    if e[0] == "lit" and re.match(r"^[0-9][0-9_]*(\.[0-9_]*)?([eE][+-]?[0-9_]+)?(_?f(32|64))?$", str(e[1])) and re.search(r"[.eE]|f(32|64)$", str(e[1])):
        return "f64"
    if e[0] == "mcall" and e[2] == "parse" and re.sub(r"[:<>\s]", "", e[3] or "") in _FLOAT_TY:
        return "f64"
    if e[0] == "mcall" and e[2] in ("powf", "powi", "sqrt", "mul_add", "exp", "exp2", "exp10", "ln", "log10", "floor", "ceil", "round", "trunc", "fract"):
        return "f64"
    if e[0] == "call" and re.match(r"^(f64|f32)::", path_of(e[1]) or ""):
        return "f64"
    return None


def float_locals(body):
    """locals of a body that hold a float by their declaration (`: f64`) or by the evident type of their initialiser, closed under float arithmetic"""
    fl = set()
    for _ in range(4):
        for st in find(body, "let"):
            pat, init = st[1], st[2]
            ty = None
            if pat[0] == "ptype":
                ty, pat = re.sub(r"\s", "", pat[2]), pat[1]
            if pat[0] != "pident":
                continue
            if ty in _FLOAT_TY or (init is not None and (_value_type(init) or (is_node(init) and init[0] == "bin" and is_float_arith(init, fl)) or
                                                         (is_node(init) and init[0] == "path" and init[1] in fl))):
                fl.add(pat[1])
    return fl


def is_float_arith(e, fl):
    """a binary arithmetic expression with an operand that is evidently a float (by form, or a float local)"""
    for x in (e[2], e[3]):
        y = x
        while is_node(y) and ((y[0] == "un" and y[1] in ("-", "*")) or y[0] == "ref"):
            y = y[2]
        if _value_type(y) or (is_node(y) and y[0] == "path" and y[1] in fl):
            return True
        if is_node(y) and y[0] == "bin" and y[1] in ("*", "/", "+", "-") and is_float_arith(y, fl):
            return True
    return False


def _calls_fn(P, e, name, depth=6):
    """the value of `e` is (computed from) the result of a call of the module function `name`: directly, through `?`, references, method chains,
    or through named locals / parameters of inlined helpers and closures"""
    if depth <= 0:
        return False
    for n in walk(e):
        if n[0] == "call" and (path_of(n[1]) or "").split("::")[-1] == name:
            return True
        if n[0] == "path":
            i = P.init(n)
            if i is not None and _calls_fn(P, i, name, depth - 1):
                return True
    return False


def _direct_result(P, e, name, depth=6):
    """`e` IS the result of a call of `name` (possibly unwrapped by `?`, referenced, copied, or held in a named local), not something computed from it"""
    while depth > 0:
        depth -= 1
        e = _unparen(e)
        if not is_node(e):
            return False
        if e[0] == "try" or e[0] == "paren":
            e = e[1]
        elif e[0] == "ref" or (e[0] == "un" and e[1] == "*"):
            e = e[2]
        elif e[0] == "mcall" and e[2] in ("clone", "borrow", "as_ref", "to_owned", "unwrap", "expect") :
            e = e[1]
        elif e[0] == "path":
            i = P.init(e)
            if i is None:
                return False
            e = i
        elif e[0] in ("block", "unsafe"):
            e = _tail(e)
        else:
            return e[0] == "call" and (path_of(e[1]) or "").split("::")[-1] == name
    return False


def run_r11(F, rep, lit, prov, arms):
    """C13-R11: the parts of a complex literal keep their value whatever literal form spells them"""
    rule = "C13-R11"
    rep.rule(rule, "complex(): each part is the result of real() converted to f64 by a conversion that is total on the numeric Value variants the untyped literal forms evaluate to "
                   "(those that Value::as_f64 converts: F64 from integer / float / scientific spellings, I64 from the based spellings): either a Value method whose definition has an arm "
                   "for each of them, or a match / if-let that names each of them; a conversion that accepts fewer variants and defaults the rest to a constant silently drops the other "
                   "literal forms (`0x10+2i` -> 0+2i)")
    if not rep.check("complex" in lit, rule, "anchor:complex", "interpreter::literals::complex not found"):
        return
    it = inline_item(lit["complex"], lit, 3, stop=DISPATCH)
    P = prov(it)
    body = it["body"]
    # numeric variants an untyped part can evaluate to: what the evaluator arms of the literal forms build (the negation arm rebuilds what it is
    # given, the suffixed form is not a part of a complex literal)
    produced = set()
    for v, bodies in arms.items():
        if v in ("Negated", "TypedInteger"):
            continue
        for a in bodies:
            produced |= {m.group(1) for x in find(a, "call") for m in [re.match(r"^(?:.*::)?Value::(\w+)$", path_of(x[1]) or "")] if m}
    # the total conversion: Value::as_f64 in mech_core; its arms say which variants have an f64 image
    methods = {}
    for m in F.syn("mech_core.lib"):
        if m.get("k") == "method" and re.sub(r"<.*", "", (m.get("self") or "")).strip().split("::")[-1] == "Value" and m.get("body") is not None:
            methods.setdefault(m["name"], set()).update(v for _, pat, _ in variant_arms(m["body"], "Value") for v in pat_variants(pat, "Value"))
    convertible = methods.get("as_f64", set())
    required = produced & convertible
    rep.floor(rule, "numeric Value variants an untyped literal part evaluates to and Value::as_f64 converts", len(required), 2)
    sites = 0
    # (i) conversions by a method of Value applied to real()'s result
    for m in find(body, "mcall"):
        if _direct_result(P, m[1], "real") and m[2] in methods and methods[m[2]]:
            sites += 1
            missing = sorted(required - methods[m[2]])
            rep.check(not missing, rule, "complex:part-conversion-total" if not missing else "complex:part-conversion-method-partial:%s" % m[2],
                      "complex() converts a part with Value::%s, which has no arm for Value::%s: a part spelled in a literal form that evaluates to that variant is not converted" % (m[2], "/".join(missing)),
                      "complex (mech_interpreter.lib)", sample={"conversion": "Value::" + m[2], "covers": sorted(required)})
    # (ii) conversions by matching real()'s result against Value variants
    groups = {}
    for scrut, pat, arm in variant_arms(body, "Value"):
        if _direct_result(P, scrut, "real"):
            g = groups.setdefault(id(scrut), {"named": set(), "node": None})
            g["named"] |= pat_variants(pat, "Value")
    for n in walk(body):
        if n[0] == "match" and id(n[1]) in groups:
            rest = [a for a in n[2] if not pat_variants(a[0], "Value")]
            groups[id(n[1])]["silent"] = any(not _diverges_expr(a[2]) for a in rest)
        elif n[0] == "if" and is_node(n[1]) and n[1][0] == "letc" and id(n[1][2]) in groups:
            groups[id(n[1][2])]["silent"] = n[3] is None or not _diverges_expr(n[3])
    for g in groups.values():
        sites += 1
        missing = sorted(required - g["named"])
        ok = not missing or not g.get("silent", True)
        rep.check(ok, rule, "complex:part-conversion-total" if ok else "complex:part-conversion-partial",
                  "complex() converts a part by matching only Value::%s and gives every other variant a default value: a part that evaluates to Value::%s (e.g. a based literal, `0x10+2i`) "
                  "silently becomes that default" % ("/".join(sorted(g["named"])), "/".join(missing)), "complex (mech_interpreter.lib)",
                  sample={"matched": sorted(g["named"]), "required": sorted(required)})
    rep.floor(rule, "conversions of a part (result of real()) in complex()", sites, 2)
    # both components of the constructed number are such converted parts (or a constant for an absent part)
    news = [c for c in find(body, "call") if re.search(r"(^|::)C64::new$", path_of(c[1]) or "") and len(c[2]) == 2]
    rep.floor(rule, "C64::new constructions in complex()", len(news), 1)
    for role, k in (("real", 0), ("imaginary", 1)):
        if news:
            # one obligation per role, over every construction (the two arms of `match &num.real` may each construct, or share one construction)
            ok = all(_calls_fn(P, c[2][k], "real") or (role == "real" and _num_lit(P.resolve(c[2][k])) is not None) for c in news)
            if role == "real":
                ok = ok and any(_calls_fn(P, c[2][k], "real") for c in news)
            rep.check(ok, rule, "complex:%s-part-from-real()" % role, "complex(): the %s component handed to C64::new is not computed from the evaluation of the corresponding part by real()" % role,
                      "complex (mech_interpreter.lib)")


def _diverges_expr(e):
    """the expression never yields a value to its context: return / break / continue / panic, an `Err(..)` / `None`-free early exit is NOT assumed"""
    from lib import guards as G
    e = _unparen(e)
    if is_node(e) and e[0] in ("block", "unsafe"):
        return G.diverges(e[1])
    if is_node(e) and e[0] in ("ret", "break", "continue"):
        return True
    if is_node(e) and e[0] == "macro" and re.search(r"(^|::)(panic|unreachable|todo|unimplemented)$", e[1]):
        return True
    if is_node(e) and e[0] == "call" and re.search(r"panicking::(panic|panic_fmt|unreachable_display)$|(^|::)unreachable$", path_of(e[1]) or ""):
        return True
    return False


def all_zero_polarity(P, c, depth=6):
    """True when the condition `c` holds exactly if every digit of the tested text is `0` (`t.chars().all(|ch| ch == '0')`), False when it holds
    exactly if some digit is not (`t.chars().any(|ch| ch != '0')`, or a negation of the former); looks through `!` and named locals; None otherwise"""
    pol = True
    while depth > 0:
        depth -= 1
        c = _unparen(c)
        if is_node(c) and c[0] == "path":
            r = _unparen(P.resolve(c))
            if r is c:
                return None
            c = r
            continue
        if is_node(c) and c[0] == "un" and c[1] == "!":
            pol, c = not pol, c[2]
            continue
        break
    if not (is_node(c) and c[0] == "mcall" and c[2] in ("all", "any") and len(c[4]) == 1 and is_node(c[4][0]) and c[4][0][0] == "closure" and len(c[4][0][1]) == 1):
        return None
    cl = c[4][0]
    params = {x[1] for x in walk(cl[1][0]) if x[0] == "pident"}
    t = _unparen(_tail(cl[2]) if is_node(cl[2]) and cl[2][0] in ("block", "unsafe") else cl[2])
    if not (is_node(t) and t[0] == "bin" and t[1] in ("==", "!=")):
        return None
    for x, z in ((t[2], t[3]), (t[3], t[2])):
        x, z = _unparen(strip_refs(_unparen(x))), _unparen(strip_refs(_unparen(z)))
        if is_node(z) and z[0] in ("char", "lit") and str(z[1]).strip("b'") == "0" and path_of(x) in params:
            if c[2] == "all" and t[1] == "==":
                return pol
            if c[2] == "any" and t[1] == "!=":
                return not pol
            return None
    return None


def run_r8(F, rep):
    """C13-R8: float-valued literal evaluators return what the correctly rounded parser returns"""
    from lib import guards as G
    rep.rule("C13-R8", "float-valued literal evaluators (float, integer, scientific): the value is the result of str::parse::<f64>() on text spelled from the literal's tokens; "
                      "float arithmetic (* / + - powi powf on an f64) between the digits and the result rounds twice and is allowed only where no decimal spelling exists "
                      "(scientific() with a fractional exponent: under a guard on the exponent's fractional digits)")
    lit = module_fns(F.syn("mech_interpreter.lib"), "literals")
    consts = const_items(F.syn("mech_interpreter.lib"))
    # the evaluators with the module's private helpers inlined: a parse / an arithmetic step counts wherever it was moved to
    items = {n: inline_item(lit[n], lit, 3, stop=DISPATCH) for n in ("float", "integer", "scientific") if n in lit}
    if not rep.check(len(items) == 3, "C13-R8", "anchor:float-evaluators", "expected float(), integer(), scientific() in interpreter::literals, found %s" % sorted(items)):
        return
    n_parse = 0
    for name, it in sorted(items.items()):
        body = it["body"]
        parses = [m for m in find(body, "mcall") if m[2] == "parse" and (m[3] or "").replace(" ", "").lstrip(":") == "<f64>"]
        n_parse += len(parses)
        rep.check(bool(parses), "C13-R8", "%s:parses-f64" % name, "%s() no longer obtains its value from str::parse::<f64>()" % name, "%s (mech_interpreter.lib)" % name)
        # the exponent's fractional digits: 3rd component of the exponent tuple of scientific()'s argument (and whatever is computed from it alone)
        P = Prov(it)
        P.consts = consts
        frac = (0, "1", "2") if name == "scientific" else None
        fl = float_locals(body)
        ariths = []
        for e, facts in G.sites(body, "bin"):
            if e[1] in ("*", "/", "+", "-", "*=", "/=", "+=", "-=") and is_float_arith(e, fl):
                ariths.append((e, facts))
        for e, facts in G.sites(body, "mcall"):
            if e[2] in ("powf", "powi", "mul_add", "exp", "exp2", "exp10") and not any(e is x or any(y is e for y in walk(x)) for x, _ in ariths):
                ariths.append((e, facts))
        # no float is cut down to an integer on the way (an exponent `as i32` in front of powi drops its fraction: 1.5e0.5 -> 1.5)
        INT_T = re.compile(r"^(i8|i16|i32|i64|i128|isize|u8|u16|u32|u64|u128|usize)$")
        for c_ in find(body, "cast"):
            tgt = re.sub(r"\s", "", str(c_[2]))
            if INT_T.match(tgt) and any(is_node(x) and x[0] == "path" and x[1] in fl for x in walk(c_[1])):
                rep.bad("C13-R8", "%s:float-cast-to-%s" % (name, tgt), "%s() casts a float (`%s`) to %s on the way to its result: the fractional part is cut off "
                        "(a scientific literal with a fractional exponent, e.g. 1.5e0.5, no longer denotes mantissa x 10^exponent)" % (name, render(c_)[:60], tgt), "%s (mech_interpreter.lib)" % name)
        for e, facts in ariths:
            if e[0] == "bin" and e[1] in ("*", "*=") and (_unit_sign(P, e[2]) or _unit_sign(P, e[3])):
                continue            # multiplication by a selected +1 / -1 is exact: it is how a sign is applied, not a scaling step
            guarded = False
            for c, pol in G.atoms(facts):
                if frac is None or not within(P.roots(c), frac):
                    continue
                z = all_zero_polarity(P, c)
                # the facts must say "the exponent has fractional digits": a recognised all-zero test that is false, its complement
                # (`any(|ch| ch != '0')`, possibly through a named local) that is true; an unrecognised predicate on those digits as before: false
                if (not pol) if z is None else (z != pol):
                    guarded = True
            key = "%s:float-arithmetic:%s" % (name, re.sub(r"\s", "", P.shape(e))[:50])
            rep.check(guarded, "C13-R8", key if not guarded else "%s:arithmetic-only-for-fractional-exponent" % name,
                      "%s() computes `%s` on the way to its result%s: the literal is rounded twice (e.g. 4.35e2 -> 434.99999999999994, a 17-digit mantissa divided by a power of ten is 1 ulp off) instead of "
                      "being the nearest f64 of its spelling" % (name, render(e)[:70], "" if frac is None else " on paths where the exponent has no fractional digits"),
                      "%s (mech_interpreter.lib)" % name, sample={"fn": name, "arithmetic": P.shape(e)[:70], "guard_component": comp_str(frac) if frac else None})
    rep.floor("C13-R8", "parse::<f64>() sites in the float evaluators", n_parse, 3)
    run_r9(F, rep)


def run_r9(F, rep):
    """C13-R9: rational literals are parsed exactly"""
    rep.rule("C13-R9", "rational(): numerator and denominator are parsed with str::parse::<i64>() - the component type of R64 - and reach R64::new without a cast or a detour through "
                      "another numeric type (parsing as f64 rounds parts above 2^53 and saturates parts wider than i64 instead of rejecting them)")
    lit = module_fns(F.syn("mech_interpreter.lib"), "literals")
    its = [inline_item(lit["rational"], lit, 3, stop=DISPATCH)] if "rational" in lit else []
    if not rep.check(len(its) == 1, "C13-R9", "anchor:rational", "interpreter::literals::rational not found (%d)" % len(its)):
        return
    body = its[0]["body"]
    parses = [re.sub(r"[:<>\s]", "", m[3] or "") for m in find(body, "mcall") if m[2] == "parse"]
    P = Prov(its[0])
    casts = [P.shape(c)[:40] for c in find(body, "cast")]
    radix = [path_of(c[1]) for c in find(body, "call") if (path_of(c[1]) or "").endswith("from_str_radix")]
    types = sorted(set(parses) | {p.split("::")[0] for p in radix})
    ok = (len(parses) + len(radix)) >= 2 and types == ["i64"] and not casts
    rep.check(ok, "C13-R9", "rational:exact-parts" if ok else "rational:parts-parsed-as-%s%s" % ("+".join(types) or "nothing", "-then-cast" if casts else ""),
              "rational() parses its parts as %s%s: a numerator or denominator that f64 cannot hold exactly (>= 2^53) becomes another number, and one wider than i64 is no longer rejected" % (
                  types, (" and casts " + ", ".join(casts)) if casts else ""), "rational (mech_interpreter.lib)", sample={"parsed_as": types, "casts": casts})
    news = [c for c in find(body, "call") if (path_of(c[1]) or "").endswith("R64::new")]
    rep.floor("C13-R9", "R64::new constructions in rational()", len(news), 1)
    run_r10(F, rep)


def run_r10(F, rep):
    """C13-R10: suffixed / annotated integer digits are converted exactly"""
    rep.rule("C13-R10", "suffixed and annotated integer literals are exact: on the way from the digits of an integer token to a value of an integer kind (typed_literal / the TypedInteger "
                       "arm of real()) the digits are parsed with an integer type (directly or in a helper the literal is handed to); evaluating them only through integer()'s f64 rounds "
                       "digits above 2^53 before the kind conversion sees them")
    lit = module_fns(F.syn("mech_interpreter.lib"), "literals")
    its = {n: lit[n] for n in ("typed_literal", "integer", "real") if n in lit}
    if not rep.check(len(its) == 3, "C13-R10", "anchor:typed_literal-integer-real", "typed_literal / integer / real not found: %s" % sorted(its)):
        return
    INT_TYPES = ("u64", "i64", "u128", "i128", "u32", "i32", "u16", "i16", "u8", "i8")

    def int_parse(body, P=None, src=None):
        """integer types that digits are parsed with in `body` (with P / src: only parses whose text is computed from the component `src`)"""
        out = []
        for m in find(body, "mcall"):
            if m[2] == "parse" and re.sub(r"[:<>\s]", "", m[3] or "") in INT_TYPES and (P is None or within(P.roots(m[1]), src)):
                out.append(re.sub(r"[:<>\s]", "", m[3]))
        for c in find(body, "call"):
            if (path_of(c[1]) or "").endswith("from_str_radix") and (P is None or (c[2] and within(P.roots(c[2][0]), src))):
                out.append(path_of(c[1]).split("::")[-2])
        return out
    integer_fn = inline_item(its["integer"], lit, 3, stop=DISPATCH)
    via_f64 = any(m[2] == "parse" and re.sub(r"[:<>\s]", "", m[3] or "") == "f64" for m in find(integer_fn["body"], "mcall"))
    # typed_literal with the module's helpers inlined (two levels; the general evaluator literal() and the kind lookup stay calls: what literal()
    # does with the digits is integer()'s f64).  "The literal" is the parameter of type &Literal, under whatever name: an exact path is an integer
    # parse of text computed from it, in typed_literal itself or in a helper it is handed to.
    tl = inline_item(its["typed_literal"], lit, 2, stop=DISPATCH)
    P = Prov(tl)
    lp = param_names(its["typed_literal"], r"^&?\s*Literal$")
    LTRL = (lp[0][0],) if lp else (0,)
    exact_path = int_parse(tl["body"], P, LTRL)
    # the TypedInteger arm of real() (helpers other than typed_literal inlined)
    rl = inline_item(its["real"], lit, 2, stop=DISPATCH)
    for scrut, pat, arm in variant_arms(rl["body"], "RealNumber"):
        if "TypedInteger" in pat_variants(pat, "RealNumber"):
            exact_path += int_parse(arm)
    ok = bool(exact_path) or not via_f64
    rep.check(ok, "C13-R10", "typed-integer:exact-digits" if ok else "typed-integer:digits-through-f64",
              "an integer token is evaluated by integer() as parse::<f64>() and neither typed_literal() nor the TypedInteger arm of real() parses the digits with an integer type: "
              "`9007199254740993u64` and `9007199254740993<u64>` evaluate to 9007199254740992", "typed_literal / real (mech_interpreter.lib)", sample={"integer_parses_f64": via_f64, "exact_parses": exact_path})
