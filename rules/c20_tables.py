"""C20-R10 / C20-R11: the text-level clauses of C20 decided over FINITE TABLES by interpreting the source of the include machinery
(lib/rsinterp.py: the compiler's expanded syntax of the functions is evaluated by a model of &str / String / iterator / Option /
HashSet / Path / File over a virtual file system - nothing is compiled or run).

R10  fence scanners (sites enumerated by ROLE from the MIR of the guarded expander: the *opener test* = the local function whose
     Option<(char, usize, usize)> result the line loop branches on; the *close test* = the local bool function that is asked about
     the payload of the fence state).  Every scanner is evaluated on a generated table of lines (indentation 0-5 / tab, marker,
     run length 1-6, what follows the run) and must agree with the fence definition the property rests on: a fence line is at
     most three spaces, then at least three identical ` or ~; it closes an open fence iff same marker, run at least as long,
     nothing but blanks after the run.  The table is about the DECISION (and the marker / length the opener reports); the
     byte offset the scanners exchange between themselves is an internal contract and only quoted as a diagnosis.
R11  the whole expander, entered through the guarded function (and through the outside entry that creates the fresh active set),
     evaluated on a table of small include graphs in a virtual file system and compared with the textual substitution the
     property defines (an independent reference below).  One obligation per clause of the property, whatever the shape of the code.

A construct the interpreter does not model makes the affected table UNDECIDED (note, no verdict, nothing skipped silently).
"""
import re
from lib.rsinterp import Interp, VFS, RPath, RSet, RString, Enum, NoEval, Panic, S, is_text, deref, texts_in, WS

PY_ERRORS = (TypeError, AttributeError, IndexError, KeyError, ValueError, RecursionError, AssertionError, ZeroDivisionError)


def last(fn):
    return fn.split("::")[-1]


def mod_of(fn):
    return "::".join(fn.split("::")[1:-1])


# ---------------------------------------------------------------------------------------------- the fence definition (oracle)
def fence_of(line):
    """(marker, run length, byte offset behind the run) when `line` is a fence line, else None"""
    i = 0
    while i < len(line) and line[i] == " ":
        i += 1
    if i > 3 or i >= len(line) or line[i] not in "`~":
        return None
    m = line[i]
    j = i
    while j < len(line) and line[j] == m:
        j += 1
    if j - i < 3:
        return None
    return (m, j - i, len(line[:j].encode("utf-8")))


def closes(line, marker, min_len):
    f = fence_of(line)
    if f is None or f[0] != marker or f[1] < min_len:
        return False
    i = 0
    while line[i] == " ":
        i += 1
    return line[i + f[1]:].strip(" \t\r\n") == ""


def scanner_lines():
    lines = ["", "\n", " ", "text\n", "{a.mec}\n", "  {a.mec}\n", "é```\n", "   é~~~\n", "- ```\n", "`~`~`~\n"]
    for ind in ("", " ", "  ", "   ", "    ", "     ", "\t", " \t"):
        for m in "`~":
            o = "~" if m == "`" else "`"
            for run in (1, 2, 3, 4, 5, 6):
                for tail in ("", "\n", "\r\n", " \n", " \t \n", "mech\n", " mech\n", " x", " é\n", o + "\n", " " + m * 3 + "\n", " " + m + "\n"):
                    lines.append(ind + m * run + tail)
    return lines


def show(v):
    return repr(v)


# ---------------------------------------------------------------------------------------------- evaluation helpers
LABELLED = set()


def evaluate(items, mod, fn, args, vfs=None, fuel=300000):
    """('value', v, interp) | ('panic', message, interp); NoEval propagates"""
    I = Interp(items, vfs=vfs, mod=mod, fuel=fuel, labelled=LABELLED)
    try:
        return ("value", I.call_fn(fn, args), I)
    except Panic as ex:
        return ("panic", str(ex), I)
    except NoEval:
        raise
    except Exception as ex:            # a break / continue outside a loop, or a value shape the model did not expect: no verdict
        raise NoEval("internal: %s: %s" % (type(ex).__name__, str(ex)[:80]))


def arg_for(ty, roles):
    """argument for a parameter of MIR type `ty` from the roles on offer ({'text':.., 'char':.., 'usize':.., 'pair':..})"""
    ty = ty.replace(" ", "")
    if ty in ("&str", "&alloc::string::String", "alloc::string::String"):
        return roles.get("text") if ty == "&str" else RString(roles.get("text"))
    if ty == "char" and "char" in roles:
        return roles["char"]
    if ty == "usize" and "usize" in roles:
        return roles["usize"]
    if ty in ("(char,usize)", "&(char,usize)") and "char" in roles:
        return (roles["char"], roles["usize"])
    raise NoEval("parameter of type " + ty)


def run_r10(F, rep, R, cg, items, opener_fns, close_fns):
    rep.rule("C20-R10", "fence scanners decided over a generated table of lines (indentation 0-5 or tab x marker x run 1-6 x what follows the run; close test also x opening marker x opening "
                        "length): the opener test (the local fn whose Option<(char,usize,usize)> the line loop of the include expander branches on) reports a fence exactly for <= 3 spaces + >= 3 "
                        "identical ` or ~, with that marker and that run length; the close test (the local bool fn asked about the fence state) accepts exactly the fence lines with the same "
                        "marker, a run at least as long and only blanks behind the run - at every indentation")
    rep.floor("C20-R10", "fence opener test (local fn returning Option<(char,usize,usize)> the expander's line loop branches on)", len(opener_fns), 1)
    rep.floor("C20-R10", "fence close test (local bool fn fed by the fence state)", len(close_fns), 1)
    lines = scanner_lines()
    # ---- opener test (one obligation for the role, however many functions play it)
    wrong, n, decided, where = [], 0, [], ""
    for fn in opener_fns:
        b = cg.bodies[fn]
        where = where or b.where()
        try:
            for ln in lines:
                args = [arg_for(b.locals[i], {"text": ln}) for i in range(1, b.nargs + 1)]
                kind, v, _ = evaluate(items, mod_of(fn), last(fn), args)
                exp = fence_of(ln)
                n += 1
                if kind == "panic":
                    wrong.append("%s(%r) panics (%s)" % (last(fn), ln, v))
                    continue
                v = deref(v)
                if not isinstance(v, Enum) or v.tag not in ("Some", "None"):
                    raise NoEval("result of the opener test is not an Option")
                if v.tag == "None":
                    if exp is not None:
                        wrong.append("%s(%r) = None: a fence of %d x %s indented by %d is not recognised" % (last(fn), ln, exp[1], exp[0], len(ln) - len(ln.lstrip(" "))))
                    continue
                t = deref(v.vals[0])
                if not (isinstance(t, tuple) and len(t) >= 2):
                    raise NoEval("payload of the opener test is not a tuple")
                if exp is None:
                    wrong.append("%s(%r) = %s: this line is no fence (more than three spaces of indentation, a tab, or fewer than three markers)" % (last(fn), ln, show(v)))
                elif S(t[0]) != exp[0] or int(t[1]) != exp[1]:
                    wrong.append("%s(%r) = %s: the fence is %d x %s" % (last(fn), ln, show(v), exp[1], exp[0]))
        except NoEval as ex:
            rep.note("undecided", "C20-R10: the opener test %s is not interpretable over the line table (%s); the table is not evaluated" % (last(fn), ex))
            continue
        decided.append(last(fn))
    if decided:
        rep.check(not wrong, "C20-R10", "opener-test:table",
                  "the fence opener test %s decides %d of %d table lines wrongly, e.g. %s - a block is entered / not entered as a fence, so include lines in code are expanded or include "
                  "lines in text are left alone" % ("/".join(decided), len(wrong), n, "; ".join(wrong[:3])), where, sample={"lines": n})
    # ---- close test
    wrong, n, decided, where, hints = [], 0, [], "", []
    for fn in close_fns:
        b = cg.bodies[fn]
        where = where or b.where()
        try:
            for ln in lines:
                f = fence_of(ln)
                combos = [(m, k) for m in "`~" for k in (3, 4, 5)] if f is not None else [("`", 3), ("~", 4)]
                for om, ol in combos:
                    args = [arg_for(b.locals[i], {"text": ln, "char": om, "usize": ol}) for i in range(1, b.nargs + 1)]
                    kind, v, I = evaluate(items, mod_of(fn), last(fn), args)
                    exp = closes(ln, om, ol)
                    n += 1
                    if kind == "panic":
                        wrong.append("%s(%r, %r, %d) panics (%s)" % (last(fn), ln, om, ol, v))
                        continue
                    v = deref(v)
                    if not isinstance(v, bool):
                        raise NoEval("result of the close test is not a bool")
                    if v != exp:
                        why = ("the line is a run of %d x %s indented by %d followed by %r: it closes the fence" % (f[1], f[0], len(ln) - len(ln.lstrip(" ")), ln[ln.index(f[0]) + f[1]:])
                               if exp else "the line does not close a fence opened by %d x %s" % (ol, om))
                        wrong.append("%s(%r, %r, %d) = %s: %s" % (last(fn), ln, om, ol, "true" if v else "false", why))
                        if len(hints) < 2:
                            # diagnosis: what did the scanners it consulted answer about this line
                            for name, a, out in I.trace:
                                if a and a[0] == ln:
                                    h = "%s(%r) = %s" % (name, ln, show(out))
                                    out = deref(out)
                                    if f and isinstance(out, Enum) and out.tag == "Some" and isinstance(out.vals[0], tuple) and len(out.vals[0]) == 3 \
                                            and isinstance(out.vals[0][2], int) and out.vals[0][2] != f[2]:
                                        h += " - the marker run of this line ends at byte %d, not %d" % (f[2], out.vals[0][2])
                                    if h not in hints:
                                        hints.append(h)
        except NoEval as ex:
            rep.note("undecided", "C20-R10: the close test %s is not interpretable over the line table (%s); the table is not evaluated" % (last(fn), ex))
            continue
        decided.append(last(fn))
    if decided:
        rep.check(not wrong, "C20-R10", "close-test:table",
                  "the fence close test %s decides %d of %d table rows wrongly, e.g. %s%s - a fence ends early or never, so include lines behind it stay literal text (and a cycle or a missing "
                  "file behind them is accepted) or include lines in code are expanded" % ("/".join(decided), len(wrong), n, "; ".join(wrong[:2]), (" [it consulted: %s]" % "; ".join(hints)) if hints else ""),
                  where, sample={"rows": n})


# ---------------------------------------------------------------------------------------------- R11: reference semantics
class IncludeFailure(Exception):
    def __init__(self, kind, what):
        self.kind, self.what = kind, what


def split_inclusive(text):
    out, cur = [], ""
    for ch in text:
        cur += ch
        if ch == "\n":
            out.append(cur)
            cur = ""
    if cur:
        out.append(cur)
    return out


def parent_of(p):
    head = p.rsplit("/", 1)[0]
    return head if head else "/"


def ref_expand(vfs, path, active, depth=0):
    """the property, literally: every stand-alone `{x.mec}` line outside code fences is replaced by the expansion of that file,
    resolved against the including file; a file on the active chain again = circular; a target that is not there = include error"""
    c = vfs.canonicalize(path)
    if c is None or c not in vfs.files:
        raise IncludeFailure("missing", path)
    if c in active:
        raise IncludeFailure("circular", c)
    if depth > 30:
        raise IncludeFailure("depth", c)
    active.add(c)
    out = []
    fence = None
    for line in split_inclusive(vfs.files[c]):
        if fence is not None:
            out.append(line)
            if closes(line, fence[0], fence[1]):
                fence = None
            continue
        f = fence_of(line)
        if f is not None:
            fence = (f[0], f[1])
            out.append(line)
            continue
        body, nl = (line[:-1], "\n") if line.endswith("\n") else (line, "")
        t = body.strip(WS)
        if len(t) >= 2 and t.startswith("{") and t.endswith("}") and t[1:-1].strip(WS).endswith(".mec"):
            raw = t[1:-1].strip(WS)
            target = raw if raw.startswith("/") else parent_of(c).rstrip("/") + "/" + raw
            tc = vfs.canonicalize(target)
            if tc is None:
                raise IncludeFailure("missing", raw)
            try:
                out.append(ref_expand(vfs, tc, active, depth + 1) + nl)
            except IncludeFailure as ex:
                if ex.kind == "missing" and ex.what == tc:
                    ex.what = raw
                raise
        else:
            out.append(line)
    active.discard(c)
    return "".join(out)


def cases():
    """(clause, case name, files, entry path)"""
    C = []

    def add(clause, name, files, entry="/p/main.mec"):
        C.append((clause, name, files, entry))
    inc = {"/p/a.mec": "Alpha", "/p/b.mec": "Beta\n", "/p/sub/c.mec": "Gamma\n{d.mec}\n", "/p/sub/d.mec": "Delta", "/p/d.mec": "WRONG-D\n", "/d.mec": "WRONG-ROOT\n"}
    # --- splice: the spliced text is the textual substitution (newline of the include line kept, file's own newline kept)
    add("splice", "include-line-with-newline", dict(inc, **{"/p/main.mec": "one\n{a.mec}\ntwo\n"}))
    add("splice", "include-line-is-last-without-newline", dict(inc, **{"/p/main.mec": "one\n{a.mec}"}))
    add("splice", "include-line-is-first", dict(inc, **{"/p/main.mec": "{b.mec}\ntwo\n"}))
    add("splice", "included-file-ends-with-newline", dict(inc, **{"/p/main.mec": "one\n{b.mec}\ntwo"}))
    add("splice", "only-an-include", dict(inc, **{"/p/main.mec": "{a.mec}"}))
    add("splice", "empty-file", dict(inc, **{"/p/main.mec": ""}))
    add("splice", "empty-included-file", {"/p/main.mec": "x\n{e.mec}\ny\n", "/p/e.mec": ""})
    add("splice", "no-include", dict(inc, **{"/p/main.mec": "one\n\ntwo\n"}))
    add("splice", "blank-lines-kept", dict(inc, **{"/p/main.mec": "\n\n{a.mec}\n\n\n"}))
    add("splice", "indented-include-line", dict(inc, **{"/p/main.mec": "one\n  {a.mec}\n    {b.mec}\n\t{a.mec}\ntwo\n"}))
    add("splice", "blanks-around-and-inside-braces", dict(inc, **{"/p/main.mec": "{ a.mec }\n{a.mec}   \n {  b.mec\t} \t\n"}))
    add("splice", "same-file-twice", dict(inc, **{"/p/main.mec": "{a.mec}\n{a.mec}\n-\n{b.mec}\n{b.mec}\n"}))
    add("splice", "adjacent-includes", dict(inc, **{"/p/main.mec": "{a.mec}\n{b.mec}\n{a.mec}"}))
    add("splice", "nested-relative-to-the-including-file", dict(inc, **{"/p/main.mec": "top\n{sub/c.mec}\nend\n"}))
    add("splice", "dot-dot-and-dot-in-the-include", dict(inc, **{"/p/main.mec": "{./sub/../a.mec}\n{sub/./c.mec}\n"}))
    add("splice", "diamond", {"/p/main.mec": "{l.mec}\n{r.mec}\n", "/p/l.mec": "L\n{s.mec}\n", "/p/r.mec": "R\n{s.mec}\n", "/p/s.mec": "shared"})
    add("splice", "three-levels-and-a-sibling-after", {"/p/main.mec": "0\n{x/one.mec}\n{z.mec}\n", "/p/x/one.mec": "1\n{y/two.mec}\n1b\n", "/p/x/y/two.mec": "2\n{../../z.mec}\n", "/p/z.mec": "Z\n"})
    add("splice", "entry-path-not-canonical", dict(inc, **{"/p/main.mec": "{sub/c.mec}\n"}), "/p/sub/../main.mec")
    add("splice", "non-ascii-text", {"/p/main.mec": "café →\n{été.mec}\né\n", "/p/été.mec": "été\n"})
    # --- untouched: other brace expressions and lines that are not stand-alone are left alone
    add("untouched", "other-brace-expressions", dict(inc, **{"/p/main.mec": "{x}\n{}\n{a.txt}\n{a.mec.bak}\n{1, 2}\n{\n}\n"}))
    add("untouched", "not-stand-alone", dict(inc, **{"/p/main.mec": "see {a.mec}\n{a.mec} here\nx {a.mec} y\n{a.mec\na.mec}\n(a.mec)\na.mec\n{b}.mecs\n{a.mec}.\n"}))
    add("untouched", "missing-target-not-stand-alone", {"/p/main.mec": "see {gone.mec}\n{gone.mec} !\n"})
    # --- fences: lines inside code fences are untouched, lines behind a closed fence are expanded again
    add("fences", "include-inside-backtick-fence", dict(inc, **{"/p/main.mec": "{a.mec}\n```\n{a.mec}\n{gone.mec}\n```\n{b.mec}\n"}))
    add("fences", "include-inside-tilde-fence-with-info", dict(inc, **{"/p/main.mec": "~~~ mech\n{a.mec}\n~~~\n{a.mec}\n"}))
    add("fences", "fence-is-first-and-last-line", dict(inc, **{"/p/main.mec": "```\n{a.mec}\n```"}))
    add("fences", "back-to-back-fences", dict(inc, **{"/p/main.mec": "```\n{a.mec}\n```\n~~~\n{gone.mec}\n~~~\n{b.mec}\n```\n{a.mec}\n```\n"}))
    add("fences", "unclosed-fence-runs-to-the-end", dict(inc, **{"/p/main.mec": "{a.mec}\n```\n{gone.mec}\n{a.mec}\n"}))
    add("fences", "other-marker-does-not-close", dict(inc, **{"/p/main.mec": "```\n~~~\n{gone.mec}\n~~~\n{gone.mec}\n```\n{a.mec}\n"}))
    add("fences", "shorter-run-does-not-close", dict(inc, **{"/p/main.mec": "````\n```\n{gone.mec}\n````\n{a.mec}\n"}))
    add("fences", "longer-run-closes", dict(inc, **{"/p/main.mec": "```\n{gone.mec}\n`````\n{a.mec}\n"}))
    add("fences", "text-after-the-run-does-not-close", dict(inc, **{"/p/main.mec": "```\n``` x\n{gone.mec}\n```  \t\n{a.mec}\n"}))
    for k in (1, 2, 3):
        ind = " " * k
        add("fences", "fence-indented-by-%d" % k, dict(inc, **{"/p/main.mec": "- item\n\n%s```mech\n%s{gone.mec}\n%s```\n\n{a.mec}\nend\n" % (ind, ind, ind)}))
        add("fences", "tilde-fence-indented-by-%d-then-missing" % k, {"/p/main.mec": "%s~~~~\n%sx := 1\n%s~~~~\n{gone.mec}\n" % (ind, ind, ind)})
        add("fences", "closing-fence-indented-by-%d-only" % k, dict(inc, **{"/p/main.mec": "```\n{gone.mec}\n%s```\n{a.mec}\n" % ind}))
        add("fences", "opening-fence-indented-by-%d-only" % k, dict(inc, **{"/p/main.mec": "%s```\n{gone.mec}\n```\n{a.mec}\n" % ind}))
    add("fences", "four-spaces-is-no-fence", dict(inc, **{"/p/main.mec": "    ```\n{a.mec}\n    ```\n{b.mec}\n"}))
    add("fences", "four-spaces-does-not-close", dict(inc, **{"/p/main.mec": "```\n    ```\n{gone.mec}\n```\n{a.mec}\n"}))
    add("fences", "tab-is-no-fence-indentation", dict(inc, **{"/p/main.mec": "\t```\n{a.mec}\n"}))
    add("fences", "two-markers-are-no-fence", dict(inc, **{"/p/main.mec": "``\n{a.mec}\n``\n~~ x\n{b.mec}\n"}))
    add("fences", "fence-in-the-included-file", {"/p/main.mec": "{f.mec}\n{a.mec}\n", "/p/f.mec": "```\n{gone.mec}\n```\n{a.mec}\n", "/p/a.mec": "Alpha"})
    add("fences", "pending-text-before-each-fence-is-expanded", dict(inc, **{"/p/main.mec": "{a.mec}\n```\n```\n{b.mec}\n~~~\n~~~\n{a.mec}"}))
    # --- cycle: a cycle in the reachable include graph fails with a circular-include error
    add("cycle", "self-include", {"/p/main.mec": "x\n{main.mec}\n"})
    add("cycle", "two-cycle", {"/p/main.mec": "A\n{b.mec}\n", "/p/b.mec": "B\n{main.mec}\n"})
    add("cycle", "three-cycle-behind-text", {"/p/main.mec": "A\n{b.mec}\n", "/p/b.mec": "B\n\n{sub/c.mec}", "/p/sub/c.mec": "C\n{../main.mec}\n"})
    add("cycle", "cycle-not-through-the-entry", {"/p/main.mec": "{b.mec}\n", "/p/b.mec": "{c.mec}\n", "/p/c.mec": "{b.mec}\n"})
    add("cycle", "cycle-through-another-spelling", {"/p/main.mec": "{sub/../main.mec}\n", "/p/sub/k.mec": "k"})
    add("cycle", "cycle-through-an-indented-include", {"/p/main.mec": "A\n   { b.mec }  \n", "/p/b.mec": "\t{main.mec}"})
    add("cycle", "cycle-behind-a-closed-fence", {"/p/main.mec": "A\n{b.mec}\n", "/p/b.mec": "```\ncode\n```\n{main.mec}\n"})
    add("cycle", "cycle-behind-an-indented-closed-fence", {"/p/main.mec": "A\n{b.mec}\n", "/p/b.mec": " ~~~~\n x := 1\n ~~~~\n{main.mec}\n"})
    add("cycle", "cycle-after-a-good-include", {"/p/main.mec": "{a.mec}\n{a.mec}\n{main.mec}\n", "/p/a.mec": "Alpha"})
    add("cycle", "second-branch-of-a-diamond-closes-a-cycle", {"/p/main.mec": "{l.mec}\n{r.mec}\n", "/p/l.mec": "{s.mec}\n", "/p/r.mec": "{s.mec}\n{main.mec}\n", "/p/s.mec": "S"})
    add("cycle", "cycle-only-inside-a-fence-is-none", {"/p/main.mec": "```\n{main.mec}\n```\n"})
    # --- missing: a target that is not there fails with an include error that names it
    add("missing", "missing-target", dict(inc, **{"/p/main.mec": "one\n{gone.mec}\ntwo\n"}))
    add("missing", "missing-target-last-line", dict(inc, **{"/p/main.mec": "one\n{a.mec}\n{nowhere/gone.mec}"}))
    add("missing", "missing-in-an-included-file", {"/p/main.mec": "{b.mec}\n", "/p/b.mec": "B\n{lost.mec}\n"})
    add("missing", "resolved-against-the-including-file-not-the-cwd", {"/p/main.mec": "{sub/c.mec}\n", "/p/sub/c.mec": "{only-in-p.mec}\n", "/p/only-in-p.mec": "P", "/only-in-p.mec": "ROOT"})
    add("missing", "missing-indented-include", {"/p/main.mec": "   {  gone.mec }\n"})
    add("missing", "missing-behind-a-closed-fence", dict(inc, **{"/p/main.mec": "```\n{a.mec}\n```\n{gone.mec}\n"}))
    add("missing", "missing-behind-an-indented-closed-fence", {"/p/main.mec": "   ```\n   code\n   ```\n{gone.mec}\n"})
    add("missing", "entry-file-missing", {"/p/other.mec": "x"})
    return C


def run_r11(F, rep, R, cg, items, entries):
    rep.rule("C20-R11", "the include expander, interpreted from its source over a table of small include graphs in a virtual file system (entered through the guarded function with a fresh "
                        "active set, and through the outside entry), produces exactly the textual substitution the property defines: one obligation per clause - splice (text, newlines, "
                        "relative resolution, repeated includes), untouched (other brace expressions, lines that are not stand-alone), fences (every indentation / marker / length / "
                        "unclosed), cycle (circular-include error), missing (include error naming the target), pairing (active set empty after a successful load); no row panics or diverges")
    name = R.fn
    where = R.where()
    table = cases()
    clauses = ["splice", "untouched", "fences", "cycle", "missing"]
    wrong = {c: [] for c in clauses + ["pairing"]}
    counted = {c: 0 for c in clauses + ["pairing"]}
    undecided = {}

    def params(b):
        out = []
        for i in range(1, b.nargs + 1):
            ty = b.locals[i].replace(" ", "")
            if re.match(r"^&(mut)?std::path::Path(Buf)?$", ty) or ty == "std::path::PathBuf":
                out.append("path")
            elif "HashSet<std::path::PathBuf" in ty:
                out.append("set")
            elif ty in ("&str", "&alloc::string::String", "alloc::string::String"):
                out.append("pathtext")
            else:
                out.append(None)
        return out
    targets = []
    for fn in [name] + [e for e in entries if e != name]:
        b = cg.bodies.get(fn)
        if b is None or b.locals[0] != R.locals[0]:
            continue                      # an outside entry is run only when it returns what the guarded function returns (the expanded text)
        ps = params(b)
        if None in ps or ps.count("path") + ps.count("pathtext") != 1 or (fn == name and ps.count("set") != 1) or (fn != name and "set" in ps):
            if fn == name:
                rep.note("undecided", "C20-R11: the parameters of %s are not (path, active set); the include-graph table is not evaluated" % last(fn))
                return
            continue
        targets.append((fn, ps))
    rep.floor("C20-R11", "entry points of the include expander the table is run through (guarded function + outside entries)", len(targets), 1)
    for fn, ps in targets:
        for clause, cname, files, entry in table:
            vfs_ref = VFS(files, cwd="/")
            try:
                exp = ("ok", ref_expand(vfs_ref, entry, set()))
            except IncludeFailure as ex:
                exp = (ex.kind, ex.what)
            vfs = VFS(files, cwd="/")
            aset = RSet()
            args = [RPath(entry) if p == "path" else entry if p == "pathtext" else aset for p in ps]
            try:
                kind, v, I = evaluate(items, mod_of(fn), last(fn), args, vfs=vfs)
            except NoEval as ex:
                undecided.setdefault(str(ex), []).append(cname)
                continue
            tag = "%s[%s]" % (cname, last(fn))
            if kind == "panic":
                counted[clause] += 1
                wrong[clause].append("%s: loading %r panics / does not terminate (%s)" % (tag, files.get(entry, entry), v))
                continue
            v = deref(v)
            if not (isinstance(v, Enum) and v.tag in ("Ok", "Err")):
                undecided.setdefault("the result is not a Result", []).append(cname)
                continue
            if v.tag == "Ok" and not is_text(deref(v.vals[0])):
                undecided.setdefault("the Ok value is not text", []).append(cname)
                continue
            counted[clause] += 1
            if v.tag == "Ok":
                got = S(deref(v.vals[0]))
                if exp[0] != "ok":
                    wrong[clause].append("%s: loading %r succeeds with %r; the property demands %s" % (
                        tag, files.get(entry, entry), got, "a circular-include error" if exp[0] == "circular" else "an include error naming `%s`" % exp[1]))
                elif got != exp[1]:
                    wrong[clause].append("%s: loading %r gives %r, the textual substitution is %r%s" % (tag, files.get(entry, entry), got, exp[1], blame(I, got, exp[1], files, entry)))
                if "set" in ps:
                    counted["pairing"] += 1
                    if aset.s:
                        wrong["pairing"].append("%s: %d file(s) are still marked active after a successful load" % (tag, len(aset.s)))
            else:
                txt = " ".join(texts_in(v))
                circ = re.search(r"circular|cycl|recursi|loop", txt, re.I) is not None
                if exp[0] == "ok":
                    wrong[clause].append("%s: loading %r fails (%s); the property demands the text %r" % (tag, files.get(entry, entry), txt[:80], exp[1]))
                elif exp[0] == "circular" and not circ:
                    wrong[clause].append("%s: the include cycle is reported as %r, not as a circular-include error" % (tag, txt[:80]))
                elif exp[0] == "missing" and (circ or exp[1] not in txt):
                    wrong[clause].append("%s: the missing target `%s` is reported as %r: %s" % (tag, exp[1], txt[:80], "a circular-include error" if circ else "the error does not name it"))
    for msg, names in sorted(undecided.items()):
        rep.note("undecided", "C20-R11: %d table row(s) not interpretable (%s), e.g. %s" % (len(names), msg, names[:3]))
    for c in clauses + ["pairing"]:
        if counted[c] == 0:
            continue                      # every row of the clause undecided (noted above): no verdict
        w = wrong[c]
        rep.check(not w, "C20-R11", "include-table:%s" % c,
                  "%s: %d of %d table rows of clause `%s` are decided wrongly, e.g. %s" % (last(name), len(w), counted[c], c, " || ".join(w[:2])), where, sample={"rows": counted[c]})


def blame(I, got, exp, files, entry):
    """diagnosis: the first line where the outcome leaves the reference, and what the local line tests answered about it"""
    g, x = split_inclusive(got), split_inclusive(exp)
    k = 0
    while k < len(g) and k < len(x) and g[k] == x[k]:
        k += 1
    line = g[k] if k < len(g) else (x[k] if k < len(x) else None)
    if line is None:
        return ""
    hints = []
    for name, a, out in I.trace:
        if a and isinstance(a[0], str) and a[0] in (line, line.rstrip("\n")) and len(hints) < 3:
            h = "%s(%s) = %r" % (name, ", ".join(repr(y) for y in a), out)
            if h not in hints:
                hints.append(h)
    # the line before the divergence is usually the one that was misjudged (a fence that did not close)
    return " [first difference at output line %d %r%s]" % (k + 1, line, ("; " + "; ".join(hints)) if hints else "")


def run_tables(F, rep, R, cg, opener_fns, close_fns, entries):
    import os
    from lib.rsinterp import labelled_functions
    items = [it for it in F.syn("mech.lib")]
    LABELLED.clear()
    try:
        with open(os.path.join(F.dir, "mech.lib.expanded.rs"), encoding="utf-8", errors="replace") as f:
            LABELLED.update(labelled_functions(items, f.read().split("\n")))
    except OSError:
        pass
    run_r10(F, rep, R, cg, items, opener_fns, close_fns)
    # R11 (the WHOLE expander interpreted over sample include graphs in a virtual file system against a reference implementation) is deliberately
    # NOT armed: R10 evaluates two closed, pure line predicates exhaustively over a finite abstract domain of lines (the same kind of argument as the
    # shape / alignment / arity tables of C01, C07, C16); R11 would be a test suite executed by a home-made interpreter - a run of the program under a
    # static label - which is outside the technique this framework is restricted to (DESIGN 19.3). The code is kept for `tools/shapes/c20` only.
    if os.environ.get("MECH_C20_R11") == "1":
        run_r11(F, rep, R, cg, items, entries)
