"""C14-R5 .. R9 (comprehension generators, membership truth tables, scratch environments, result kind, mirrored kind guard) in a form that does not depend on
how locals are spelled or on which private helper a statement lives in: every body is first expanded by lib/synroles (helpers inlined, named locals
resolvable), and roles are taken from provenance (`self.<field>`, the field `out()` returns, parameters, loop binders)."""
import re
from lib.facts import find, walk, is_node, path_of, render, render_pat, last_seg
from lib import synroles as SR

MATCHERS = ("pattern_match_value", "pattern_matches_value", "pattern_matches_value_with_semantics", "pattern_matches_arguments")


# ---------------------------------------------------------------------------------------------------------------- kernels
class KernelView:
    """solve() of a function struct with helpers inlined and locals resolvable to the `self.<field>` they were taken from"""

    def __init__(self, crate, solve_item, out_item):
        self.item = solve_item
        self.body, self.used = SR.inline(solve_item, crate, depth=2)
        self.env = SR.Env(self.body, crate)
        self.out_field = None
        if out_item is not None:
            fs = SR.self_fields(out_item["body"])
            if len(fs) == 1:
                self.out_field = sorted(fs)[0]

    def fields_of(self, e):
        return SR.self_fields(self.env.expand(e))

    def is_out(self, e):
        return self.out_field is not None and self.fields_of(e) == {self.out_field}


def kernel_views(crate):
    out = {}
    solve, outm = {}, {}
    for it in crate.items:
        if it.get("k") == "method" and it.get("trait") and last_seg(it["trait"]) == "MechFunctionImpl" and it.get("body") is not None:
            th = SR.type_head(it["self"])
            if it["name"] == "solve":
                solve[th] = it
            elif it["name"] == "out":
                outm[th] = it
    for th, it in solve.items():
        out[th] = KernelView(crate, it, outm.get(th))
    return out


def struct_fields(crate):
    return {it["name"]: [(f[0], f[1]) for f in it["fields"]] for it in crate.items if it.get("k") == "struct"}


def bool_function(view):
    """the value solve() writes to its boolean output as a function of (kinds equal, contains): {(ke, c): bool or None} or None when the body is not in the
    fragment the evaluator interprets (if / else, match on a bool, guard + return, &&, ||, !, ==, named conditions, inlined helpers)."""

    class NE(Exception):
        pass

    class Ret(Exception):
        pass

    env = view.env

    def ev(e, ke, c):
        if not is_node(e):
            raise NE()
        t = e[0]
        if t == "bool":
            return bool(e[1])
        if t == "path":
            x = env.expand(e)
            if x == e:
                raise NE()
            return ev(x, ke, c)
        if t in ("ref", "rawaddr"):
            return ev(e[2], ke, c)
        if t == "mcall" and e[2] in ("contains", "contains_key"):
            return c
        if t == "mcall" and e[2] in ("clone", "to_owned") and not e[4]:
            return ev(e[1], ke, c)
        if t == "mcall" and e[2] == "not" and not e[4]:
            return not ev(e[1], ke, c)
        if t == "bin" and e[1] in ("==", "!="):
            txt = re.sub(r"\s", "", render(env.expand(e)))
            if re.search(r"\.kind\b", txt):
                return ke if e[1] == "==" else (not ke)
            a, b = ev(e[2], ke, c), ev(e[3], ke, c)
            return (a == b) if e[1] == "==" else (a != b)
        if t == "un" and e[1] == "!":
            return not ev(e[2], ke, c)
        if t == "un" and e[1] == "*":
            return ev(e[2], ke, c)
        if t == "bin" and e[1] in ("&&", "&"):
            return ev(e[2], ke, c) and ev(e[3], ke, c)
        if t == "bin" and e[1] in ("||", "|"):
            return ev(e[2], ke, c) or ev(e[3], ke, c)
        if t == "bin" and e[1] == "^":
            return ev(e[2], ke, c) != ev(e[3], ke, c)
        if t == "if":
            if is_node(e[1]) and e[1][0] == "letc":
                raise NE()
            if ev(e[1], ke, c):
                return tail(e[2], ke, c)
            if e[3] is None:
                raise NE()
            return ev(e[3], ke, c)
        if t in ("block", "unsafe"):
            return tail(e[1], ke, c)
        if t == "match":
            return ev(arm_of(e, ke, c), ke, c)
        raise NE()

    def arm_of(e, ke, c):
        v = ev(e[1], ke, c)
        for arm in e[2]:
            p = arm[0]
            if is_node(p) and p[0] == "plit" and is_node(p[1]) and p[1][0] == "bool":
                if bool(p[1][1]) == v and arm[1] is None:
                    return arm[2]
            elif is_node(p) and p[0] in ("pwild", "pident") and arm[1] is None:
                return arm[2]
            else:
                raise NE()
        raise NE()

    def tail(stmts, ke, c):
        if not stmts:
            raise NE()
        last = stmts[-1]
        if last[0] != "expr" or last[2]:
            raise NE()
        for st in stmts[:-1]:
            if st[0] == "expr":
                raise NE()
        return ev(last[1], ke, c)

    def run(stmts, ke, c, out):
        for st in stmts:
            if st[0] != "expr":
                continue
            e = st[1]
            if not is_node(e):
                continue
            if e[0] in ("unsafe", "block"):
                run(e[1], ke, c, out)
            elif e[0] == "assign" and view.is_out(e[1]):
                out.append(ev(e[2], ke, c))
            elif e[0] == "if":
                if is_node(e[1]) and e[1][0] == "letc":
                    raise NE()
                if ev(e[1], ke, c):
                    run(e[2], ke, c, out)
                elif e[3] is not None:
                    run(e[3][1] if e[3][0] == "block" else [["expr", e[3], False]], ke, c, out)
            elif e[0] == "match":
                a = arm_of(e, ke, c)
                run(a[1] if is_node(a) and a[0] in ("block", "unsafe") else [["expr", a, True]], ke, c, out)
            elif e[0] == "ret":
                raise Ret()
            elif e[0] in ("for", "while", "loop"):
                if any(view.is_out(a[1]) for a in find(e, "assign")):
                    raise NE()
    table = {}
    try:
        for ke in (True, False):
            for c in (True, False):
                out = []
                try:
                    run(view.body, ke, c, out)
                except Ret:
                    pass
                table[(ke, c)] = out[-1] if out else None
    except NE:
        return None
    return table


def private_helper_of(it, keep=()):
    """predicate for the inliner: private, non-trait functions of the same module, except the named mechanism functions a rule looks for"""
    def ok(h):
        return h.get("vis", "") == "" and not h.get("trait") and h.get("mod") == it.get("mod") and h["name"] not in keep
    return ok


# ---------------------------------------------------------------------------------------------------------------- R5
def variant_branches(body, rx):
    """[(pattern, statements)] for every match arm / `if let` whose pattern names the enum variant"""
    out = []
    for n in walk(body):
        if n[0] == "match":
            for arm in n[2]:
                if re.search(rx, render_pat(arm[0])):
                    b = arm[2]
                    out.append((n, arm[0], b[1] if is_node(b) and b[0] in ("block", "unsafe") else [["expr", b, False]]))
        elif n[0] == "if" and is_node(n[1]) and n[1][0] == "letc" and re.search(rx, render_pat(n[1][1])):
            out.append((n, n[1][1], n[2]))
    return out


def generator_source_per_environment(F, rep):
    rep.rule("C14-R5", "comprehensions: a generator's source expression is evaluated once per binding environment (inside the loop over the environments, with that "
                       "environment, unconditionally) - a later generator may depend on variables bound by an earlier one")
    items = F.syn("mech_interpreter.lib")
    its = [it for it in items if it["k"] == "fn" and it["name"] == "comprehension_environments"]
    if not rep.check(len(its) == 1, "C14-R5", "anchor:comprehension_environments", "comprehension_environments not found"):
        return
    it = its[0]
    CR = SR.Crate(items)
    body, _ = SR.inline(it, CR, depth=2, only=private_helper_of(it, keep=("expression",) + MATCHERS))
    env = SR.Env(body, CR)
    # the accumulator of binding environments: what the qualifier match is assigned to / what is typed Vec<Environment> / what the function returns first
    acc = set()
    for n in walk(body):
        if n[0] == "assign" and is_node(n[1]) and n[1][0] == "path" and any(re.search(r"ComprehensionQualifier::Generator", render_pat(a[0])) for m in find(n[2], "match") for a in m[2]):
            acc.add(n[1][1])
        if n[0] == "let":
            ty = SR.pat_type(n[1])
            if ty and re.search(r"Vec<Environment>", re.sub(r"\s", "", ty)):
                acc.update(SR.pat_binders(n[1]))
            elif len(n) > 2 and n[2] is not None and any(re.search(r"ComprehensionQualifier::Generator", render_pat(a[0])) for m in find(n[2], "match") for a in m[2]):
                acc.update(SR.pat_binders(n[1]))
    if body and body[-1][0] == "expr" and not body[-1][2]:
        for tp in find(body[-1][1], "tuple"):
            if tp[1] and is_node(tp[1][0]) and tp[1][0][0] == "path":
                acc.add(tp[1][0][1])
    for p in it["sig"]["inputs"]:
        if is_node(p[0]) and re.search(r"Environment", p[1] or "") and re.search(r"Vec<|\[", p[1] or ""):
            acc.update(SR.pat_binders(p[0]))
    n = 0
    for _, pat, stmts in variant_branches(body, r"ComprehensionQualifier::Generator"):
        sites = SR.iteration_sites(stmts)
        env_loops = [s for s in sites if s[1] is not None and (SR.mentions(s[1], acc) or SR.mentions(env.expand(s[1]), acc))]
        if not rep.check(len(env_loops) >= 1, "C14-R5", "generator:loop-over-environments", "the Generator arm no longer loops over the binding environments"):
            continue
        node, itexpr, pats, lbody = env_loops[0]
        loopvar = set()
        for p in pats:
            loopvar.update(SR.pat_binders(p))

        def element_of_acc(e):
            """`envs[i]` / `envs.get(i)` with a varying index: the environment of the current iteration of an index loop"""
            x = env.expand(e)
            for n_ in walk(x):
                if n_[0] == "index" and SR.mentions(n_[1], acc) and not (is_node(n_[2]) and n_[2][0] == "int"):
                    return True
                if n_[0] == "mcall" and n_[2] in ("get", "get_unchecked") and SR.mentions(n_[1], acc) and n_[4] and not (is_node(n_[4][0]) and n_[4][0][0] == "int"):
                    return True
            return False
        for st in walk(lbody):
            if st[0] == "let" and len(st) > 2 and st[2] is not None and element_of_acc(st[2]):
                loopvar.update(SR.pat_binders(st[1]))

        def calls_in(e, guarded, out):
            for c in find(e, "call"):
                out.append((c, guarded))

        def uncond(stmts, guarded, out):
            for st in stmts:
                if not is_node(st):
                    continue
                if st[0] == "let":
                    if len(st) > 2 and st[2] is not None:
                        expr(st[2], guarded, out)
                    if len(st) > 3 and st[3] is not None:
                        expr(st[3], True, out)
                elif st[0] == "expr":
                    expr(st[1], guarded, out)

        def expr(e, guarded, out):
            if not is_node(e):
                return
            t = e[0]
            if t == "if":
                calls_in(e[1], guarded, out)
                uncond(e[2], True, out)
                if e[3] is not None:
                    expr(e[3], True, out) if e[3][0] == "if" else uncond(e[3][1], True, out)
            elif t == "match":
                expr(e[1], guarded, out)
                # `match r { Ok(v) => v, Err(e) => return Err(e) }` is `r?`: only the scrutinee matters; arm bodies run conditionally
                for a in e[2]:
                    b = a[2]
                    uncond(b[1] if is_node(b) and b[0] in ("block", "unsafe") else [["expr", b, False]], True, out)
            elif t == "for":
                calls_in(e[2], guarded, out)
                uncond(e[3], guarded, out)
            elif t == "while":
                calls_in(e[1], guarded, out)
                uncond(e[2], guarded, out)
            elif t in ("block", "unsafe", "loop"):
                uncond(e[1], guarded, out)
            elif t in ("try", "ref", "un", "cast", "field", "rawaddr"):
                expr(e[2] if t in ("ref", "un", "rawaddr") else e[1], guarded, out)
            elif t == "bin" and e[1] in ("&&", "||"):
                expr(e[2], guarded, out)
                expr(e[3], True, out)
            elif t == "call":
                out.append((e, guarded))
                for a in e[2]:
                    expr(a, guarded, out)
                expr(e[1], guarded, out)
            elif t == "mcall":
                expr(e[1], guarded, out)
                for a in e[4]:
                    expr(a, guarded, out)
            elif t == "closure":
                b = e[2]
                uncond(b[1] if is_node(b) and b[0] in ("block", "unsafe") else [["expr", b, False]], guarded, out)
            elif t == "assign":
                expr(e[2], guarded, out)
            elif t in ("tuple", "array"):
                for a in e[1]:
                    expr(a, guarded, out)
            elif t == "struct":
                for f in e[2]:
                    expr(f[1], guarded, out)
            elif t in ("ret", "hret", "break"):
                if len(e) > 1:
                    expr(e[1], guarded, out)
            else:
                calls_in(e, guarded, out)
        calls = []
        uncond(lbody, False, calls)
        src = [(c, g) for c, g in calls if last_seg(path_of(c[1]) or "") == "expression"
               and any(SR.mentions(a, loopvar) or SR.mentions(env.expand(a), loopvar) or element_of_acc(a) for a in c[2])]
        n += 1
        ok = any(not g for _, g in src)
        rep.check(ok, "C14-R5", "generator:source-evaluated-per-environment",
                  "comprehension_environments: the generator's source expression is %s: a generator whose source mentions a variable bound by an earlier generator gets the elements computed for another binding" % (
                      "evaluated only under a condition inside the loop over the environments (cached across bindings)" if src else "not evaluated with the loop's environment at all"),
                  "comprehension_environments (mech_interpreter.lib)", sample={"source_calls": len(src)})
    rep.floor("C14-R5", "generator arms examined", n, 1)


# ---------------------------------------------------------------------------------------------------------------- R6
def membership_complement(F, rep):
    rep.rule("C14-R6", "membership: over the four combinations of (kinds equal, set contains element) the ∈ kernel is `kinds equal AND contains` and the ∉ kernel is its exact negation")
    CR = SR.Crate(F.syn("mech_set.lib"))
    views = kernel_views(CR)
    want = {"SetElementOfFxn": lambda ke, c: ke and c, "SetNotElementOfFxn": lambda ke, c: not (ke and c)}
    n = 0
    for name, f in want.items():
        it = [v for k, v in views.items() if name in k]
        if not rep.check(len(it) == 1, "C14-R6", "anchor:%s" % name, "%s::solve not found" % name):
            continue
        table = bool_function(it[0])
        if table is None:
            rep.note("C14-R6-undecided", "%s::solve not interpretable" % name)
            continue
        wrong = []
        for ke in (True, False):
            for c in (True, False):
                n += 1
                got = table[(ke, c)]
                if got is None or got != f(ke, c):
                    wrong.append("kinds %s, %s -> %s" % ("equal" if ke else "differ", "contained" if c else "not contained", got if got is not None else "nothing written"))
        rep.check(not wrong, "C14-R6", "%s:truth-table" % name,
                  "%s::solve is not %s: %s" % (name, "`kinds equal AND contains`" if name == "SetElementOfFxn" else "the negation of ∈ (`kinds differ OR not contained`)", "; ".join(wrong)),
                  "%s (mech_set.lib)" % name, sample={"kernel": name, "combinations": 4})
    rep.floor("C14-R6", "membership kernel evaluations", n, 8)


# ---------------------------------------------------------------------------------------------------------------- R7
def scratch_env_fresh(F, rep, rule, fns, floor):
    """Every candidate (generator element) is matched against its OWN scratch environment: the `&mut X` handed to a pattern matcher inside a loop over candidates is
    declared by a `let` inside the body of the innermost enclosing loop (a `for` / `while` / `loop`, or the closure of an iterator adapter), so bindings made by a
    match that later fails cannot survive into the next candidate.  Helpers of the function are inlined first, so a matcher call moved into `fn try_bind(..)` is
    judged inside the loop that calls it."""
    rep.rule(rule, "trial matches use a fresh scratch environment: the environment passed `&mut` to pattern_match_value / pattern_matches_* inside a loop over candidates is declared inside "
                   "the body of the innermost such loop (a matcher binds sub-patterns left to right and leaves them behind when a later sub-pattern fails; reusing the environment "
                   "turns those leftovers into join constraints for the next candidate)")
    n = 0
    items = F.syn("mech_interpreter.lib")
    CR = SR.Crate(items)
    for it in items:
        if it["k"] != "fn" or it["name"] not in fns or not it.get("body"):
            continue
        params = set()
        for p in it["sig"]["inputs"]:
            if is_node(p[0]):
                params.update(SR.pat_binders(p[0]))
        body, _ = SR.inline(it, CR, depth=2, only=private_helper_of(it, keep=("expression",) + MATCHERS))
        env = SR.Env(body, CR, params=params)
        found = []

        def rec(n_, loops):
            if not isinstance(n_, list):
                return
            if is_node(n_):
                t = n_[0]
                if t == "for":
                    rec(n_[2], loops)
                    rec(n_[3], loops + [n_[3]])
                    return
                if t == "while":
                    rec(n_[1], loops)
                    rec(n_[2], loops + [n_[2]])
                    return
                if t == "loop":
                    rec(n_[1], loops + [n_[1]])
                    return
                if t == "mcall" and n_[2] in SR.ADAPTERS:
                    rec(n_[1], loops)
                    for a in n_[4]:
                        if is_node(a) and a[0] == "closure":
                            rec(a[2], loops + [a[2]])
                        else:
                            rec(a, loops)
                    return
                if t == "call" and last_seg(path_of(n_[1]) or "") in MATCHERS and loops:
                    found.append((n_, loops[-1]))
                if t == "macro":
                    return
            for x in n_:
                rec(x, loops)
        rec(body, [])
        for call, inner in found:
            m = last_seg(path_of(call[1]))
            for a in call[2]:
                x = env.expand(a)
                if not (is_node(x) and x[0] == "ref" and x[1]):
                    continue
                root = SR.peel(x)
                while is_node(root) and root[0] in ("field", "index"):
                    root = SR.peel(root[1])
                name = path_of(root)
                if name is None or name in params:
                    continue
                n += 1
                declared_inside = any(s[0] == "let" and name in SR.pat_binders(s[1]) for s in walk(inner))
                rep.check(declared_inside, rule, "%s:%s:scratch-environment" % (it["name"], m) + ("" if declared_inside else ":reused-across-candidates"),
                          "%s calls %s(.., &mut <env>) inside a loop over candidates, but the environment (`%s`) is declared outside that loop: bindings left behind by a match that fails part-way are still there when "
                          "the next candidate is matched and reject (or wrongly constrain) it" % (it["name"], m, name.split("@")[0]), "%s (mech_interpreter.lib)" % it["name"],
                          sample={"fn": it["name"], "matcher": m})
    rep.floor(rule, "trial-match sites inside candidate loops", n, floor)


# ---------------------------------------------------------------------------------------------------------------- R8
def is_mechset_ref(ty):
    return bool(re.search(r"\bMechSet\b", ty or ""))


def result_kind_from_result(F, rep):
    rep.rule("C14-R8", "result metadata of the set operators: wherever a set kernel assigns the kind of its output set, the kind is read from the OUTPUT's own elements (or is Empty for an "
                       "empty result) and never copied from an operand - `{} Δ {1,2}` holds numbers, so a kind inherited from the empty left operand makes every membership test fail")
    CR = SR.Crate(F.syn("mech_set.lib"))
    views = kernel_views(CR)
    fields = struct_fields(CR)
    n = 0
    for th in sorted(views):
        v = views[th]
        fl = fields.get(th, [])
        if v.out_field is None:
            continue
        operands = [f for f, ty in fl if f != v.out_field]
        # the binary set-algebra operators only: two set operands and a set result (insert / remove / powerset have their own kind rules)
        if not (len(operands) == 2 and all(is_mechset_ref(ty) for f, ty in fl)):
            continue
        # a local whose value is moved into `<out>.set` IS the result's element set: `let merged = ..; let k = kind of merged's first; out.set = merged; out.kind = k`
        stored = {}
        for a in find(v.body, "assign"):
            l = SR.peel(a[1])
            if is_node(l) and l[0] == "field" and l[2] == "set" and v.is_out(l[1]) and is_node(a[2]) and a[2][0] == "path" and a[2][1] in v.env.init:
                stored[a[2][1]] = ["field", l[1], "set"]
        saved = dict(v.env.init)
        v.env.init.update(stored)
        for a in find(v.body, "assign"):
            l = SR.peel(a[1])
            if not (is_node(l) and l[0] == "field" and l[2] == "kind" and v.is_out(l[1])):
                continue
            n += 1
            used = v.fields_of(a[2])
            roots = sorted(used - {v.out_field})
            reads_out = v.out_field in used
            ok = not roots and reads_out
            rep.check(ok, "C14-R8", "%s:kind-from-result" % th if ok else "%s:kind-from-%s" % (th, "+".join(roots) or "nothing-of-the-result"),
                      "%s::solve sets the output set's kind to `%s`: it %s - the result can hold elements of another kind than it reports (set/element-of, not-element-of and remove compare kinds first)" % (
                          th, render(a[2])[:90], ("reads the operand(s) %s" % roots) if roots else "does not read the result's elements"), "%s (mech_set.lib)" % th, sample={"kernel": th})
        v.env.init.clear()
        v.env.init.update(saved)
    rep.floor("C14-R8", "output-kind assignments in set kernels", n, 4)


# ---------------------------------------------------------------------------------------------------------------- R9
def predicates_in(e, crate, cur, outermost=False):
    """names of the crate's own functions an (expanded) condition consults: calls that resolve inside the crate and helper bodies the inliner put in their place.
    `outermost`: only the predicates the condition asks directly - what an inlined predicate consults in turn is NOT the same test, except through a
    transparent wrapper (a helper whose whole body is one call, possibly projected / negated: `fn ok(a, b) -> bool { inner(a, b).0 }`)."""
    out = set()

    def transparent(blk):
        body = blk[1][blk[2].get("pre", 0):]
        if len(body) != 1 or body[0][0] != "expr":
            return None
        x = body[0][1]
        while is_node(x):
            if x[0] in ("field", "try", "cast"):
                x = x[1]
            elif x[0] in ("ref", "rawaddr") or (x[0] == "un" and x[1] in ("!", "*")):
                x = x[2]
            else:
                break
        return x if is_node(x) and (SR.inlined_name(x) or x[0] == "call") else None

    def rec(x):
        if not isinstance(x, list):
            return
        if is_node(x):
            nm = SR.inlined_name(x)
            if nm is not None:
                out.add(nm)
                if outermost:
                    for st in x[1][:x[2].get("pre", 0)]:
                        rec(st)                     # the arguments are evaluated by the condition itself
                    inner = transparent(x)
                    if inner is not None:
                        rec(inner)
                    return
            elif x[0] == "call" and path_of(x[1]) and crate.resolve_call(x, cur) is not None:
                out.add(last_seg(path_of(x[1])))
            if x[0] == "macro":
                return
        for y in x:
            rec(y)
    rec(e)
    return out


def kind_guard_mirrored(F, rep):
    from lib import guards as G
    rep.rule("C14-R9", "no silent empty result: when a set kernel's solve() clears its output and refills it only under a kind test (a call of a *types_match / match_types predicate), "
                       "the function that builds the kernel applies the same predicate and returns Err when it fails - otherwise `set/insert({}, 1)` or an element of another kind "
                       "quietly yields the empty set")
    items = F.syn("mech_set.lib")
    CR = SR.Crate(items)
    views = kernel_views(CR)
    n = 0
    for th in sorted(views):
        v = views[th]

        def out_set(e):
            p = SR.peel(e)
            return is_node(p) and p[0] == "field" and p[2] == "set" and v.is_out(p[1])
        clears = [m for m in find(v.body, "mcall") if m[2] == "clear" and out_set(m[1])]
        if not clears:
            continue
        preds = set()
        gbody = SR.hret_as_ret(v.body)
        for site, facts in G.sites(gbody, "assign") + G.sites(gbody, "mcall"):
            tgt = site[1] if site[0] == "assign" else (site[1] if site[2] in ("insert", "extend") else None)
            if tgt is None or not out_set(tgt):
                continue
            for c, pol in G.atoms(facts):
                preds |= predicates_in(v.env.expand(c), CR, v.item, outermost=True)
        if not preds:
            continue
        n += 1
        # builders: functions of the same module constructing this struct
        builders = [b for b in items if b["k"] == "fn" and b.get("mod") == v.item.get("mod") and b.get("body") and any(last_seg(s_[1]) == th for s_ in find(b["body"], "struct"))]
        mirrored = False
        for b in builders:
            bbody, _ = SR.inline(b, CR, depth=2)
            bbody = SR.hret_as_ret(bbody)
            benv = SR.Env(bbody, CR)
            for r_, facts in G.sites(bbody, "call"):
                if last_seg(path_of(r_[1]) or "") != "Err":
                    continue
                for c, pol in G.atoms(facts):
                    if predicates_in(benv.expand(c), CR, b) & preds:
                        mirrored = True
        rep.check(mirrored, "C14-R9", "%s:kind-test-mirrored" % th if mirrored else "%s:kind-test-only-in-solve:%s" % (th, "+".join(sorted(preds))),
                  "%s::solve clears its output and refills it only when %s holds, but %s never reject(s) the failing case: the operation silently returns the empty set (e.g. inserting into `{}`, "
                  "whose kind is Empty, or inserting an element of another kind)" % (th, sorted(preds), [b["name"] for b in builders] or "its builders"), "%s (mech_set.lib)" % th, sample={"kernel": th, "predicates": sorted(preds)})
    rep.floor("C14-R9", "set kernels that refill a cleared output under a kind test", n, 1)
