"""C06-R19 - the constant decoder accepts every byte length the constant encoders produce.

`run_program` decodes the WHOLE constant table before it executes anything, and the value it returns is a decoded constant.  So "the bytecode does
run and reproduces the result" needs, for every kind of constant: whatever byte length the encoder of that kind can emit, the decoder arm of that
kind neither returns an error nor panics on a blob of that length *for a reason that does not depend on the bytes*.  Both sides are read off the MIR:

  writer   lib/mirlen.py: the set of byte lengths `<P as CompileConst>::compile_const` hands to the constant-table sink, P the payload type of the
           Value variant (CFG path weights: fixed-width writes, free byte payloads, nested writers, loops; exact up to a bound).
           `must` = lengths with a witness built from free data (the empty string = 4, an empty matrix = 8, an empty set = 5, an empty table = 17 ..).
  reader   lib/mirbuf.py: the decoder arm is interpreted with "a buffer of n bytes, contents unknown" for every n up to the bound.  An arm
           REJECTS n when every path ends in `Err(..)` / a panic (length test, exact-size array conversion, slice bound, cursor read past the end ..)
           - through guard clauses, nested ifs, matches, `?`, private helpers alike.

Obligations (per dispatch arm = per TypeTag): no n in must(writer of the variant the arm builds) is rejected.  The dispatch is found by role: a switch
over the discriminant of an enum whose arms build `Value` variants out of a byte buffer; the encoder is found by type: the impl, for the variant's
payload type, of the trait whose impls reach the constant-table sink.

Second family (same argument, other operand of the entry): the checks the decoder makes on an entry BEFORE it dispatches (encoding, bounds,
alignment) accept every (offset, alignment) pair the writer produces: alignment values are the constants the writer-side `align()` functions
return, offsets their multiples.  Decided by interpreting the loop body from the function entry with the entry's fields seeded.

Not decided here: rejections that depend on the bytes (a length prefix compared with the remaining bytes, `rows == 0` ..); lengths above the bound.
Under-length blobs that an arm admits and then panics on are recorded as evidence notes only: no compiled program contains one (C07's business).
"""
import re
from lib.facts import CallGraph, render
from lib import tyuni as T
from lib import mirlen, mirbuf

RID = "C06-R19"
BOUND = 128
VALUE_ADT = re.compile(r"(^|::)value::Value$")


def ranges(xs):
    """[4,5,6,9] -> '4-6,9'"""
    out = []
    xs = sorted(xs)
    i = 0
    while i < len(xs):
        j = i
        while j + 1 < len(xs) and xs[j + 1] == xs[j] + 1:
            j += 1
        out.append(str(xs[i]) if i == j else "%d-%d" % (xs[i], xs[j]))
        i = j + 1
    return ",".join(out)


def enum_discriminants(syn_items, name):
    """{discriminant value: variant name} of the enum `name` from the expanded syntax (explicit discriminants, C-like counting otherwise)"""
    from lib.minieval import ev, NoEval
    for it in syn_items:
        if it["k"] == "enum" and it["name"] == name:
            out, cur = {}, -1
            for v in it["variants"]:
                if v.get("disc") is not None:
                    try:
                        cur = ev(v["disc"], {})
                    except NoEval:
                        try:
                            cur = int(re.sub(r"_|[iu](8|16|32|64|128|size)$", "", render(v["disc"])), 0)
                        except ValueError:
                            return None
                else:
                    cur += 1
                out[cur] = v["name"]
            return out
    return None


def find_dispatches(cg, adts, min_arms=8):
    """(body, switch block, enum adt path) for every switch over the discriminant of a local enum with at least min_arms targets in a body that
    builds Value aggregates and sees a byte buffer before the switch"""
    out = []
    for key, body in cg.bodies.items():
        if body.crate != "mech_core":
            continue
        for bi, blk in enumerate(body.blocks):
            t = blk["t"]
            if t["k"] != "switch" or len(t["targets"]) < min_arms or isinstance(t["on"], dict) or blk["cl"]:
                continue
            src = None
            for s in blk["s"]:
                if s["d"][0] == t["on"][0] and s.get("rk") == "discr":
                    src = s["src"][0]
            if src is None:
                continue
            ty, _ = mirbuf.place_type(body, src, adts)
            if ty is None:
                continue
            ty = T.strip_refs(ty)
            if ty[0] != "p" or ty[1] not in adts or not adts[ty[1]].get("enum"):
                continue
            if mirbuf.byte_locals_before(body, bi):
                out.append((body, bi, ty[1]))
    return out


def emitter_traits(L):
    """(trait path, method) whose impls hand byte slices to the constant-table sink"""
    out = []
    for (tr, m), impls in sorted(L.res.impls.items()):
        if any(L._emits(k) for k, _ in impls[:4]):
            out.append((tr, m))
    return out


def encoder_for(L, traits, ty):
    ty0 = ty
    # the payload sits in the crate's shared-cell wrapper: an impl for the wrapped type is the encoder when the wrapper itself has none
    cands = [ty0]
    if ty0[0] == "p" and len(ty0[2]) == 1:
        cands.append(ty0[2][0])
    for c in cands:
        for tr, m in traits:
            best = None
            for k, pat in L.res.impls.get((tr, m), ()):
                e = {}
                if T.unify(pat, c, e) and (best is None or len(e) < len(best[1])):
                    best = (k, e)
            if best:
                return best[0], best[1], c
    return None, None, None


def exclusive_value_variants(body, sw, target, others):
    """Value variants built in blocks reachable from `target` (not through the switch) and from no other arm"""
    mine = body.reachable_from([target], avoid=(sw,))
    shared = set()
    for o in others:
        if o != target:
            shared |= body.reachable_from([o], avoid=(sw,))
    out = set()
    for b in mine - shared:
        for s in body.blocks[b]["s"]:
            if s.get("rk") == "agg" and VALUE_ADT.search(s.get("adt", "")):
                out.add(s["var"])
    return out


def short_fn(key):
    """`<a::b::T as c::Tr>::m` -> `T::m`; `a::b::T::m` -> `T::m`"""
    r = T.impl_self(key)
    if r:
        return "%s::%s" % (T.short(r[0]), r[2])
    return "::".join(key.split("::")[-2:])


def trait_writer(L, body):
    """the dispatch sits in an impl method of a codec trait (reader: bytes -> Self): the trait's writer method (an impl method with a `&mut Vec<u8>` parameter),
    as ((trait, method), parameter index) - else None"""
    r = T.impl_self(body.fn)
    if not r:
        return None
    for (tr, m), impls in L.res.impls.items():
        if tr != r[1] or m == r[2]:
            continue
        b = L.bodies[impls[0][0]]
        for i in range(1, b.nargs + 1):
            if re.match(r"^&mut alloc::vec::Vec<u8(,alloc::alloc::Global)?>$", b.locals[i]):
                return (tr, m), i
    return None


def run(F, rep, core):
    rep.rule(RID, "constant decoders vs. encoders, by byte length: every dispatch arm of a constant decoder accepts (no content-independent Err / panic) each byte length "
                  "the encoder of the Value variant it builds can emit, the minimum (empty string / matrix / set / table) included; every element decoder accepts the lengths its "
                  "own writer emits; the pre-dispatch entry checks accept every alignment the writer declares (lengths from the encoders' MIR path weights, the decoders "
                  "interpreted over a buffer of n unknown bytes)")
    cg = CallGraph(F, ["mech_core.lib"])
    adts = {a["name"]: a for a in F.adts("mech_core.lib")}
    L = mirlen.Lengths(cg, BOUND)
    L.adts = adts
    value_adt = [a for n, a in adts.items() if VALUE_ADT.search(n)]
    if not rep.check(len(value_adt) == 1, RID, "anchor:enum-Value", "the Value enum was not found among the ADT facts"):
        return
    payload = {v["name"]: T.parse(v["fields"][0][1]) for v in value_adt[0]["variants"] if len(v["fields"]) == 1}
    traits = emitter_traits(L)
    rep.floor(RID, "encoder traits whose impls reach the constant-table sink", len(traits), 1)
    I = mirbuf.Interp(cg, resolver=L.res, adts=adts)

    def collect(s, fr):
        if s.get("rk") == "agg" and VALUE_ADT.search(s.get("adt", "")):
            return s["var"]
        return None

    # ---------------------------------------------------------------- phase 1: interpret every arm of every dispatch for every length
    dispatches = []
    for body, sw, enum_adt in find_dispatches(cg, adts):
        t = body.blocks[sw]["t"]
        names = enum_discriminants(core, enum_adt.split("::")[-1]) or {}
        targets = [tg for _, tg in t["targets"]]
        excl = mirbuf.exclusive_blocks(body, sw, targets)
        used = set()
        for bs in excl.values():
            used |= mirbuf.locals_used(body, bs)
        # the buffer of THIS constant: byte-typed locals written before the dispatch that the arms read (not e.g. a reference to the whole blob)
        bl = [l for l in mirbuf.byte_locals_before(body, sw) if l in used]
        if not bl:
            continue
        entry_adt = entry_struct(body, adts)
        rows = []
        for val, tg in t["targets"]:
            verd, variants = [], set()
            for n in range(BOUND + 1):
                # an arm may test the entry's length field instead of the buffer it was sliced by
                I.seeds = {(entry_adt, "length"): n} if entry_adt else {}
                r = I.run(body, tg, {l: mirbuf.buf(n) for l in bl}, stop_blocks={sw}, collect=collect)
                verd.append(r["verdict"])
                if r["verdict"] == "ok":
                    variants |= set(r["seen"])
            if not variants:
                variants = exclusive_value_variants(body, sw, tg, targets)
            rows.append({"tag": names.get(val, "#%d" % val), "disc": val, "target": tg, "verdicts": verd, "variants": variants})
        # a dispatch of a constant decoder: most arms build exactly one Value variant
        built = [r for r in rows if len(r["variants"]) == 1]
        if len(built) * 2 >= len(rows) and len(built) >= 8:
            dispatches.append({"body": body, "sw": sw, "enum": enum_adt, "arms": rows, "tw": trait_writer(L, body)})
    top = [d for d in dispatches if d["tw"] is None]
    nested = [d for d in dispatches if d["tw"] is not None]
    rep.floor(RID, "dispatch arms of the constant-table decoder (one per type tag)", sum(len(d["arms"]) for d in top), 36)
    rep.floor(RID, "dispatch arms of the nested value decoder (one per value kind)", sum(len(d["arms"]) for d in nested), 19)
    if not dispatches:
        return

    # ---------------------------------------------------------------- phase 2: writer length sets of the variants the arms build
    def request(d, v):
        """(impl key, env, payload type used, getter) of the encoder that pairs with dispatch d for Value::v"""
        if v not in payload:
            return None
        if d["tw"] is None:
            k, e, ty = encoder_for(L, traits, payload[v])
            return (k, e, ty, lambda: L.emitted(k, e)) if k else None
        (tr, m), pidx = d["tw"]
        k, e, ty = encoder_for(L, [(tr, m)], payload[v])
        return (k, e, ty, lambda: L.written(k, e, pidx)) if k else None

    enc = {}
    for di, d in enumerate(dispatches):
        for r in d["arms"]:
            for v in r["variants"]:
                if (di, v) not in enc:
                    enc[(di, v)] = request(d, v)
                    if enc[(di, v)]:
                        enc[(di, v)][3]()
    codec_types = elem_codec_requests(L, payload, dispatches)
    L.solve()

    decided = {True: 0, False: 0}
    paired = {True: 0, False: 0}
    n_lengths = 0
    for di, d in enumerate(dispatches):
        fn = short_fn(d["body"].fn)
        where = "%s (mech_core.lib)" % fn
        tagenum = d["enum"].split("::")[-1]
        for r in sorted(d["arms"], key=lambda r: r["disc"]):
            tag = r["tag"]
            arm = "%s:%s" % (fn, tag)
            if len(r["variants"]) != 1:
                rep.note("undecided", {"rule": RID, "arm": arm, "why": "the arm builds %s Value variants (%s)" % (len(r["variants"]) or "no", sorted(r["variants"]))})
                continue
            v = next(iter(r["variants"]))
            q = enc.get((di, v))
            if q is None:
                rep.note("undecided", {"rule": RID, "arm": arm, "why": "no encoder impl found for the payload type of Value::%s" % v})
                continue
            k, e, ty, getter = q
            paired[d["tw"] is None] += 1
            must, may = getter()
            mustl = mirlen.members(must)
            if not mustl:
                rep.note("undecided", {"rule": RID, "arm": arm, "why": "no witness length for the encoder of Value::%s (%s)" % (v, T.short(ty))})
                continue
            verd = r["verdicts"]
            rej = [n for n in mustl if verd[n] in ("err", "panic", "reject")]
            und = [n for n in mustl if verd[n] == "undecided"]
            decided[d["tw"] is None] += 1
            n_lengths += len(mustl)
            if und:
                rep.note("undecided", {"rule": RID, "arm": arm, "why": "exploration limit reached for lengths %s" % ranges(und)})
            mn = mustl[0]
            how = {"err": "returns an error", "panic": "panics", "reject": "returns an error or panics"}
            kinds = sorted({verd[n] for n in rej})
            what_min = ""
            if rej and rej[0] == mn:
                what_min = " - %d is the SHORTEST constant of this kind (empty payload: only the fixed-width header / length prefix)" % mn
            rep.check(not rej, RID, ("%s:decodes-every-encoder-length" % arm) if not rej else "%s:rejects-encoder-lengths:%s" % (arm, ranges(rej)),
                      "%s, arm %s::%s (builds Value::%s): for a blob of %s bytes it %s whatever the bytes are, but the encoder of %s (%s) emits constants of exactly "
                      "that length%s (encoder lengths: %s%s). run_program decodes the whole constant table first, so a compiled program containing such a constant no longer runs." % (
                          fn, tagenum, tag, v, ranges(rej), " / ".join(how[x] for x in kinds), T.short(ty), short_fn(k), what_min, ranges(mustl[:12]), " .." if len(mustl) > 12 else ""),
                      where, sample={"arm": arm, "variant": v, "encoder": short_fn(k), "encoder_lengths": ranges(mustl[:16]),
                                     "accepted_from": next((n for n in range(BOUND + 1) if verd[n] == "ok"), None)})
            # evidence only: lengths no encoder emits on which the arm goes on and then panics
            under = [n for n in range(BOUND + 1) if verd[n] == "panic" and not (may >> n) & 1]
            if under and d["tw"] is None:
                rep.note("admits-then-panics(lengths no encoder emits; damaged-file behaviour, not judged here)", {"arm": arm, "lengths": ranges(under)})
    # recognised = the arm builds one Value variant and an encoder impl of its payload type exists; decided = that encoder's length set has witnesses
    rep.floor(RID, "constant-table dispatch arms paired with the encoder of the variant they build", paired[True], 36)
    rep.floor(RID, "nested value dispatch arms paired with the writer of the variant they build", paired[False], 18)
    rep.floor(RID, "constant-table dispatch arms decided against the encoder's length set", decided[True], 18)
    rep.floor(RID, "nested value dispatch arms decided against the writer's length set", decided[False], 9)
    rep.analysed["C06-R19 arms decided"] = decided[True] + decided[False]
    rep.analysed["C06-R19 encoder lengths checked"] = n_lengths

    elem_codecs(rep, L, I, codec_types)
    for d in top:
        entry_checks(rep, cg, adts, L, d["body"], d["sw"])


def type_closure(tys):
    out, todo = [], list(tys)
    while todo:
        t = todo.pop()
        if t in out or t[0] != "p":
            continue
        out.append(t)
        todo += list(t[2])
    return out


def elem_codec_requests(L, payload, dispatches):
    """(type, reader key, reader env, writer key, writer env, buffer parameter) for every type that occurs in the payload of a Value variant some decoder arm
    builds (type arguments included) and has both a reader and a writer impl of a codec trait"""
    tws = {d["tw"] for d in dispatches if d["tw"]}
    if not tws:
        return []
    readers = {}
    for d in dispatches:
        if d["tw"]:
            r = T.impl_self(d["body"].fn)
            readers[d["tw"]] = (r[1], r[2])
    built = set()
    for d in dispatches:
        for r in d["arms"]:
            built |= r["variants"]
    roots = []
    for v in sorted(built):
        if v in payload:
            t = payload[v]
            roots.append(t)
    out = []
    for ty in type_closure(roots):
        for tw in tws:
            (tr, wm), pidx = tw
            rk, re_, _ = encoder_for(L, [readers[tw]], ty)
            wk, we, used = encoder_for(L, [(tr, wm)], ty)
            if rk and wk and T.impl_self(rk)[0] == T.impl_self(wk)[0]:
                L.written(wk, we, pidx)
                out.append((used, rk, re_, wk, we, pidx))
    # one entry per (reader impl, binding)
    seen, uniq = set(), []
    for x in out:
        k = (x[1], tuple(sorted(x[2].items())))
        if k not in seen:
            seen.add(k)
            uniq.append(x)
    return uniq


def elem_codecs(rep, L, I, reqs):
    n = 0
    for ty, rk, renv, wk, wenv, pidx in sorted(reqs, key=lambda x: T.short(x[0])):
        must, may = L.written(wk, wenv, pidx)
        mustl = mirlen.members(must)
        name = T.short(ty)
        if not mustl:
            rep.note("undecided", {"rule": RID, "codec": name, "why": "no witness length for %s" % short_fn(wk)})
            continue
        rb = L.bodies[rk]
        bufp = [i for i in range(1, rb.nargs + 1) if mirbuf.BYTE_TY.match(rb.locals[i])]
        if len(bufp) != 1:
            continue
        rej = []
        for ln in mustl:
            r = I.run(rb, 0, {bufp[0]: mirbuf.buf(ln)}, env=renv)
            if r["verdict"] in ("err", "panic", "reject"):
                rej.append(ln)
        n += 1
        rep.check(not rej, RID, ("codec:%s:reader-accepts-writer-lengths" % name) if not rej else "codec:%s:reader-rejects-writer-lengths:%s" % (name, ranges(rej)),
                  "%s panics on %s bytes whatever they are, but %s writes exactly that many for some value of %s (writer lengths: %s%s): a constant that contains such an element "
                  "aborts the loader" % (short_fn(rk), ranges(rej), short_fn(wk), name, ranges(mustl[:12]), " .." if len(mustl) > 12 else ""),
                  "%s (mech_core.lib)" % short_fn(rk), sample={"type": name, "writer_lengths": ranges(mustl[:16])})
    rep.floor(RID, "element codecs (reader / writer impl pairs of payload types)", len(reqs), 37)
    rep.floor(RID, "element codecs decided", n, 18)


def align_values(cg):
    """integer constants returned by the writer-side `align` functions (what the compiler stores in an entry's align field)"""
    vals = set()
    n = 0
    for key, body in cg.bodies.items():
        if not re.search(r"(^|::|>::)align$", key) or body.crate != "mech_core":
            continue
        if not re.match(r"^u(8|16|32|64|size)$", body.locals[0]):
            continue
        n += 1
        for blk in body.blocks:
            for s in blk["s"]:
                if s["d"] == [0, ""] and s.get("rk") == "use" and isinstance(s["src"][0], dict):
                    try:
                        vals.add(int(s["src"][0].get("c")))
                    except (TypeError, ValueError):
                        pass
    return vals, n


def entry_struct(body, adts):
    """the constant-table entry the decoder works on: the struct type (behind a local of the body) with fields named offset / length / align"""
    for l, ty in enumerate(body.locals):
        t = T.strip_refs(T.parse(ty))
        if t[0] == "p" and t[1] in adts and not adts[t[1]].get("enum"):
            names = {f[0] for f in adts[t[1]]["variants"][0]["fields"]}
            if {"offset", "length", "align"} <= names:
                return t[1]
    return None


def entry_checks(rep, cg, adts, L, body, sw):
    entry_adt = entry_struct(body, adts)
    if entry_adt is None:
        rep.note("undecided", {"rule": RID, "what": "pre-dispatch entry checks", "why": "no local of a struct with offset/length/align fields in the decoder"})
        return
    aligns, nfn = align_values(cg)
    rep.floor(RID, "alignment values declared by the writer-side align() functions", len(aligns), 4)
    n = 0
    bad = {}
    for a in sorted(aligns):
        if a <= 0:
            continue
        for k in (0, 1, 2, 5):
            for ln in (1, 8):
                seeds = {(entry_adt, "offset"): k * a, (entry_adt, "length"): ln, (entry_adt, "align"): a}
                J = mirbuf.Interp(cg, resolver=L.res, adts=adts, seeds=seeds)
                r = J.run(body, 0, {}, stop_blocks={sw}, ok_only_at_stop=True)
                n += 1
                if r["verdict"] in ("err", "panic", "reject"):
                    bad.setdefault(a, []).append((k * a, ln, r["verdict"]))
    where = "%s (mech_core.lib)" % body.fn.split("::", 1)[-1]
    for a in sorted(aligns):
        if a <= 0:
            continue
        rep.check(a not in bad, RID, ("entry-checks:align=%d:accepted" % a) if a not in bad else "entry-checks:align=%d:rejected" % a,
                  "constant decoder: an entry with alignment %d at an offset that IS a multiple of it (e.g. offset %s, length %s) is rejected before the type dispatch (%s), whatever the "
                  "other fields are; the compiler stores alignment %d for some kinds and pads the blob to it, so every program with such a constant stops loading" % (
                      a, bad.get(a, [(0, 0, "")])[0][0], bad.get(a, [(0, 0, "")])[0][1], bad.get(a, [(0, 0, "")])[0][2], a), where, sample={"align": a})
    rep.analysed["C06-R19 entry-check evaluations"] = n
