"""C03-R8 - the value of an index expression reaches the access compiler element by element, in storage (column-major) order.

Clause of C03: "... index vectors (with repeats), ranges and logical masks ... returns the elements a 1-based column-major reference model selects".
The access kernels (C03-R2) pair position i of their index operand with the i-th selected / i-th source element.  That is only the reference model's
selection if position i of the index OPERAND is element i (storage order = column-major) of the index VALUE the user wrote: every step between the
evaluated index expression and the argument vector handed to `<access compiler>.compile(..)` - the per-form conversion helper of the read
dispatcher, `Value::as_index`, `as_usize`, `as_vecusize`, `as_vecbool`, `as_bool`, `Matrix::as_vec`, `ToMatrix::to_matrix`, `ToValue::to_value`, whatever they
are called and however they are split into helpers - must be a position-preserving, element-wise map (numeric elements may only be cast).

Decided by evaluating the read dispatcher CONCRETELY (lib/seqeval.py) on the syn AST for a finite table: every Subscript form tuple the dispatcher has an arm
for x every index position x every index-capable `Value` variant (read from the enum: payload `Ref<K>` / `Matrix<K>`, K numeric, usize or bool; also behind the
reference-wrapper variant) x every storage form of `Matrix` x a table of shapes (incl. non-square and square non-1).  The index value is a container of tokens
`in<j>[i]`; the evaluation stops at `.compile(args)` and the operand at position j+1 of `args` must hold exactly in<j>[0], in<j>[1], .. in that order, untouched
except for casts, in an index variant of the same class (bool -> Bool/MatrixBool, numeric -> Index/MatrixIndex).  An error / panic for an input is not a
wrong element and is accepted.  Nothing is recognised by a name of a local, an arm order or a helper's name."""
import re
from lib.facts import find, is_node, render_pat
from lib import seqeval as SE
from lib.seqeval import SeqEval, Index, Tok, Store, En, Opaque, Ast, StructV, NoEval, Panic, Done, elements_of

CRATES = ["mech_interpreter.lib", "mech_core.lib"]
PRIMS = SE.NUM_KINDS + ("bool",)


def _prim_payload(ty):
    """'Ref<f64>' -> ('scalar','f64') ; 'Matrix<bool>' -> ('matrix','bool')"""
    m = re.match(r"^(Ref|Matrix)<(\w+)>$", (ty or "").replace(" ", ""))
    if m and m.group(2) in PRIMS:
        return ("scalar" if m.group(1) == "Ref" else "matrix", m.group(2))
    return None


def reference_wrappers(F, enum_name, crate="mech_core.lib"):
    """variants W of the enum that merely refer to another value of the same enum: one field whose RESOLVED type (MIR adt facts, aliases expanded) is `Ref<Enum>`"""
    out = set()
    for a_ in F.adts(crate):
        if not a_.get("enum") or a_.get("name", "").split("::")[-1] != enum_name:
            continue
        for v in a_["variants"]:
            if len(v["fields"]) == 1 and re.match(r"^(\w+::)*Ref<%s>$" % re.escape(a_["name"]), v["fields"][0][1].replace(" ", "")):
                out.add(v["name"])
    return out


def input_table(F, index):
    """[(label, class, builder(src, shape) -> value, shapes)] of the index-capable values, read from the `Value` and `Matrix` enums"""
    val, mat = index.enums.get("Value"), index.enums.get("Matrix")
    if not val or not mat:
        return [], set()
    forms = []
    for v in mat["variants"]:
        if len(v["fields"]) != 1:
            continue
        m = re.match(r"^Ref<(\w+)<\w+>>$", v["fields"][0][1].replace(" ", ""))
        if m and SE.storage_form(m.group(1)) is not None:
            forms.append((v["name"], m.group(1), SE.storage_form(m.group(1))))
    wrappers = sorted(reference_wrappers(F, "Value"))
    rows = []

    def shapes_of(sf):
        r, c = sf
        if r is None and c is None:
            return [(1, 1), (1, 3), (3, 1), (2, 2), (2, 3), (3, 2)]
        if r is None:
            return [(1, c), (3, c)]
        if c is None:
            return [(r, 1), (r, 3)]
        return [(r, c)]

    for v in val["variants"]:
        if len(v["fields"]) != 1:
            continue
        pp = _prim_payload(v["fields"][0][1])
        if pp is None:
            continue
        shape_kind, k = pp
        cls = "bool" if k == "bool" else "num"
        vn = v["name"]
        if shape_kind == "scalar":
            def mk(src, shape, vn=vn, k=k):
                return En("Value::" + vn, [Tok(src, 0, k, (), True if k == "bool" else None)])
            rows.append(("%s" % vn, cls, mk, [(1, 1)]))
            for w in wrappers:
                rows.append(("%s(%s)" % (w, vn), cls, (lambda src, shape, mk=mk, w=w: En("Value::" + w, [mk(src, shape)])), [(1, 1)]))
        else:
            for fvar, fty, sf in forms:
                def mk(src, shape, vn=vn, k=k, fvar=fvar, fty=fty):
                    r, c = shape
                    return En("Value::" + vn, [En("Matrix::" + fvar, [Store(fty, r, c, SE.fill(src, k, r * c))])])
                rows.append(("%s:%s" % (vn, fvar), cls, mk, shapes_of(sf)))
                if sf == (None, None):
                    for w in wrappers:
                        rows.append(("%s(%s:%s)" % (w, vn, fvar), cls, (lambda src, shape, mk=mk, w=w: En("Value::" + w, [mk(src, shape)])), [(2, 3), (3, 1)]))
    return rows, set(wrappers)


def read_dispatcher_forms(F, index, fn_rx):
    """(dispatcher item, bracket variant path, sorted list of Subscript form tuples) from the slice patterns under the `Subscript::Bracket` arm of the read dispatcher"""
    from rules.c03 import private_helper_bodies
    crate = CRATES[0]
    out = []
    for it in F.syn(crate):
        if it["k"] != "fn" or not re.search(fn_rx, it["name"]) or not it.get("body"):
            continue
        forms = set()
        bodies = []
        for m0 in find(it["body"], "match"):
            for a0 in m0[2]:
                if a0[0][0] == "pts" and SE.norm_path(a0[0][1]).endswith("Subscript::Bracket"):
                    bodies.append(a0[2])
                    bodies += private_helper_bodies(F, crate, it["mod"], a0[2])
        for bb in bodies:
            for m in find(bb, "match"):
                for arm in m[2]:
                    alts = arm[0][1] if arm[0][0] == "por" else [arm[0]]
                    for p in alts:
                        if p[0] != "pslice":
                            continue
                        slots = []
                        for e in p[1]:
                            mm = re.search(r"Subscript::(\w+)", render_pat(e)) if e[0] in ("pts", "ppath", "pstruct", "pident") else None
                            slots.append(mm.group(1) if mm else "?")
                        if slots and "?" not in slots:
                            forms.add(tuple(slots))
        if bodies:
            out.append((it, sorted(forms)))
    return out


def describe(seq, n):
    return "[%s]" % ", ".join(repr(x) if isinstance(x, Tok) else str(x)[:12] for x in (seq or [])[:n])


UNDECIDED = object()


def _has_opaque(v, depth=0):
    if isinstance(v, Opaque):
        return True
    if depth > 6:
        return False
    if isinstance(v, En):
        return any(_has_opaque(a, depth + 1) for a in v.args)
    if isinstance(v, Store):
        return any(isinstance(x, Opaque) for x in v.data)
    if isinstance(v, (list, tuple)):
        return any(_has_opaque(x, depth + 1) for x in v)
    return False


def judge(operand, src, cls, n_in):
    """None if `operand` holds src[0..n) in order (casts only), else a description of what is wrong"""
    if _has_opaque(operand):
        return UNDECIDED          # part of the operand went through something the evaluator does not model
    if not isinstance(operand, En) or "::" not in operand.path:
        return "the operand is not a Value (%r)" % (operand,)
    var = operand.path.split("::")[-1]
    seq = elements_of(operand)
    if seq is None:
        return "the operand %s carries no elements" % operand.path
    if cls == "bool" and seq and all(isinstance(x, int) and not isinstance(x, bool) for x in seq):
        return UNDECIDED
    if any(not isinstance(x, Tok) for x in seq):
        return "the operand holds %s: not the elements of the index value" % describe(seq, 8)
    foreign = [x for x in seq if x.src != src]
    if foreign:
        return "the operand is taken from another subscript (%s)" % describe(seq, 6)
    pos = [x.pos for x in seq]
    want = list(range(n_in))
    if pos != want:
        if sorted(pos) == want:
            how = "permuted (the flattening is not the storage / column-major order of the index value)"
        elif len(pos) < n_in:
            how = "truncated / thinned out"
        else:
            how = "not the element sequence of the index value"
        return "position i of the operand must be element i (storage order) of the index value, but the operand holds elements %s of it instead of %s: %s" % (pos, want, how)
    changed = [x for x in seq if any(op[0] != "as" for op in x.ops)]
    if changed:
        return "the elements are altered on the way (%s): the operand must be the index value itself (casts only)" % describe(changed, 3)
    if cls == "bool" and (any(x.ops for x in seq) or "Bool" not in var):
        return "a logical index value arrives as %s %s" % (operand.path, describe(seq, 3))
    if cls == "num" and "Index" not in var:
        return "a numeric index value arrives as %s" % operand.path
    return None


def ret_is_result(index, name):
    for _ci, it in index.fns.get(name.split("::")[-1], []):
        r = (it["sig"].get("ret") or "").replace(" ", "")
        return bool(re.match(r"^(M?Result|Option)<", r)), r
    return True, ""


def evaluate_dispatch(index, it, params, sub_pos, arity, form, inputs, watch=None):
    """run the read dispatcher `it` concretely on `x[<form>]` with the evaluated subscripts `inputs` ({slot: Value}) up to `<compiler>.compile(argv)`.
    -> ("done", compiler struct name, argv, blame) | ("returns", what) | ("error",) | ("undecided", why);  blame: first crate function whose result shows the `watch`ed
    (src, n) sequence out of order / altered"""
    subs = [En("Subscript::" + f, [Ast(jj)] if arity.get(f, 0) == 1 else []) for jj, f in enumerate(form)]
    blame = []

    def hook(ev, kind, name, recv, args):
        if kind != "call":
            return None
        slots = [a.slot for a in args if isinstance(a, Ast)]
        if len(slots) != 1 or slots[0] not in inputs:
            return None
        wrapped, _ = ret_is_result(index, name)
        v = inputs[slots[0]]
        return En("Ok", [v]) if wrapped else v

    def stop(ev, recv, name, args):
        return len(args) == 1 and isinstance(args[0], list) and any(isinstance(a, En) and a.path.startswith("Value::") for a in args[0][1:])

    ev = SeqEval(index, hook=hook, stop=stop)
    if watch is not None:
        src, n_in = watch

        def corrupt(x):
            """x carries the watched index value, but not as its element sequence in storage order (or carries nothing any more)"""
            if isinstance(x, (list, Store)) and not (x.data if isinstance(x, Store) else x):
                return n_in > 0
            seq = elements_of(x)
            if not seq or not all(isinstance(t, Tok) and t.src == src for t in seq):
                return False
            return [t.pos for t in seq] != list(range(n_in)) or any(op[0] != "as" for t in seq for op in t.ops)

        def on_return(qn, v, inputs_):
            # the innermost function that returns the index value out of order although it was handed nothing out of order
            if blame:
                return
            r = v.args[0] if isinstance(v, En) and v.path in ("Ok", "Some") and len(v.args) == 1 else v
            while isinstance(r, En) and len(r.args) == 1 and r.path != "Err":
                r = r.args[0]
            if corrupt(r) and not any(corrupt(_unwrap(a)) for a in inputs_):
                blame.append(qn)
        ev.on_return = on_return
    args = [En("Subscript::Bracket", [subs]) if i == sub_pos else Opaque("arg%d" % i) for i in range(len(params))]
    try:
        r = ev.call_item(it, args)
        return ("returns", r.path if isinstance(r, En) else type(r).__name__)
    except Panic:
        return ("error",)
    except NoEval as ex:
        return ("undecided", str(ex))
    except Done as d:
        recv, _name, cargs = d.value
        return ("done", recv.name, cargs[0], blame)


def _unwrap(x):
    while isinstance(x, En) and len(x.args) == 1 and x.path != "Err":
        x = x.args[0]
    return x


def other_operand(jj):
    return En("Value::MatrixIndex", [En("Matrix::DVector", [Store("DVector", 2, 1, SE.fill("in%d" % jj, "usize", 2))])])


def run_r8(F, rep, rule="C03-R8", fn_rx=r"^subscript$", floor_forms=10, floor_rows=1176, rule9="C03-R9"):
    rep.rule(rule, "index conversion is position-preserving: for every Subscript form tuple of the read dispatcher, every index position and every index-capable Value variant / "
                   "storage form / shape of a finite table, the operand handed to the access compiler holds the elements of the index value in storage (column-major) order, "
                   "unaltered except for casts (concrete evaluation of the dispatcher and its conversion helpers over symbolic element tokens)")
    from rules.c03_ixkernel import operand_signature, run_r9
    import itertools
    index = Index(F, CRATES)
    table, wrappers = input_table(F, index)
    disp = read_dispatcher_forms(F, index, fn_rx)
    sub_enum = index.enums.get("Subscript")
    n_forms = n_rows = 0
    undecided = 0
    observed = {}
    for it, forms in disp:
        params = [p for p in it["sig"]["inputs"] if not (p and p[0] == "self")]
        sub_param = [i for i, p in enumerate(params) if re.sub(r"[&\s]|mut\b|'\w+", "", p[1]) == "Subscript"]
        if len(sub_param) != 1 or sub_enum is None:
            continue
        arity = {v["name"]: len(v["fields"]) for v in sub_enum["variants"]}
        for form in forms:
            positions = [j for j, f in enumerate(form) if arity.get(f, 0) == 1]
            if not positions:
                continue
            n_forms += 1
            reps = {j: {} for j in positions}      # per position: class of converted operand -> an input (builder, shape) that yields it
            for j in positions:
                for label, cls, mk, shapes in table:
                    n_rows += 1
                    key = "ixconv:%s:[%s]:%d:%s" % (it["name"], ",".join(form), j + 1, label)
                    verdict, detail, why_undecided = None, None, None
                    outcomes = []
                    for shape in shapes:
                        inputs = {jj: (mk("in%d" % jj, shape) if jj == j else other_operand(jj)) for jj in range(len(form)) if arity.get(form[jj], 0) == 1}
                        n_in = shape[0] * shape[1]
                        res = evaluate_dispatch(index, it, params, sub_param[0], arity, form, inputs, watch=("in%d" % j, n_in))
                        if res[0] == "returns":
                            outcomes.append("returns %s without compiling an access" % res[1])
                            continue
                        if res[0] == "error":
                            outcomes.append("error")
                            continue
                        if res[0] == "undecided":
                            why_undecided = "%dx%d: %s" % (shape[0], shape[1], res[1])
                            break
                        _d, comp, argv, blame = res
                        if len(argv) != len(form) + 1:
                            verdict = "the access compiler %s is handed %d values for %d subscripts" % (comp, len(argv), len(form))
                            detail = (shape, comp, blame)
                            break
                        bad = judge(argv[j + 1], "in%d" % j, cls, n_in)
                        if bad is UNDECIDED:
                            why_undecided = "%dx%d: the operand is built in a way that is not modelled (%r)" % (shape[0], shape[1], argv[j + 1])
                            break
                        outcomes.append("ok" if bad is None else "bad")
                        if bad is not None:
                            verdict, detail = bad, (shape, comp, blame)
                            break
                        sig = operand_signature(argv[j + 1])
                        reps[j].setdefault(sig[:-2] + (("1x1",) if sig[-2:] == (1, 1) else ("n",)) if isinstance(sig[-1], int) else sig, (mk, shape))
                    if why_undecided is not None:
                        undecided += 1
                        rep.note("undecided", {"rule": rule, "row": key, "why": "the conversion uses a construct the evaluator does not model (%s)" % why_undecided})
                        continue
                    if verdict is None:
                        rep.ok(rule, key, sample={"row": key, "shapes": ["%dx%d" % s for s in shapes], "outcomes": outcomes})
                        continue
                    shape, comp, blame = detail
                    fault = "shape-%dx%d" % shape if shape[0] > 1 and shape[1] > 1 else ("row" if shape[1] > 1 else "column" if shape[0] > 1 else "scalar")
                    where = ("first function whose result shows it: %s" % blame[0]) if blame else "in the dispatcher arm itself"
                    # one defect in a shared conversion helper shows in every form tuple that uses it: such rows share one key (named after the helper), the report prints it once
                    site = ("via:" + blame[0]) if blame else "%s:[%s]:%d" % (it["name"], ",".join(form), j + 1)
                    if not blame and ("another subscript" in verdict or "is handed" in verdict):
                        label, fault = "any-index-value", "operand-position"      # a fault of the arm, whatever the index value is: one key per arm and position
                    rep.bad(rule, "ixconv:%s:%s:%s" % (site, label, fault),
                            "%s, subscript forms [%s], index position %d, index value %s of shape %dx%d (compiled by %s): %s; %s" % (
                                it["name"], ", ".join(form), j + 1, label, shape[0], shape[1], comp, verdict, where),
                            "%s (%s)%s" % (it["name"], CRATES[0], (" -> " + blame[0]) if blame else ""))
            # argument vectors for C03-R9: every combination of the operand classes seen per position
            for combo in itertools.product(*[sorted(reps[j].items(), key=lambda kv: repr(kv[0])) for j in positions]):
                inputs, slots = {}, []
                for j, (_cls, (mk, shape)) in zip(positions, combo):
                    inputs[j] = mk("in%d" % j, shape)
                    slots.append((j, shape[0] * shape[1]))
                res = evaluate_dispatch(index, it, params, sub_param[0], arity, form, inputs)
                if res[0] == "done" and len(res[2]) == len(form) + 1:
                    observed.setdefault((res[1], tuple(operand_signature(a) for a in res[2][1:])), (res[2], slots, form))
    rep.floor(rule, "Subscript form tuples with an index operand in the read dispatcher", n_forms, floor_forms)
    rep.floor(rule, "index conversion rows (form tuple x position x value variant x storage form)", n_rows, floor_rows)
    rep.analysed = dict(getattr(rep, "analysed", {}) or {}, ixconv_rows=n_rows, ixconv_undecided=undecided, ixconv_reference_wrappers=sorted(wrappers))
    if rule9:
        run_r9(F, rep, index, observed, rule9)


def behaviour_partition(F, index=None):
    """-> semantic(key, part) for rules.k2_targets.run_k2: classify the per-variant arms of a `Value` conversion method (`Value::as_usize`, `Value::as_vecusize` ...) by the
    result of evaluating the method concretely on a value of each variant (every storage form, the shape table), the element kind abstracted.  None (= compare the text)
    when a variant has a payload the table cannot build or the evaluation meets something it does not model."""
    index = index or Index(F, CRATES)
    table, wrappers = input_table(F, index)
    by_variant = {}
    for label, cls, mk, shapes in table:
        if "(" in label:
            continue
        by_variant.setdefault(label.split(":")[0], []).append((label, mk, shapes))
    first_scalar = next((lab for lab, _c, _m, sh in table if ":" not in lab and "(" not in lab), None)

    def semantic(key, part):
        head, _, method = key.partition("::")
        if head != "Value" or not method:
            return None
        out = {}
        for v in part:
            rows = by_variant.get(v)
            tag = "variant"
            if rows is None and v in wrappers and first_scalar:
                # a reference wrapper behaves like what it refers to: classified on its own, evaluated around every kind of value
                rows = [("%s(%s)" % (v, lab), (lambda src, shape, mk=mk, v=v: En("Value::" + v, [mk(src, shape)])), shapes) for lab, _c, mk, shapes in table if "(" not in lab]
                tag = "wrapper"
            if rows is None:
                return None
            sig, outs = [], set()
            for label, mk, shapes in rows:
                for shape in shapes:
                    ev = SeqEval(index)
                    try:
                        r = ev.method(mk("in", shape), method, [])
                        txt = repr(r)
                    except Panic:
                        txt = "panic"
                    except NoEval:
                        return None
                    form = label.split(":")[1] if ":" in label else "scalar"
                    outs.add(txt)
                    sig.append("%s %dx%d -> %s" % (form if tag == "variant" else label, shape[0], shape[1], txt))
            # an arm that answers the same for every input of its variant (e.g. always an error) is classified by that answer alone
            out[v] = (tag + " | always " + outs.pop()) if len(outs) == 1 and tag == "variant" and "in[" not in next(iter(outs)) else (tag + " | " + " ; ".join(sig))
        return out
    return semantic
