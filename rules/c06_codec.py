"""C06 constant-pool codec rules (R9-R11): the decoders that rebuild constants from a bytecode image must undo exactly what the encoders wrote.

run_program does not re-solve the plan: the value it returns IS a decoded constant, so a constant that decodes differently (or whose decoder
panics) changes the program's result.  These rules compare writer and reader *tables* and the cursor discipline of the readers.
"""
import re
from lib.facts import find, walk, is_node, path_of, render, render_pat, last_seg
from lib import fxn as X
from lib import codec as C


# ValueKind variants that emitted constants carry today and that ValueKind::from_le decodes today (reference frozen 2026-09-24): losing one of these
# reader arms turns a working program into a loader panic.  The other writer variants (Record, Map, Atom, Tuple, Reference, Option) have no reader
# arm on the pinned tree, but no compile path emits a constant of such a kind (compile_const has no arm / errors first), so that gap is latent.
READER_REQUIRED = {"U8", "U16", "U32", "U64", "U128", "I8", "I16", "I32", "I64", "I128", "F32", "F64", "C64", "R64", "String", "Bool", "Id", "Index",
                   "Empty", "Any", "Matrix", "Enum", "Table", "Set"}


def _stmts_blocks(node):
    """every statement list in the body: (stmts, is_loop_body)"""
    out = []
    if isinstance(node, list) and node and isinstance(node[0], list) and node[0] and node[0][0] in ("let", "expr", "item"):
        out.append((node, False))
    for n in walk(node):
        if n[0] == "block" or n[0] == "unsafe":
            out.append((n[1], False))
        elif n[0] == "for":
            out.append((n[3], True))
        elif n[0] == "while":
            out.append((n[2], True))
        elif n[0] == "loop":
            out.append((n[1], True))
        elif n[0] == "if":
            out.append((n[2], False))
        elif n[0] == "match":
            for a in n[2]:
                if is_node(a[2]) and a[2][0] == "block":
                    pass  # reached through walk as a block
    return out


def _is_slice_decode(e):
    """T::from_le(&buf[P..]) -> (callee path, P text) else None"""
    if not (is_node(e) and e[0] == "call"):
        return None
    p = path_of(e[1]) or render(e[1])
    if not p.endswith("from_le") or len(e[2]) != 1:
        return None
    a = e[2][0]
    if is_node(a) and a[0] == "ref" and is_node(a[2]) and a[2][0] == "index" and is_node(a[2][2]) and a[2][2][0] == "range" and a[2][2][2] is None:
        return p, render(a[2][2][1])
    return None


def _reads(st):
    """does this statement read through the cursor / decode a further slice?"""
    for n in walk(st):
        if n[0] == "mcall" and (re.match(r"read_(u|i|f)\d+$|read_exact$", n[2])):
            return True
        if _is_slice_decode(n):
            return True
    return False


def _strip_value(e):
    """drop casts, parentheses, references, derefs, `.clone()`/`.into()` around an expression"""
    while is_node(e):
        if e[0] in ("cast", "paren"):
            e = e[1]
        elif e[0] == "ref":
            e = e[2]
        elif e[0] == "un" and e[1] == "*":
            e = e[2]
        elif e[0] == "mcall" and e[2] in ("clone", "into", "to_owned") and not e[4]:
            e = e[1]
        elif e[0] == "try":
            e = e[1]
        else:
            break
    return e


def _ident(e):
    e = _strip_value(e)
    if is_node(e) and e[0] == "path" and re.fullmatch(r"[A-Za-z_]\w*", e[1] or ""):
        return e[1]
    return None


def _stmts_of(body):
    return body if isinstance(body, list) and (not body or not isinstance(body[0], str)) else [["expr", body, False]]


def encoded_len_helpers(items):
    """private helpers whose result is the re-serialised byte length of one of their parameters:
           fn h(x: &E, ..) -> N { let mut tmp = <fresh Vec>; x.write_le(&mut tmp); tmp.len() [as N] }
    in any spelling (the length bound to a local first, `return`, casts, a method with `self` as the measured value).
    Returns {fn name: index of the measured parameter} (for methods the receiver is parameter 0)."""
    out = {}
    for it in items:
        if it["k"] not in ("fn", "method") or not it.get("body") or not it.get("sig"):
            continue
        if it["k"] == "method" and it.get("trait"):
            continue
        params = []
        for pat, _ty in it["sig"].get("inputs", []):
            if is_node(pat) and pat[0] == "pident":
                params.append(pat[1])
            elif isinstance(pat, str):
                params.append(pat)
            else:
                params.append(None)
        if it["k"] == "method" and (not params or params[0] != "self"):
            if "self" in render(it["body"]):
                params = ["self"] + params
        stmts = _stmts_of(it["body"])
        if not (2 <= len(stmts) <= 6):
            continue
        fresh, wrote, lens = set(), {}, {}
        ok = True
        tail = None
        for st in stmts:
            if st[0] == "let" and is_node(st[1]) and st[1][0] == "pident" and st[2] is not None:
                init = _strip_value(st[2])
                if is_node(init) and (init[0] == "call" and re.search(r"(^|::)(Vec(::<[^>]*>)?::(new|with_capacity)|Vec::new)$", path_of(init[1]) or "") or init[0] == "macro" and str(init[1]).endswith("vec")):
                    fresh.add(st[1][1])
                    continue
                if is_node(init) and init[0] == "mcall" and init[2] == "len" and _ident(init[1]) in fresh:
                    lens[st[1][1]] = _ident(init[1])
                    continue
                ok = False
            elif st[0] == "expr":
                e = st[1]
                if is_node(e) and e[0] == "mcall" and e[2] == "write_le" and len(e[4]) == 1 and _ident(e[4][0]) in fresh and _ident(e[1]) in params and st[2]:
                    wrote[_ident(e[4][0])] = params.index(_ident(e[1]))
                    continue
                if is_node(e) and e[0] == "return":
                    e = e[1]
                tail = e
            else:
                ok = False
        if not ok or tail is None or len(wrote) != 1:
            continue
        t = _strip_value(tail)
        tmp = None
        if is_node(t) and t[0] == "mcall" and t[2] == "len" and not t[4]:
            tmp = _ident(t[1])
        elif _ident(t) in lens:
            tmp = lens[_ident(t)]
        if tmp in wrote:
            out[it["name"]] = wrote[tmp]
    return out


def _callee_name(pathexpr):
    """last segment of a call path without turbofish: `a::b::f::<T>` -> `f`"""
    p = path_of(pathexpr) or ""
    p = re.sub(r"::<[^()]*>$", "", p)
    p = re.sub(r"<.*$", "", p)
    return p.split("::")[-1]


def _measures(e, var, wrote, helpers, named):
    """does expression e contain the re-serialised length of `var`: `TMP.len()` after `var.write_le(&mut TMP)`, `helper(&var)` /
    `var.helper()` for an encoded-length helper, or a local that was bound to one of these"""
    for n in walk(e):
        if n[0] == "mcall" and n[2] == "len" and not n[4] and _ident(n[1]) in wrote:
            return True
        if n[0] == "call":
            h = _callee_name(n[1])
            if h in helpers and helpers[h] < len(n[2]) and _ident(n[2][helpers[h]]) == var:
                return True
        if n[0] == "mcall" and n[2] in helpers and helpers[n[2]] == 0 and _ident(n[1]) == var:
            return True
        if n[0] == "path" and n[1] in named:
            return True
    return False


def nested_decode_sites(body, helpers=None):
    """for every `let V = T::from_le(&buf[P..])`: how the cursor is advanced afterwards.
    yields dict(var, callee, pos, verdict, detail)"""
    helpers = helpers or {}
    for stmts, in_loop in _stmts_blocks(body):
        for i, st in enumerate(stmts):
            if st[0] != "let" or st[2] is None or st[1][0] != "pident":
                continue
            d = _is_slice_decode(st[2])
            if not d:
                continue
            var = st[1][1]
            callee, pos = d
            wrote = set()
            named = set()          # locals bound to the encoded length of `var`
            verdict, detail = None, ""
            for st2 in stmts[i + 1:]:
                # V.write_le(&mut TMP)
                for m in walk(st2):
                    if m[0] == "mcall" and m[2] == "write_le" and render(m[1]) == var and m[4]:
                        wrote.add(render(m[4][0]).replace("&mut ", "").strip())
                sp = [m for m in walk(st2) if m[0] == "mcall" and m[2] == "set_position" and m[4]]
                if sp:
                    e = render(sp[0][4][0])
                    core_pos = re.sub(r"\s+as\s+\w+|[()\s]", "", pos)
                    if _measures(sp[0][4][0], var, wrote, helpers, named) and core_pos in re.sub(r"\s+as\s+\w+|[()\s]", "", e):
                        verdict, detail = "ok", e
                    else:
                        verdict, detail = "bad-advance", e
                    break
                if st2[0] == "let" and st2[2] is not None and is_node(st2[1]) and st2[1][0] == "pident" and _measures(st2[2], var, wrote, helpers, named) \
                        and not _reads(st2):
                    named.add(st2[1][1])
                    continue
                if _reads(st2):
                    verdict, detail = "no-advance", render(st2[2] if st2[0] == "let" else st2[1])[:80]
                    break
            if verdict is None:
                verdict = "no-advance-loop" if in_loop else "last"
            yield {"var": var, "callee": callee, "pos": pos, "verdict": verdict, "detail": detail}


def _atom(n, kind):
    if n[0] == "mcall":
        w = re.match(r"%s_(u8|u16|u32|u64|i8|i16|i32|i64|f32|f64)$" % kind, n[2])
        if w:
            return w.group(1)
        if kind == "write" and n[2] == "write_le":
            return "nested"
    if kind == "read" and _is_slice_decode(n):
        return "nested"
    return None


def io_paths(node, kind, cap=64):
    """set of field sequences over all branches of node; loops appear as ('loop', frozenset(paths of the body))"""
    def seq(nodes):
        acc = {()}
        for x in nodes:
            nxt = paths(x)
            acc = {a + b for a in acc for b in nxt}
            if len(acc) > cap:
                raise ValueError("too many paths")
        return acc

    def paths(n):
        if not is_node(n):
            if isinstance(n, list):
                return seq([x for x in n if isinstance(x, list)])
            return {()}
        t = n[0]
        if t == "let":
            return seq([n[2]] + ([n[3]] if len(n) > 3 and n[3] is not None else []))
        if t == "expr":
            return paths(n[1])
        if t == "if":
            c = paths(n[1])
            th = seq(n[2])
            el = paths(n[3]) if n[3] is not None else {()}
            return {a + b for a in c for b in (th | el)}
        if t == "match":
            c = paths(n[1])
            arms = set()
            for a in n[2]:
                arms |= paths(a[2])
            return {a + b for a in c for b in arms}
        if t == "for":
            it_ = paths(n[2])
            inner = frozenset(seq(n[3]))
            return {a + (("loop", inner),) for a in it_} if inner != frozenset({()}) else it_
        if t in ("while", "loop"):
            inner = frozenset(seq(n[2] if t == "while" else n[1]))
            return {(("loop", inner),)} if inner != frozenset({()}) else {()}
        if t in ("block", "unsafe"):
            return seq(n[1])
        if t == "closure":
            return paths(n[2])
        a = _atom(n, kind)
        kids = []
        if t == "mcall":
            kids = [n[1]] + list(n[4])
        elif t == "call":
            kids = list(n[2]) if a is None else []
        else:
            kids = [x for x in n[1:] if isinstance(x, list)]
        base = seq(kids)
        if a is not None:
            return {b + (a,) for b in base}
        return base
    return paths(node)


def show_paths(ps):
    def one(p):
        return "[" + ", ".join(x if isinstance(x, str) else "loop{" + show_paths(x[1]) + "}" for x in p) + "]"
    return " | ".join(sorted(one(p) for p in ps))


def kind_writer_table(it):
    """ValueKind::write_le -> {variant: (tag, [width/nested ...])}"""
    out = {}
    for m in find(it["body"], "match"):
        for a in m[2]:
            pats = a[0][1] if a[0][0] == "por" else [a[0]]
            for p in pats:
                mm = re.match(r"ValueKind::(\w+)", render_pat(p))
                if not mm:
                    continue
                seq = []
                for n in walk(a[2]):
                    if n[0] == "mcall":
                        w = re.match(r"write_(u8|u16|u32|u64|i8|i16|i32|i64|f32|f64)$", n[2])
                        if w:
                            seq.append((w.group(1), render(n[4][0]) if n[4] else ""))
                        elif n[2] == "write_le":
                            seq.append(("nested", render(n[1])))
                if seq and seq[0][0] == "u8" and re.match(r"^\d+$", seq[0][1]):
                    ps = io_paths(a[2], "write")
                    if all(p and p[0] == "u8" for p in ps):
                        ps = {p[1:] for p in ps}
                    out[mm.group(1)] = (int(seq[0][1]), ps)
        if out:
            return out
    return out


def kind_reader_table(it):
    """ValueKind::from_le -> {tag: (variant, [width/nested ...])}"""
    out = {}
    for m in find(it["body"], "match"):
        for a in m[2]:
            p = a[0]
            if p[0] != "plit":
                continue
            tag = render(p[1])
            if not re.match(r"^\d+$", tag):
                continue
            variants = [re.match(r"ValueKind::(\w+)", x[1]).group(1) for x in walk(a[2]) if x[0] == "path" and re.match(r"ValueKind::(\w+)$", x[1]) and not x[1].endswith("from_le")]
            seq = []
            for n in walk(a[2]):
                if n[0] == "mcall":
                    w = re.match(r"read_(u8|u16|u32|u64|i8|i16|i32|i64|f32|f64)$", n[2])
                    if w:
                        seq.append(w.group(1))
                if _is_slice_decode(n):
                    seq.append("nested")
            out[int(tag)] = (variants[-1] if variants else None, io_paths(a[2], "read"))
        if out:
            return out
    return out


def run(F, rep, core):
    meths = {}
    for it in core:
        if it["k"] == "method" and it["name"] in ("write_le", "from_le") and it["trait"] and last_seg(it["trait"]) == "ConstElem":
            meths[(X.type_head(it["self"]), it["name"])] = it

    # ---------- R9 cursor discipline of nested decodes
    rep.rule("C06-R9", "constant decoders: after decoding a nested variable-length item from `&buf[P..]` the cursor is advanced by that item's encoded "
                       "length (the length of its re-serialisation), before anything else is read")
    n9 = 0
    helpers = encoded_len_helpers(core)
    if helpers:
        rep.note("C06-R9 encoded-length helpers (a call of one is the re-serialised length of its argument)", sorted(helpers))
    # a decode loop that several decoders share through a private helper is one site per calling decoder (the floor counts mechanisms, not copies)
    callers = {}
    free_fns = {it["name"] for it in core if it["k"] == "fn"}
    for it in core:
        if it["k"] not in ("method", "fn") or it.get("body") is None:
            continue
        me = ("%s::%s" % (X.type_head(it["self"]), it["name"])) if it["k"] == "method" else it["name"]
        for c in find(it["body"], "call"):
            h = _callee_name(c[1])
            if h in free_fns and h != it["name"]:
                callers.setdefault(h, set()).add(me)
    for it in core:
        if it["k"] not in ("method", "fn") or it.get("body") is None:
            continue
        owner = ("%s::%s" % (X.type_head(it["self"]), it["name"])) if it["k"] == "method" else it["name"]
        per = {}
        shared = sorted(callers.get(it["name"], ())) if it["k"] == "fn" else []
        for s in nested_decode_sites(it["body"], helpers):
            n9 += max(1, len(shared))
            k = "%s:%s<-%s" % (owner, s["var"], last_seg(s["callee"].rsplit("::", 1)[0]) if "::" in s["callee"] else s["callee"])
            per[k] = per.get(k, 0) + 1
            if per[k] > 1:
                k += "#%d" % per[k]
            # one obligation per decoder that reaches the site (the site itself is judged once, below)
            for c in shared[1:]:
                if s["verdict"] in ("ok", "last"):
                    rep.ok("C06-R9", "%s>%s" % (c, k))
            ok = s["verdict"] in ("ok", "last")
            msg = {"bad-advance": "advances the cursor by `%s`, which is not the encoded length of `%s` (no `%s.write_le(&mut tmp); tmp.len()`, directly or through a helper that does exactly that): every later field is read from the wrong offset when the item is not exactly that long" % (s["detail"], s["var"], s["var"]),
                   "no-advance": "reads on (`%s`) without advancing the cursor past `%s`" % (s["detail"], s["var"]),
                   "no-advance-loop": "decodes `%s` inside a loop without advancing the cursor: every iteration decodes the same bytes" % s["var"]}.get(s["verdict"], "")
            rep.check(ok, "C06-R9", k, "%s decodes `%s` with %s at offset %s and %s" % (owner, s["var"], s["callee"], s["pos"], msg),
                      "%s (mech_core.lib)" % owner, sample={"decoder": owner, "item": s["var"], "callee": s["callee"], "advance": s["detail"], "verdict": s["verdict"]})
    rep.floor("C06-R9", "nested decode sites", n9, 16)

    # ---------- R10 ValueKind tag tables
    rep.rule("C06-R10", "ValueKind codec: every variant the writer can emit has a reader arm for its tag that rebuilds the same variant from the same field layout")
    wk, rk = meths.get(("ValueKind", "write_le")), meths.get(("ValueKind", "from_le"))
    if rep.check(wk is not None and rk is not None, "C06-R10", "anchor", "ValueKind ConstElem::write_le / from_le not found"):
        wt, rt = kind_writer_table(wk), kind_reader_table(rk)
        rep.floor("C06-R10", "ValueKind variants with a written tag", len(wt), 25)
        rep.floor("C06-R10", "ValueKind reader arms", len(rt), 20)
        seen_tags = {}
        for v, (tag, seq) in sorted(wt.items(), key=lambda kv: kv[1][0]):
            if tag in seen_tags:
                rep.bad("C06-R10", "tag-collision:%d" % tag, "ValueKind::%s and ValueKind::%s are both written with tag %d" % (seen_tags[tag], v, tag))
            seen_tags[tag] = v
            if tag not in rt and v not in READER_REQUIRED:
                rep.note("writer_variants_without_reader_arm(latent: no emitted constant carries such a kind today)", "%s(tag %d)" % (v, tag))
                continue
            if tag not in rt:
                rep.bad("C06-R10", "no-reader:%s" % v, "ValueKind::%s is written with tag %d but ValueKind::from_le has no arm for %d (falls to unimplemented!): a constant of that kind panics the loader in run_program" % (v, tag, tag),
                        "ValueKind::from_le (mech_core.lib)")
                continue
            rv, rseq = rt[tag]
            rep.check(rv == v, "C06-R10", "variant:%s" % v, "tag %d is written for ValueKind::%s but decoded as ValueKind::%s" % (tag, v, rv), "ValueKind::from_le (mech_core.lib)",
                      sample={"variant": v, "tag": tag})
            rep.check(seq == rseq, "C06-R10", "layout:%s" % v,
                      "ValueKind::%s: over its branches the writer emits the field sequences %s after the tag, the reader consumes %s" % (v, show_paths(seq), show_paths(rseq)),
                      "ValueKind::from_le (mech_core.lib)", sample={"variant": v, "fields": show_paths(seq)})

    # ---------- R11 Value payload codec: variants written vs kinds read
    rep.rule("C06-R11", "Value codec: every Value variant whose payload Value::write_le emits is rebuilt by Value::from_le (an arm for its kind constructing the same variant)")
    wv, rv_ = meths.get(("Value", "write_le")), meths.get(("Value", "from_le"))
    if rep.check(wv is not None and rv_ is not None, "C06-R11", "anchor", "Value ConstElem::write_le / from_le not found"):
        warms = C.arms_of(wv["body"], "Value")
        rarms = {}
        for m in find(rv_["body"], "match"):
            for a in m[2]:
                mm = re.match(r"ValueKind::(\w+)", render_pat(a[0]))
                if mm:
                    built = [re.match(r"Value::(\w+)$", x[1]).group(1) for x in walk(a[2]) if x[0] == "path" and re.match(r"Value::(\w+)$", x[1])]
                    rarms[mm.group(1)] = built[0] if built else None
        rep.floor("C06-R11", "Value::write_le payload arms", len(warms), 15)
        rep.floor("C06-R11", "Value::from_le kind arms", len(rarms), 15)
        KIND_OF = {"EmptyKind": None, "Typed": None}
        for v in sorted(warms):
            body = warms[v][2]
            writes = any(n[0] == "mcall" and n[2] == "write_le" for n in walk(body))
            if v in KIND_OF or not writes:
                continue
            rep.check(rarms.get(v) == v, "C06-R11", "payload:%s" % v,
                      "Value::write_le emits a payload for Value::%s but Value::from_le has %s: a nested constant of that kind (e.g. as a set element) panics the loader" % (
                          v, ("no arm for ValueKind::%s" % v) if v not in rarms else ("an arm that builds Value::%s" % rarms[v])),
                      "Value::from_le (mech_core.lib)", sample={"variant": v})


def compile_errors_propagate(F, rep, core):
    """C06-R14: a value that has no constant encoding makes compile() return an error, not panic"""
    rep.rule("C06-R14", "compile errors propagate: Value::compile_const ends in an Err (not todo!/panic) for the variants it does not encode, and no compile_const result is unwrapped "
                        "in the crates that compile plan steps (`compile_register*` macros use `?`)")
    vc = [it for it in core if it["k"] == "method" and it["name"] == "compile_const" and it["trait"] and last_seg(it["trait"]) == "CompileConst" and X.type_head(it["self"]) == "Value"]
    if rep.check(len(vc) == 1, "C06-R14", "anchor:Value::compile_const", "Value::compile_const not found"):
        wild = []
        outer = next(iter(find(vc[0]["body"], "match")), None)       # pre-order: the outermost match over the Value variants
        for a in (outer[2] if outer else []):
            if a[0][0] in ("pident", "pwild") and a[1] is None:
                wild.append(a)
        rep.floor("C06-R14", "catch-all arms in Value::compile_const", len(wild), 1)
        for a in wild[-1:]:
            txt = render(a[2])
            panics = re.search(r"panicking::|todo!|unimplemented!|unreachable!|panic!", txt) is not None
            rep.check(not panics and "Err(" in txt, "C06-R14", "Value::compile_const:catch-all-is-an-error",
                      "Value::compile_const: the arm for the variants without a constant encoding is `%s`: compiling a program that defines such a value (a kind, a tuple struct, a map ...) panics instead of reporting an error" % txt[:60],
                      "Value::compile_const (mech_core.lib)")
    n = 0
    bad = {}
    for crate in sorted(set(X.FXN_CRATES) | {"mech_core.lib", "mech_interpreter.lib"}):
        for it in F.syn(crate):
            if it["k"] not in ("fn", "method") or not it.get("body"):
                continue
            for m in find(it["body"], "mcall"):
                # compile_const_mat on a typed matrix of primitives cannot hit the unencodable-variant error; only the Value-level entry is judged
                if m[2] in ("unwrap", "expect") and is_node(m[1]) and m[1][0] == "mcall" and m[1][2] in ("compile_const",):
                    n += 1
                    bad.setdefault(crate, 0)
                    bad[crate] += 1
            for m in find(it["body"], "try"):
                if is_node(m[1]) and m[1][0] == "mcall" and m[1][2] in ("compile_const", "compile_const_mat"):
                    n += 1
    for crate, cnt in sorted(bad.items()):
        rep.bad("C06-R14", "unwrapped-compile_const:%s" % crate, "%d compile_const result(s) are unwrapped in %s (through the compile_register* macros): an unencodable operand panics Interpreter::compile" % (cnt, crate), crate)
    if not bad:
        rep.ok("C06-R14", "compile_const-results-propagated", sample={"sites": n})
    rep.floor("C06-R14", "compile_const call sites whose result is propagated or unwrapped", n, 1000)


def discriminant_tables(F, rep, core, rid="C06-R15"):
    """C06-R15 (also run as C07-R10 by rules/c07.py): `from_uN(n) => Some(E::V)` tables invert the enum's discriminants (the writers emit `E::V as uN`)"""
    rep.rule(rid, "tag decoders invert the discriminants: for every repr(uN) enum with a from_u8/from_u16 decoder, `n => E::V` holds exactly when V's discriminant is n "
                        "(the writers emit `V as uN`; a swapped pair decodes one type as the other with no size or alignment error)")
    from lib.minieval import ev, NoEval
    enums = {}
    for it in core:
        if it["k"] == "enum" and any(a.startswith("repr(u") for a in it.get("attrs", [])):
            disc = {}
            cur = -1
            okd = True
            for v in it["variants"]:
                if v.get("disc") is not None:
                    try:
                        cur = ev(v["disc"], {})
                    except NoEval:
                        okd = False
                        break
                else:
                    cur += 1
                disc[v["name"]] = cur
            if okd:
                enums[it["name"]] = disc
    n = 0
    for it in core:
        if it["k"] != "method" or not re.match(r"^from_u(8|16|32)$", it["name"]) or not it.get("body"):
            continue
        en = X.type_head(it["self"])
        if en not in enums:
            continue
        for m in find(it["body"], "match"):
            for a in m[2]:
                if a[0][0] != "plit":
                    continue
                try:
                    tag = int(re.sub(r"[^0-9xXa-fA-F]", "", render(a[0][1])), 0)
                except ValueError:
                    try:
                        tag = ev(a[0][1], {})
                    except NoEval:
                        continue
                vs = [re.match(r"^%s::(\w+)$" % en, x[1]).group(1) for x in walk(a[2]) if x[0] == "path" and re.match(r"^%s::(\w+)$" % en, x[1])]
                if len(vs) != 1:
                    continue
                n += 1
                want = enums[en].get(vs[0])
                rep.check(want == tag, rid, "%s::%s:%s" % (en, it["name"], vs[0]),
                          "%s::%s maps %d to %s::%s, whose discriminant (what the writer emits) is %s: a value written with one tag is decoded as another type" % (en, it["name"], tag, en, vs[0], want),
                          "%s::%s (mech_core.lib)" % (en, it["name"]), sample={"enum": en, "variant": vs[0], "tag": tag})
        # completeness: a variant without a reader arm cannot be decoded at all (its tag falls into the catch-all)
        seen_v = set()
        for m in find(it["body"], "match"):
            for a in m[2]:
                for x in walk(a[2]):
                    if x[0] == "path" and re.match(r"^%s::(\w+)$" % en, x[1]):
                        seen_v.add(x[1].split("::")[-1])
        for v in sorted(set(enums[en]) - seen_v):
            rep.check(False, rid, "%s::%s:%s:no-reader-arm" % (en, it["name"], v),
                      "%s::%s has no arm producing %s::%s (discriminant %s): a value the writers tag with it is rejected or decoded as something else" % (en, it["name"], en, v, enums[en][v]),
                      "%s::%s (mech_core.lib)" % (en, it["name"]))
    rep.floor(rid, "tag decoder arms compared with discriminants", n, 50)


def panicking_kind_ladders(F, rep, core):
    """C06-R16: a kind ladder over Value::Matrix* / Value::<scalar> whose catch-all panics covers every element kind the Value enum has"""
    rep.rule("C06-R16", "kind ladders with a panicking catch-all are total: a `match` over Value::Matrix<K> (or Value::<K>) patterns whose wildcard arm panics names every element kind K "
                        "for which the Value enum has that variant (a kind the ladder forgets aborts compile()/run_program for programs the interpreter evaluates)")
    value = [it for it in core if it["k"] == "enum" and it["name"] == "Value"]
    if not rep.check(len(value) == 1, "C06-R16", "anchor:enum-Value", "enum Value not found"):
        return
    names = {v["name"] for v in value[0]["variants"]}
    ELEM = {"U8", "U16", "U32", "U64", "U128", "I8", "I16", "I32", "I64", "I128", "F32", "F64", "R64", "C64", "Bool", "String"}
    ref_m = {k for k in ELEM if "Matrix" + k in names}
    ref_s = {k for k in ELEM if k in names}
    rep.floor("C06-R16", "element kinds with a Value::Matrix variant", len(ref_m), 14)
    n = n_panic = 0
    for c in ("mech_core.lib", "mech_interpreter.lib"):
        for it in F.syn(c):
            if it["k"] not in ("fn", "method") or not it.get("body"):
                continue
            for m in find(it["body"], "match"):
                mk, sk, wild = set(), set(), None
                for a in m[2]:
                    txt = render_pat(a[0])
                    mk |= set(re.findall(r"Value::Matrix(\w+)\(", txt))
                    sk |= set(re.findall(r"Value::(\w+)\(", txt)) & ELEM
                    if a[0][0] == "pwild":
                        wild = a[2]
                if wild is None:
                    continue
                for label, ks, ref in (("matrix", mk & ELEM, ref_m), ("scalar", sk, ref_s)):
                    if len(ks) < 8:
                        continue
                    n += 1
                    panics = any(x[0] == "macro" and re.search(r"(^|::)(panic|unreachable|todo|unimplemented|panic_fmt)$", x[1]) for x in walk(wild)) or \
                        any(x[0] == "call" and re.search(r"panic", path_of(x[1]) or "") for x in walk(wild))
                    if not panics:
                        continue
                    n_panic += 1
                    miss = sorted(ref - ks)
                    fn = "%s::%s" % (it.get("self") or it.get("mod") or "", it["name"])
                    rep.check(not miss, "C06-R16", "%s:%s" % (fn, label) if not miss else "%s:%s:missing:%s" % (fn, label, ",".join(miss)),
                              "%s matches %d %s kinds and panics for anything else, but has no arm for %s: a value of that kind reaching it aborts the process instead of computing what the interpreter computed" % (
                                  fn, len(ks), label, miss), "%s (%s)" % (fn, c), sample={"fn": fn, "kinds": sorted(ks)})
    rep.floor("C06-R16", "kind ladders with a wildcard arm examined", n, 20)
    rep.floor("C06-R16", "kind ladders whose wildcard panics", n_panic, 1)
