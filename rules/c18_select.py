"""C18-R6: table row selection decided on a finite table of inputs.

Clause: "Selecting table rows by index, index vector or logical mask returns exactly those rows in order."

What is decided.  A row-selection kernel is a function struct with (by declared TYPE, never by name) one `Ref<MechTable>` source, one index operand
`Ref<usize>` / `Ref<Vec-like<usize>>` / `Ref<Vec-like<bool>>` and the result cell its `out()` hands back.  Its result is produced by TWO cooperating pieces of code: the
arm of the compiler function that allocates the result (`empty_table(n)`, `get_record(ix)`) and constructs the struct, and `solve()`, which fills it (and, for a
mask, shrinks every column and the row count to the number of selected rows).  Neither is correct alone, so the rule evaluates them TOGETHER: for every
construction site of such a struct, the enclosing compiler function is evaluated (lib/tabsim.py: the compiler's own expansion of the bodies, over a closed model of
cells, vectors, ordered maps, enum values and structs; helpers such as `empty_table` are evaluated from their own bodies) on every table of 0..3 rows and every
index / index vector (length 0..3, repeats included) / mask over it, then `solve()` and `out()` of the struct it built; the model result must have exactly the
selected rows, in order, in every column, a row count equal to their number, the source's columns, kinds and names, and must leave the source untouched.

A fast path, an early exit, a skipped column, a count taken from the wrong vector, a wrong allocation - every slip that changes the result for SOME table of at
most three rows - is reported with the failing input.  A body that leaves the model (`NoEval`) is recorded as `undecided`; nothing is raised for it.
"""
import itertools
import re
from lib.facts import find, is_node, walk
from lib import tabsim as T

RULE = "C18-R6"
TEXT = ("row selection, allocation and kernel together: for every construction site of a table row-selection kernel (struct with a Ref<MechTable> source, an index operand of type "
        "usize / vector of usize / vector of bool, and a result cell), the compiler function that allocates the result, then solve() and out(), evaluated over a closed model of "
        "the containers on every table of 0..3 rows and every index, index vector (length 0..3) and mask over it, yield exactly the selected rows in order, in every column, "
        "with a row count equal to their number and the source's columns, kinds and names (finite table; larger inputs and the cell values themselves are not decided)")


def _ty(s):
    """a type as written, without blanks and without module paths (`mech_core::Ref<na::DVector<usize>>` == `Ref<DVector<usize>>`)"""
    return re.sub(r"\b(?:[A-Za-z_]\w*::)+", "", (s or "").replace(" ", ""))


def _self_fields_read(body):
    return {x[2] for x in find(body, "field") if is_node(x[1]) and x[1][0] == "path" and x[1][1] == "self"}


def selection_kernels(items):
    """{struct name: {"source","ix","out","form","result"}} - by field TYPES and by which field out() returns"""
    methods = {}
    for it in items:
        if it.get("k") == "method" and it.get("body") is not None and "MechFunctionImpl" in (it.get("trait") or ""):
            methods.setdefault(re.sub(r"<.*$", "", _ty(it.get("self"))), {})[it["name"]] = it
    out = {}
    for it in items:
        if it.get("k") != "struct" or it["name"] not in methods:
            continue
        ms = methods[it["name"]]
        if "solve" not in ms or "out" not in ms:
            continue
        fields = [(f[0], _ty(f[1])) for f in it.get("fields") or [] if f[0]]
        outs = [f for f, _ in fields if f in _self_fields_read(ms["out"]["body"])]
        tabs = [f for f, ty in fields if ty == "Ref<MechTable>" and f not in outs]
        ixs = [(f, ty) for f, ty in fields if re.match(r"^Ref<(usize|\w+<(usize|bool)>)>$", ty) and f not in outs]
        if len(outs) != 1 or len(tabs) != 1 or len(ixs) != 1:
            continue            # (further fields - a cached count, a flag - do not change what the struct is)
        oty = dict(fields)[outs[0]]
        if oty not in ("Ref<MechTable>", "Ref<MechRecord>"):
            continue
        ity = ixs[0][1]
        form = "scalar" if ity == "Ref<usize>" else "mask" if ity.endswith("<bool>>") else "index-vector"
        out[it["name"]] = {"source": tabs[0], "ix": ixs[0][0], "out": outs[0], "form": form, "result": "table" if oty == "Ref<MechTable>" else "record"}
    return out


def value_model(core_items):
    """the variants of the Value / Matrix enums that carry a table, a mutable reference, an index, an index vector, a mask - found by their payload TYPE"""
    vm = {}
    for it in core_items:
        if it.get("k") != "enum":
            continue
        if it["name"] == "Value":
            for v in it["variants"]:
                tys = [_ty(f[1]) for f in v["fields"]]
                if len(tys) != 1:
                    continue
                role = {"Ref<MechTable>": "table", "Ref<MechRecord>": "record", "Ref<usize>": "scalar", "Matrix<usize>": "index-vector", "Matrix<bool>": "mask",
                        "MutableReference": "mutref", "Ref<Value>": "mutref"}.get(tys[0])
                if role and role not in vm:
                    vm[role] = "Value::" + v["name"]
        if it["name"] == "Matrix":
            for v in it["variants"]:
                tys = [_ty(f[1]) for f in v["fields"]]
                if tys == ["Ref<DVector<T>>"]:
                    vm["dvector"] = "Matrix::" + v["name"]
    return vm


# ---------------------------------------------------------------- the finite table of inputs
COLS = [("a", 11, T.Enum("ValueKind::U64")), ("b", 22, T.Enum("ValueKind::Option", [T.Enum("ValueKind::String")]))]
KEYS = {n: k for n, k, _ in COLS}


def cell(name, row):
    return T.Enum("Value::Cell", [name, row])


def make_table(vm, nrows):
    data = T.IMap()
    names = T.IMap()
    for name, key, kind in COLS:
        col = T.Enum(vm["dvector"], [T.Cell(T.Vec([cell(name, r) for r in range(1, nrows + 1)]))])
        data.d[T.hkey(key)] = (key, (T.clone(kind), col))
        names.d[T.hkey(key)] = (key, name)
    return T.Struct("MechTable", {"rows": nrows, "cols": len(COLS), "data": data, "col_names": names})


def selections(form, nrows):
    """[(model index value builder, selected rows 1-based, description)]"""
    out = []
    if form == "scalar":
        for i in range(1, nrows + 1):
            out.append((i, [i], "index %d" % i))
    elif form == "index-vector":
        for ln in range(0, 4):
            for seq in itertools.product(range(1, nrows + 1), repeat=ln):
                out.append((list(seq), list(seq), "index vector [%s]" % ",".join(map(str, seq))))
    else:
        for bits in itertools.product([False, True], repeat=nrows):
            out.append((list(bits), [i + 1 for i, b in enumerate(bits) if b], "mask [%s]" % ",".join("true" if b else "false" for b in bits)))
    return out


def index_value(vm, form, raw):
    if form == "scalar":
        return T.Enum(vm["scalar"], [T.Cell(raw)])
    return T.Enum(vm[form], [T.Enum(vm["dvector"], [T.Cell(T.Vec(raw))])])


def show_col(vec):
    def one(x):
        x = T.D(x)
        if isinstance(x, T.Enum) and x.name == "Value::Cell":
            return "%s%d" % (x.args[0], x.args[1])
        if isinstance(x, T.Enum) and T.vseg(x.name, 1) == "Empty":
            return "_"
        return repr(x)
    return "[%s]" % ",".join(one(x) for x in vec)


def compare_table(src_before, src_after, sel, res):
    """-> (aspect, text) of the first difference between the model result table and the selected rows, or None"""
    if not isinstance(res, T.Struct) or not {"rows", "cols", "data", "col_names"} <= set(res.f):
        return "result", "the result is not a table (%r)" % (res,)
    k = len(sel)
    data = T.D(res.f["data"])
    cols = []
    for key, (kind, col) in [(kk, T.D(v)) for kk, v in data.d.values()]:
        if not T.is_matrix(T.D(col)):
            return "columns", "column %s is not a vector column" % key
        cols.append((key, kind, T.D(T.D(col).args[0]).v.items))
    want_keys = [key for _, key, _ in COLS]
    shown = "; ".join("%s=%s" % (dict((kk, nn) for nn, kk, _ in COLS).get(key, key), show_col(items)) for key, _, items in cols)
    if T.D(res.f["rows"]) != k:
        return "row-count", "rows = %r with columns %s; exactly %d row%s selected" % (T.D(res.f["rows"]), shown, k, " is" if k == 1 else "s are")
    if [c[0] for c in cols] != want_keys or T.D(res.f["cols"]) != len(COLS):
        return "columns", "columns %s (cols = %r); the source has %s" % ([c[0] for c in cols], T.D(res.f["cols"]), want_keys)
    for (name, key, kind), (_, rkind, items) in zip(COLS, cols):
        if len(items) != k:
            return "column-length", "column `%s` holds %d elements %s; exactly %d row%s selected" % (name, len(items), show_col(items), k, " is" if k == 1 else "s are")
        if not T.eq(T.Vec(items), T.Vec([cell(name, r) for r in sel])):
            return "rows", "column `%s` = %s; the selected rows are %s" % (name, show_col(items), show_col([cell(name, r) for r in sel]))
        if not T.eq(rkind, kind):
            return "kinds", "column `%s` has kind %r; the source column has %r" % (name, rkind, kind)
    names = T.D(res.f["col_names"])
    if not isinstance(names, T.IMap) or {kk: T.D(v) for kk, v in names.d.values()} != {key: name for name, key, _ in COLS}:
        return "names", "column names %r" % (names,)
    if not T.eq(src_before, src_after):
        return "source-modified", "the source table is changed by the selection"
    return None


def compare_record(src_before, src_after, sel, res):
    if not isinstance(res, T.Struct) or "data" not in res.f:
        return "result", "the result is not a record (%r)" % (res,)
    data = T.D(res.f["data"])
    if not isinstance(data, T.IMap):
        return "result", "the record data is not a map"
    got = {kk: T.D(v) for kk, v in data.d.values()}
    want = {key: cell(name, sel[0]) for name, key, _ in COLS}
    if set(got) != set(want) or any(not T.eq(got[k_], want[k_]) for k_ in want):
        return "rows", "record fields %s; row %d is %s" % (sorted((k_, show_col([v])) for k_, v in got.items()), sel[0], sorted((k_, show_col([v])) for k_, v in want.items()))
    if "cols" in res.f and T.D(res.f["cols"]) != len(COLS):
        return "columns", "cols = %r" % (T.D(res.f["cols"]),)
    if not T.eq(src_before, src_after):
        return "source-modified", "the source table is changed by the selection"
    return None


# ---------------------------------------------------------------- sites and entries
def _vec_value_params(it):
    ins = [p for p in it["sig"]["inputs"] if not (p and p[0] == "self")]
    return len(ins) == 1 and re.match(r"^&(mut)?(Vec<Value>|\[Value\])$", _ty(ins[0][1])) is not None


def construction_sites(items, kernels):
    """[(containing item, struct-literal node, kernel name)]"""
    out = []
    for it in items:
        if it.get("k") not in ("fn", "method") or it.get("body") is None:
            continue
        for s_ in find(it["body"], "struct"):
            n = re.sub(r"<.*$", "", _ty(s_[1])).split("::")[-1]
            if n in kernels:
                out.append((it, s_, n))
    return out


def _calls_item(body, holder, n_same_name):
    """does this body call the item `holder`?  A free function by its name (optionally module-qualified), an associated function / method by `Type::name` with the
    holder's own self type, a method in receiver syntax only when its name is unique in the crate"""
    hself = re.sub(r"<.*$", "", _ty(holder.get("self")))
    for c in find(body, "call"):
        if not (is_node(c[1]) and c[1][0] == "path"):
            continue
        segs = [re.sub(r"<.*$", "", x) for x in c[1][1].replace(" ", "").split("::") if x]
        if not segs or segs[-1] != holder["name"]:
            continue
        if holder.get("k") == "fn" and (len(segs) == 1 or segs[-2][:1].islower()):
            return True
        if holder.get("k") == "method" and len(segs) >= 2 and segs[-2] == hself:
            return True
    if holder.get("k") == "method" and n_same_name == 1 and any(p and p[0] == "self" for p in holder["sig"]["inputs"]):
        return any(c[2] == holder["name"] for c in find(body, "mcall"))
    return False


def entries_of(items, holder, depth=0):
    """the function(s) taking the argument vector from which the holder of a construction site is reached (the holder itself, or its callers up to two levels)"""
    if _vec_value_params(holder):
        return [holder]
    if depth >= 2:
        return []
    out = []
    n_same = len([x for x in items if x.get("k") in ("fn", "method") and x.get("name") == holder["name"]])
    for it in items:
        if it is holder or it.get("k") not in ("fn", "method") or it.get("body") is None:
            continue
        if holder["name"] in _called_names(items).get(id(it), ()) and _calls_item(it["body"], holder, n_same):
            out += entries_of(items, it, depth + 1)
    return out


_CALLED = {}


def _called_names(items):
    """id(item) -> the last path segments / method names its body calls (a prefilter, computed once per fact list)"""
    if id(items) not in _CALLED:
        d = {}
        for it in items:
            if it.get("k") in ("fn", "method") and it.get("body") is not None:
                names = set()
                for c in walk(it["body"]):
                    if c[0] == "mcall":
                        names.add(c[2])
                    elif c[0] == "call" and is_node(c[1]) and c[1][0] == "path":
                        names.add(re.sub(r"<.*$", "", c[1][1].replace(" ", "").split("::")[-1]))
                d[id(it)] = names
        _CALLED[id(items)] = (d, items)
    return _CALLED[id(items)][0]


def run_r6(F, rep, crate="mech_interpreter.lib", core="mech_core.lib"):
    rep.rule(RULE, TEXT)
    check_selection(F.syn(crate), F.syn(core), rep, crate, core)


def check_selection(items, core_items, rep, crate="unit", core="core"):
    """R6 on the items of the crate that holds the kernels + the items of the crate that defines MechTable / Value (tools/shapes runs it on parsed source variants)"""
    vm = value_model(core_items)
    kernels = selection_kernels(items)
    rep.floor(RULE, "table row-selection kernels (by field types)", len(kernels), 3)
    sites = construction_sites(items, kernels)
    rep.floor(RULE, "construction sites of row-selection kernels", len(sites), 6)
    need = {"table", "mutref", "dvector"} | {k["form"] for k in kernels.values()} | {k["result"] for k in kernels.values()}
    if not rep.check(need <= set(vm), RULE, "anchor:value-model", "the Value / Matrix variants carrying %s were not found by payload type" % sorted(need - set(vm)), core):
        return
    site_ids = {id(s_): (it, n) for it, s_, n in sites}
    entries = []
    for it, s_, n in sites:
        for en in entries_of(items, it):
            if not any(en is x for x in entries):
                entries.append(en)
    reached = {}          # id(site) -> [route key]
    routes = {}           # route key -> {"bad": (aspect, text) | None, "undecided": text | None, "n": runs, "where": ..}
    for en in entries:
        en_self = re.sub(r"<.*$", "", _ty(en.get("self")))
        en_name = "%s::%s" % (en_self, en["name"]) if en_self else en["name"]
        for wrap in ("direct", "mutable-reference"):
            for form in ("scalar", "index-vector", "mask"):
                if form not in vm:
                    continue
                runs = []
                for nrows in range(0, 4):
                    for raw, sel, desc in selections(form, nrows):
                        runs.append(one_run(items, core_items, vm, kernels, site_ids, en, en_self, wrap, form, nrows, raw, sel, desc))
                hit = [r for r in runs if r["site"] is not None]
                if not hit:
                    if any(r["noeval"] for r in runs) and not any(r["kind"] == "rejected" for r in runs):
                        # the compiler function leaves the model before it builds anything for these operand forms: the route is there but not decided
                        rep.note("undecided", {"rule": RULE, "entry": en_name, "wrap": wrap, "form": form, "why": next(r["noeval"] for r in runs if r["noeval"])})
                        if any(k_["form"] == form for k_ in kernels.values()):
                            rep.ok(RULE, "undecided:%s:%s:%s" % (en_name, wrap, form))
                    continue
                kname = hit[0]["kernel"]
                key = "%s:%s:%s" % (kname, wrap, form)
                rt = routes.setdefault(key, {"bad": None, "undecided": None, "n": 0, "where": "%s (%s)" % (en_name, crate), "kernel": kname})
                for r in runs:
                    if r["site"] is not None:
                        reached.setdefault(r["site"], set()).add(key)
                    rt["n"] += 1
                    if r["noeval"] and rt["undecided"] is None:
                        rt["undecided"] = "%s, %s: %s" % (r["input"], r["stage"], r["noeval"])
                    if r["bad"] and rt["bad"] is None:
                        rt["bad"] = r["bad"] + (r["input"], r["stage"])
                    if r["site"] is None and r["kind"] in ("rejected", "panics") and rt["bad"] is None:
                        # the same operand forms reach the kernel for other inputs: this valid selection is refused
                        rt["bad"] = ("rejected" if r["kind"] == "rejected" else "panics",
                                     "the selection is %s although the same operand forms are accepted for other rows" % ("rejected with an error" if r["kind"] == "rejected" else "aborted by a panic"),
                                     r["input"], "compile")
    for key, rt in sorted(routes.items()):
        if rt["bad"]:
            aspect, text, inp, stage = rt["bad"]
            rep.bad(RULE, "%s:%s" % (key, aspect),
                    "%s (%s) does not return exactly the selected rows: for %s, %s: %s" % (rt["kernel"], key.split(":", 1)[1].replace(":", " table operand, "), inp, stage, text), rt["where"])
        elif rt["undecided"]:
            rep.note("undecided", {"rule": RULE, "route": key, "why": rt["undecided"]})
            rep.ok(RULE, key)
        else:
            rep.ok(RULE, key, sample={"route": key, "inputs evaluated": rt["n"]})
    for it, s_, n in sites:
        if id(s_) not in reached:
            rep.note("undecided", {"rule": RULE, "site": "%s in %s" % (n, it["name"]), "why": "construction site not reached by the modelled argument forms"})
    rep.analysed = dict(rep.analysed or {}, selection={"kernels": {k: v["form"] for k, v in kernels.items()}, "sites": len(sites), "routes": {k: v["n"] for k, v in routes.items()}})


def one_run(items, core_items, vm, kernels, site_ids, en, en_self, wrap, form, nrows, raw, sel, desc):
    """evaluate compiler function -> solve -> out on one input; -> {"site", "kernel", "bad", "noeval", "kind", "input", "stage"}"""
    M = T.Machine([items, core_items], prims={"hash_str": lambda s_: KEYS.get(s_, 900000 + sum(ord(c) * (i + 1) for i, c in enumerate(str(s_))))})
    src = make_table(vm, nrows)
    before = T.clone(src)
    src_cell = T.Cell(src)
    tv = T.Enum(vm["table"], [src_cell])
    if wrap == "mutable-reference":
        tv = T.Enum(vm["mutref"], [T.Cell(tv)])
    iv = index_value(vm, form, list(raw) if isinstance(raw, list) else raw)
    out = {"site": None, "kernel": None, "bad": None, "noeval": None, "kind": None, "input": "a %d-row table and %s" % (nrows, desc), "stage": "compile"}

    def site_hit():
        for h in reversed(M.struct_hits):
            if h in site_ids:
                return h
        return None
    try:
        res = T.D(M.call_item(en, T.Struct(en_self or "Self", {}), [T.Vec([tv, iv])]))
    except T.NoEval as ex:
        out["noeval"] = str(ex)
        return out
    except T.Panic as ex:
        h = site_hit()
        out["kind"] = "panics"
        if h is not None:
            out["site"], out["kernel"] = h, site_ids[h][1]
        if h is not None:
            out["bad"] = ("panics", "the compiler function panics (%s)" % ex)
        return out
    except (T._Break, T._Continue):
        out["noeval"] = "break outside a loop"
        return out
    h = site_hit()
    if not (isinstance(res, T.Enum) and T.vseg(res.name, 1) == "Ok" and isinstance(T.D(res.args[0]), T.Struct) and T.D(res.args[0]).name in kernels):
        out["kind"] = "rejected"
        return out
    k = T.D(res.args[0])
    out["kernel"] = k.name
    out["site"] = h
    if kernels[k.name]["form"] != form:
        return out
    try:
        out["stage"] = "solve()"
        solve = M.find_method(k.name, "solve", 0)
        outm = M.find_method(k.name, "out", 0)
        if solve is None or outm is None:
            out["noeval"] = "solve / out not found"
            return out
        M.call_item(solve, k, [])
        out["stage"] = "out()"
        rv = T.D(M.call_item(outm, k, []))
    except T.NoEval as ex:
        out["noeval"] = str(ex)
        return out
    except T.Panic as ex:
        out["bad"] = ("panics", "%s panics (%s)" % (out["stage"], ex))
        return out
    want_variant = vm[kernels[k.name]["result"]]
    if not (isinstance(rv, T.Enum) and T.same_variant(rv.name, want_variant) and len(rv.args) == 1 and isinstance(T.D(rv.args[0]), T.Cell)):
        out["bad"] = ("result", "out() returns %r, not %s of the result cell" % (rv, want_variant))
        return out
    out["stage"] = "after solve()"
    resv = T.D(T.D(rv.args[0]).v)
    cmp_ = compare_table if kernels[k.name]["result"] == "table" else compare_record
    try:
        out["bad"] = cmp_(before, src_cell.v, sel, resv)
    except T.NoEval as ex:
        out["noeval"] = "comparison: %s" % ex
    return out


# ================================================================ C18-R8: the shape-keyed dispatcher against the kind-keyed table compilers
RULE8 = "C18-R8"
TEXT8 = ("row selection, route agreement: the subscript dispatcher chooses the access compiler by the SHAPE of the evaluated index (`match shape[..] { [1,1] => .., [n,1] => .., [1,n] => .. }`), "
         "the table compilers accept by the KIND of the index value; for every shape table found in the code whose compilers lead to a table row-selection kernel, every index value of the "
         "model (a scalar index, an index vector and a mask of 1..3 elements; an index vector only where the dispatcher converts its operand with as_index) is given its shape by "
         "Value::shape(), the arm that shape selects is taken, and the compiler of that arm, evaluated on a table operand, must build the selection of exactly those rows; likewise the arm of a range "
         "subscript, which compiles one compiler whatever the range holds, on the value Vec<usize>::to_value() makes of every contiguous range of rows (finite table; the "
         "evaluation of the subscript expression itself is not part of the model)")


def _struct_compile_calls(node):
    """names of the structs S in `S{..}.compile(..)` below node"""
    out = []
    for c in find(node, "mcall"):
        if c[2] == "compile" and is_node(c[1]) and c[1][0] == "struct":
            out.append(re.sub(r"<.*$", "", _ty(c[1][1])).split("::")[-1])
    return out


def _shape_scrutinee(sc):
    """`x[..]`, `&x[..]`, `x.as_slice()`, `*x` -> (x, "slice");  `(x[0], x[1])` -> (x, "tuple");  else None"""
    while is_node(sc) and (sc[0] == "ref" or (sc[0] == "un" and sc[1] == "*")):
        sc = sc[2]
    if is_node(sc) and sc[0] == "index" and is_node(sc[2]) and sc[2][0] == "range" and sc[2][1] is None and sc[2][2] is None and is_node(sc[1]) and sc[1][0] == "path":
        return sc[1][1], "slice"
    if is_node(sc) and sc[0] == "mcall" and sc[2] in ("as_slice", "as_ref") and not sc[4] and is_node(sc[1]) and sc[1][0] == "path":
        return sc[1][1], "slice"
    if is_node(sc) and sc[0] == "tuple" and len(sc[1]) == 2:
        locs = []
        for k, x in enumerate(sc[1]):
            if is_node(x) and x[0] == "index" and is_node(x[1]) and x[1][0] == "path" and is_node(x[2]) and x[2][0] == "int" and int(x[2][1]) == k:
                locs.append(x[1][1])
        if len(locs) == 2 and locs[0] == locs[1]:
            return locs[0], "tuple"
    return None


def shape_tables(items):
    """[(function item, context, [(arm pattern, [compiler struct])], scrutinee local, lets, form)]: every `match <local>[..]` (or `(l[0], l[1])`) over two-element patterns whose
    arms compile an access struct; context = the variant names of the enclosing match-arm patterns (read from the code)"""
    out = []

    def visit(node, ctx, it, lets):
        if not isinstance(node, list):
            return
        if is_node(node) and node[0] == "let" and node[2] is not None:
            for b in find(node[1], "pident"):
                lets[b[1]] = node[2]
        if is_node(node) and node[0] == "match":
            sc = _shape_scrutinee(node[1])
            if sc is not None:
                want = "pslice" if sc[1] == "slice" else "ptuple"
                arms = [(a[0], _struct_compile_calls(a[2])) for a in node[2] if a[0][0] == want and len(a[0][1]) == 2]
                if arms and any(cs for _, cs in arms):
                    out.append((it, "/".join(ctx), arms, sc[0], dict(lets), sc[1]))
            for a in node[2]:
                names = [x[1] for x in walk(a[0]) if x[0] in ("pts", "ppath", "pstruct")]
                visit(a[2], ctx + ([_ty(names[0])] if names else []), it, lets)
                if a[1] is not None:
                    visit(a[1], ctx, it, lets)
            visit(node[1], ctx, it, lets)
            return
        for x in node:
            if isinstance(x, list):
                visit(x, ctx, it, lets)
    for it in items:
        if it.get("k") in ("fn", "method") and it.get("body") is not None:
            visit(it["body"], [], it, {})
    return out


def _converted_index(items, lets, shape_local):
    """is the value whose shape is matched produced through an `as_index` conversion?  shape_local <- X.shape(); X <- f(..)?; the body of f (one level) calls as_index"""
    init = lets.get(shape_local)
    src = None
    for c in find(init, "mcall") if init is not None else []:
        if c[2] == "shape" and is_node(c[1]) and c[1][0] == "path":
            src = c[1][1]
    init2 = lets.get(src) if src else None
    if init2 is None:
        return None
    if any(c[2] == "as_index" for c in find(init2, "mcall")):
        return True
    for c in find(init2, "call"):
        if is_node(c[1]) and c[1][0] == "path":
            name = c[1][1].replace(" ", "").split("::")[-1]
            for it in items:
                if it.get("k") == "fn" and it.get("name") == name and it.get("body") is not None:
                    if any(m[2] == "as_index" for m in find(it["body"], "mcall")):
                        return True
    return False


def check_routes(items, core_items, rep, crate="unit", core="core"):
    vm = value_model(core_items)
    kernels = selection_kernels(items)
    sites = construction_sites(items, kernels)
    entry_selfs = set()
    for it, s_, n in sites:
        for en in entries_of(items, it):
            if en.get("self"):
                entry_selfs.add(re.sub(r"<.*$", "", _ty(en["self"])))
    # front compilers: argument-vector functions that hand their arguments to one of the table compilers
    front = {}
    for it in items:
        if it.get("k") == "method" and it.get("body") is not None and _vec_value_params(it) and set(_struct_compile_calls(it["body"])) & entry_selfs:
            front[re.sub(r"<.*$", "", _ty(it["self"]))] = it
    tables = [t for t in shape_tables(items) if any(set(cs) & set(front) for _, cs in t[2])]
    # the mechanism: dispatcher functions (not the front compilers themselves) hand the argument vector to the front compilers.  Its presence is the floor; a dispatcher
    # that no longer chooses by shape in a recognised form is `undecided` (a dispatch on the KIND of the index would be a repair, not a loss)
    reached, in_tables = set(), set()
    for it in items:
        if it.get("k") in ("fn", "method") and it.get("body") is not None and re.sub(r"<.*$", "", _ty(it.get("self"))) not in front:
            reached |= set(_struct_compile_calls(it["body"])) & set(front)
    for t in tables:
        for _, cs in t[2]:
            in_tables |= set(cs) & set(front)
    rep.floor(RULE8, "front access compilers (scalar / range) reached from a dispatcher", len(reached), 2)
    if reached - in_tables:
        rep.note("undecided", {"rule": RULE8, "why": "the dispatcher reaches %s outside a shape table of a recognised form" % sorted(reached - in_tables)})
    if not tables or not {"table", "mutref", "dvector", "scalar", "index-vector", "mask"} <= set(vm):
        return
    for it, ctx, arms, shape_local, lets, sform in tables:
        conv = _converted_index(items, lets, shape_local)
        forms = ["mask"] + (["scalar", "index-vector"] if conv else [])
        where = "%s (%s)" % (it["name"], crate)
        for form in forms:
            for extent in ("one-element", "several"):
                if form == "scalar" and extent == "several":
                    continue
                # keyed by ROLE (does the dispatcher convert the evaluated subscript with as_index or hand it on as evaluated), not by where the table stands
                key = "%s:%s:%s" % ("subscript-converted-to-index" if conv else "subscript-as-evaluated", form, extent)
                bad = und = None
                n = 0
                for nrows in (1, 2, 3):
                    for raw, sel, desc in selections(form, nrows):
                        ln = 1 if form == "scalar" else len(raw)
                        if ln == 0 or (ln == 1) != (extent == "one-element"):
                            continue
                        n += 1
                        r = route_run(items, core_items, vm, kernels, arms, front, form, nrows, raw, sel, desc, sform)
                        if r.get("noeval") and und is None:
                            und = "%s: %s" % (r["input"], r["noeval"])
                        if r.get("bad") and bad is None:
                            bad = r["bad"] + (r["input"],)
                if bad:
                    aspect, text, inp = bad
                    rep.bad(RULE8, "%s:%s" % (key, aspect), "the dispatcher arm taken for %s (%s, in %s) does not produce the selected rows: %s: %s" % (
                        "a %s %s" % (extent, form), ctx, it["name"], inp, text), where)
                elif und:
                    rep.note("undecided", {"rule": RULE8, "route": key, "why": und})
                    rep.ok(RULE8, key)
                else:
                    rep.ok(RULE8, key, sample={"route": key, "inputs evaluated": n})
    check_range_routes(items, core_items, rep, vm, kernels, front, tables, crate)


def route_run(items, core_items, vm, kernels, arms, front, form, nrows, raw, sel, desc, sform="slice", iv=None):
    M = T.Machine([items, core_items], prims={"hash_str": lambda s_: KEYS.get(s_, 900000 + sum(ord(c) * (i + 1) for i, c in enumerate(str(s_))))})
    src = make_table(vm, nrows)
    before = T.clone(src)
    src_cell = T.Cell(src)
    tv = T.Enum(vm["mutref"], [T.Cell(T.Enum(vm["table"], [src_cell]))])      # a table variable is handed to the dispatcher as a mutable reference
    if iv is None:
        iv = index_value(vm, form, list(raw) if isinstance(raw, list) else raw)
    out = {"input": "a %d-row table and %s" % (nrows, desc)}
    try:
        shp = M.find_method("Value", "shape", 0)
        if shp is None:
            out["noeval"] = "Value::shape not found"
            return out
        shape = T.D(M.call_item(shp, iv, []))
        chosen = None
        scrut = shape if sform != "tuple" or not isinstance(shape, T.Vec) else tuple(shape.items)
        for pat, cs in arms:
            if M.match(pat, scrut, T.Env()):
                chosen = cs
                break
        if chosen is None:
            out["bad"] = ("unrouted", "no arm of the shape table takes the shape %r" % (shape,))
            return out
        cs = [c for c in chosen if c in front]
        if len(cs) != 1:
            out["noeval"] = "the arm compiles %s" % (chosen,)
            return out
        en = front[cs[0]]
        res = T.D(M.call_item(en, T.Struct(cs[0], {}), [T.Vec([tv, iv])]))
        if not (isinstance(res, T.Enum) and T.vseg(res.name, 1) == "Ok" and isinstance(T.D(res.args[0]), T.Struct) and T.D(res.args[0]).name in kernels):
            how = "it arrives as %s and is handed to %s" % (T.vseg(iv.name), cs[0]) if sform == "any" else "shape %s routes it to %s" % (show_col(shape.items) if isinstance(shape, T.Vec) else shape, cs[0])
            out["bad"] = ("rejected", "%s, which rejects it (%s)" % (how, "an error" if isinstance(res, T.Enum) else repr(res)))
            return out
        k = T.D(res.args[0])
        M.call_item(M.find_method(k.name, "solve", 0), k, [])
        rv = T.D(M.call_item(M.find_method(k.name, "out", 0), k, []))
        resv = T.D(T.D(rv.args[0]).v)
        if kernels[k.name]["result"] == "table":
            out["bad"] = compare_table(before, src_cell.v, sel, resv)
        else:
            # a one-row selection delivered as a record of that row: the same row
            out["bad"] = compare_record(before, src_cell.v, sel, resv) if len(sel) == 1 else ("result", "a record is returned for a selection of %d rows" % len(sel))
    except T.NoEval as ex:
        out["noeval"] = str(ex)
    except T.Panic as ex:
        out["bad"] = ("panics", "panics (%s)" % ex)
    return out


def range_routes(items, front, tables):
    """[(function item, front compiler struct)]: match arms that hand the argument vector to a front compiler UNCONDITIONALLY (the arm holds no shape table) after calling
    a crate function that converts a vector of usize with `as_vecusize()` .. `to_value()` (the evaluated range subscript)"""
    fns = {}
    for it in items:
        if it.get("k") == "fn" and it.get("body") is not None:
            fns.setdefault(it["name"], []).append(it)
    out, seen = [], set()
    for it in items:
        if it.get("k") not in ("fn", "method") or it.get("body") is None or re.sub(r"<.*$", "", _ty(it.get("self"))) in front:
            continue
        for m in find(it["body"], "match"):
            for a in m[2]:
                if any(True for _ in find(a[2], "match")):
                    continue        # only innermost arms: an arm that dispatches further is not an unconditional route
                direct = [re.sub(r"<.*$", "", _ty(c[1][1])).split("::")[-1] for c in find(a[2], "mcall") if c[2] == "compile" and is_node(c[1]) and c[1][0] == "struct"]
                direct = [d for d in direct if d in front]
                if not direct or a[0][0] != "pslice":
                    continue
                producer = False
                for c in find(a[2], "call"):
                    if is_node(c[1]) and c[1][0] == "path":
                        for f in fns.get(c[1][1].replace(" ", "").split("::")[-1], []):
                            names = {x[2] for x in find(f["body"], "mcall")}
                            producer = producer or ("to_value" in names and "as_vecusize" in names)
                if producer:
                    for d in direct:
                        if (id(it), d) not in seen:
                            seen.add((id(it), d))
                            out.append((it, d))
    return out


def check_range_routes(items, core_items, rep, vm, kernels, front, tables, crate):
    """the arm of a range subscript compiles ONE front compiler whatever the evaluated range holds; the value it hands on is `Vec<usize>::to_value()` of the rows of the
    range (evaluated from its body): every contiguous range of rows of a 1..3-row table must select those rows"""
    routes = range_routes(items, front, tables)
    if not routes:
        return
    to_value = [it for it in core_items if it.get("k") == "method" and it.get("name") == "to_value" and _ty(it.get("self")) == "Vec<usize>" and it.get("body") is not None]
    if len(to_value) != 1:
        rep.note("undecided", {"rule": RULE8, "why": "Vec<usize>::to_value not found (%d)" % len(to_value)})
        return
    groups = {}
    for it, st in routes:
        groups.setdefault(st, it)
    for st, it in sorted(groups.items()):
        where = "%s (%s)" % (it["name"], crate)
        for extent in ("one-element", "several"):
            key = "range-subscript:index-vector:%s" % extent
            bad = und = None
            n = 0
            for nrows in (1, 2, 3):
                for a in range(1, nrows + 1):
                    for b in range(a, nrows + 1):
                        rows = list(range(a, b + 1))
                        if (len(rows) == 1) != (extent == "one-element"):
                            continue
                        n += 1
                        M = T.Machine([items, core_items])
                        try:
                            iv = T.D(M.call_item(to_value[0], T.Vec(rows), []))
                        except (T.NoEval, T.Panic) as ex:
                            und = und or "to_value of %s: %s" % (rows, ex)
                            continue
                        r = route_run(items, core_items, vm, kernels, [(["pwild"], [st])], front, "index-vector", nrows, rows, rows, "the range of rows %d..=%d" % (a, b), "any", iv=iv)
                        if r.get("noeval") and und is None:
                            und = "%s: %s" % (r["input"], r["noeval"])
                        if r.get("bad") and bad is None:
                            bad = r["bad"] + (r["input"],)
            if n == 0:
                continue
            if bad:
                aspect, text, inp = bad
                rep.bad(RULE8, "%s:%s" % (key, aspect), "the range-subscript arm (in %s; %s is compiled whatever the evaluated range holds) does not produce the selected rows: %s: %s" % (
                    it["name"], st, inp, text), where)
            elif und:
                rep.note("undecided", {"rule": RULE8, "route": key, "why": und})
                rep.ok(RULE8, key)
            else:
                rep.ok(RULE8, key, sample={"route": key, "inputs evaluated": n})


def run_r8(F, rep, crate="mech_interpreter.lib", core="mech_core.lib"):
    rep.rule(RULE8, TEXT8)
    check_routes(F.syn(crate), F.syn(core), rep, crate, core)
