"""C08-R17: the two renderers of a node variant agree on which component goes into which hole.

Some node enums of mech_core have their own `to_string()` (used for plain text), and the formatter's text path DELEGATES to it for nested elements (a styled wrapper prints
`n.to_string()` of its inner element).  For a variant whose payload has several components (a hyperlink: text and url) both renderers spell the same template; if one of them
fills the holes in another order (`[url](text)`), the text it contributes to the formatted program no longer parses back to the same node.  Structural fact decided: for every
enum variant with a tuple payload of >= 2 bound components that is rendered, with the SAME literal template, by an arm of a mech_core `to_string()` and by an arm of a formatter
emitter (text path: the non-html branch), the payload component that fills hole k is the same in both (components identified by POSITION in the variant's pattern, followed
through `let` locals; never by name).  Not decided: templates that differ between the two renderers (the formatter's own emitters are R7/R8's subject)."""
import re
from lib.facts import find, walk, is_node, render_pat, path_of


def _binders(pat):
    """ordered binder names of a tuple-payload variant pattern"""
    out = []
    for n in walk(pat):
        if is_node(n) and n[0] == "pident":
            out.append(n[1])
    return out


def _templates(body, binders, html_field="html"):
    """(template, [component position per hole]) of every format_args! in the arm's TEXT path"""
    res = []
    local = {}
    def pos_of(expr_txt):
        names = re.findall(r"[A-Za-z_]\w*", expr_txt)
        ps = set()
        for nm in names:
            if nm in binders:
                ps.add(binders.index(nm))
            elif nm in local:
                ps |= local[nm]
        return sorted(ps)
    def visit(n, text_path=True):
        if not is_node(n):
            if isinstance(n, list):
                for c in n:
                    visit(c, text_path)
            return
        if n[0] == "let" and n[2] is not None and is_node(n[1]) and n[1][0] == "pident":
            from lib.facts import render
            local[n[1][1]] = set(pos_of(render(n[2])))
        if n[0] == "if" and is_node(n[1]) and n[1][0] == "field" and n[1][2] == html_field:
            visit(n[3] if len(n) > 3 else None, text_path)      # else branch = text path
            return
        if n[0] == "macro" and n[1] == "format_args" and text_path:
            raw = n[3] if len(n) > 3 and n[3] else n[2]
            m = re.match(r'\s*"((?:[^"\\]|\\.)*)"\s*(?:,(.*))?$', raw, re.S)
            if m:
                tmpl = m.group(1)
                args = [a.strip() for a in re.split(r"\s,\s", m.group(2) or "") if a.strip()]
                holes = re.findall(r"\{(\d*)[^}]*\}", tmpl)
                if len(holes) >= 2 and len(args) >= len(holes):
                    idx = [int(h) if h != "" else k for k, h in enumerate(holes)]
                    res.append((re.sub(r"\{\d*", "{", tmpl), [tuple(pos_of(args[i])) for i in idx]))
        for c in n[1:]:
            visit(c, text_path)
    visit(body)
    return res


def run(F, rep):
    rid = "C08-R17"
    rep.rule(rid, "sibling renderers: a node variant rendered with the same literal template by a mech_core to_string() and by a formatter emitter fills each hole with the same payload component")
    core = {}
    for it in F.syn("mech_core.lib"):
        if it.get("k") == "method" and it.get("name") == "to_string" and it.get("body"):
            for m in find(it["body"], "match"):
                for arm in m[2]:
                    b = _binders(arm[0])
                    v = re.search(r"([A-Za-z_]\w*::[A-Za-z_]\w*)", render_pat(arm[0]))
                    if v and len(b) >= 2:
                        for t in _templates(arm[2], b):
                            core.setdefault(v.group(1), []).append(t)
    n = 0
    for it in F.syn("mech_syntax.lib"):
        if it.get("k") != "method" or "Formatter" not in str(it.get("self")) or not it.get("body"):
            continue
        for m in find(it["body"], "match"):
            for arm in m[2]:
                v = re.search(r"([A-Za-z_]\w*::[A-Za-z_]\w*)", render_pat(arm[0]))
                if not v or v.group(1) not in core:
                    continue
                b = _binders(arm[0])
                if len(b) < 2:
                    continue
                for (tmpl, pos) in _templates(arm[2], b):
                    for (ct, cpos) in core[v.group(1)]:
                        if ct != tmpl:
                            continue
                        n += 1
                        ok = cpos == pos
                        rep.check(ok, rid, "%s:%s" % (v.group(1), "same-components") if ok else "%s:holes-filled-differently" % v.group(1),
                                  "%s is rendered as `%s` by Formatter::%s with payload components %s in the holes, but by mech_core's to_string() with components %s: text that the "
                                  "formatter takes from to_string() (nested elements of styled wrappers) no longer parses back to the same node" % (v.group(1), tmpl, it["name"], pos, cpos),
                                  "%s / to_string (mech_syntax.lib / mech_core.lib)" % it["name"], sample={"variant": v.group(1), "template": tmpl})
    rep.floor(rid, "node variants rendered with one template by both renderers", n, 1)
