"""C01 — elementwise operators: dispatch closure, form/field agreement, kernel normal form vs operator oracle, shape guards."""
import re
from collections import defaultdict
from lib.facts import CallGraph, find, walk, is_node, path_of, render, render_pat, last_seg, strip_refs
from lib import fxn as X
from lib.dispatch import dispatchers, value_pat, boxed_structs, user_structs, FORM_ABBR
from lib.kernel import Kernel, Unrecognised, show, roots_in, root_of, COMMUTATIVE

TECHNIQUE = ("operator-token -> native compiler -> dispatcher -> function struct -> kernel chain followed through the expanded syntax and the MIR call graph; "
             "kernel normal form (symbolic evaluation of every solve body) compared with an operator oracle; dispatch-table closure and form/field agreement; "
             "absence rule for shape guards on same-form and broadcast arms")
EXPLANATION = (
    "Decides, for every generated instance of the arithmetic, comparison and logic operators: (R1) closure of acceptance - a kind with a scalar x scalar arm "
    "has arms for every enabled matrix form F: FxF, Fxscalar, scalarxF; (R2) each arm constructs the struct whose operand storage types are the arm's forms "
    "and whose output form is the broadcast form; (R3) every kernel normalises to out[i] := lhs[i] OP rhs[i] (scalars unindexed, vector operands indexed by "
    "the matching row/column) with OP the operator the Mech token denotes, left operand on the left for non-commutative OP, over the whole output; (R4) arms "
    "whose two operands both have a runtime shape either compare the shapes and return Err or use a shape-asserting nalgebra kernel. Kind coherence "
    "(pattern variant <-> element type) is enforced by rustc's type inference on the generated arms and is not re-checked. The scalar semantics of OP itself (Rust's operator on the primitive type) is trusted. "
    "Not decided: overflow/rounding behaviour of the Rust operators."
    ' (R4, strengthened) the shape guard of every same-form arm is DECIDED over the finite table of operand shapes {1,2,3}^2 x {1,2,3}^2 admitted by the storage forms: it must fire for every unequal pair and for no equal pair; (R7) the per-variant arms of Value::kind/shape/is_matrix/is_scalar keep their frozen sibling partition (deviant-sibling check).'
    ' (R8) the output buffer a dispatch arm allocates (`DMatrix/DVector/RowDVector::from_element(shape.., default)`) has the shape of the (equal-shaped) matrix operand(s), decided over the finite shape table for every unary and binary arm.'
    ' (R9) scalar semantics of the exact kind: every arithmetic / comparison operator impl of R64 applies that operator to the wrapped Rational64 of its operands and calls nothing else (no detour through f64).'
    ' (R10) the dispatch table is always consulted: the statements an operator compiler ((Value, Value) -> MResult<Box<dyn MechFunction>>, found by signature) runs in front of its dispatch expression contain no `?` and no `return Err`; an early return only hands over to another operator compiler (re-dispatch on promoted operands).'
)

# oracle: operator enum variant -> operator the kernel must apply (from the property statement / spec 6.1.3)
ORACLE = {
    "AddSubOp::Add": "+", "AddSubOp::Sub": "-", "MulDivOp::Mul": "*", "MulDivOp::Div": "/", "MulDivOp::Mod": "%", "PowerOp::Pow": "pow",
    "ComparisonOp::Equal": "==", "ComparisonOp::NotEqual": "!=", "ComparisonOp::LessThan": "<", "ComparisonOp::LessThanEqual": "<=",
    "ComparisonOp::GreaterThan": ">", "ComparisonOp::GreaterThanEqual": ">=",
    "LogicOp::And": "&&", "LogicOp::Or": "||", "LogicOp::Xor": "xor",
}
UNARY_ORACLE = {"MathNegate": "-", "LogicNot": "!"}
OP_EQUIV = {"&&": {"&&", "&"}, "||": {"||", "|"}, "xor": {"^", "!="}, "%": {"%", "rem", "rem_euclid"}}
FORMS3 = ["RD", "VD", "MD"]
OUT_FORM = {("S", "S"): "S"}
MATRIX_CRATES = ["mech_math.lib", "mech_compare.lib", "mech_logic.lib"]


def params_of_type(it, type_rx):
    """names of the parameters of a fn/method item whose declared type matches type_rx (a role is a POSITION + TYPE in the signature, never a spelling)"""
    out = []
    for pat, ty in (it.get("sig") or {}).get("inputs", []):
        if is_node(pat) and re.search(type_rx, (ty or "").replace(" ", "")):
            out += [b[1] for b in find(pat, "pident")]
    return out


def strip_borrow(e):
    """`&x`, `&mut x`, `(x)`, `x.iter()`, `x.iter().enumerate()`, `x.clone()` -> x  (the collection a loop walks)"""
    while is_node(e):
        if e[0] == "ref":
            e = e[2]
        elif e[0] == "paren":
            e = e[1]
        elif e[0] == "mcall" and e[2] in ("iter", "iter_mut", "into_iter", "enumerate", "clone", "borrow", "as_ref") and not e[4]:
            e = e[1]
        else:
            break
    return e


def loop_bindings_over_field(body, owners, field):
    """for every `for PAT in <owner>.<field>` (owner one of the given locals; borrowed / .iter()'d forms included): the loop node and PAT"""
    out = []
    for f in find(body, "for"):
        src = strip_borrow(f[2])
        if is_node(src) and src[0] == "field" and src[2] == field and path_of(strip_borrow(src[1])) in owners:
            out.append(f)
    return out


def term_routing(F):
    """operator variant -> set of native compiler struct names, read from the arms of term().
    The operator is recognised by provenance, not by spelling: it is the first component of what the loop over `<the &Term parameter>.rhs`
    (the list of (operator, operand) pairs) binds; the routing table is the `match` on that binding whose arms are FormulaOperator patterns."""
    out = defaultdict(set)
    for it in F.syn("mech_interpreter.lib"):
        if it["k"] == "fn" and it["name"] == "term" and it["mod"].endswith("expressions"):
            terms = params_of_type(it, r"^&(mut)?Term$")
            ops = set()
            for lp in loop_bindings_over_field(it["body"], set(terms), "rhs"):
                pat = lp[1]
                while pat[0] in ("pref", "ptype"):
                    pat = pat[2] if pat[0] == "pref" else pat[1]
                if pat[0] == "ptuple" and pat[1] and pat[1][0][0] == "pident":
                    ops.add(pat[1][0][1])
            for m in find(it["body"], "match"):
                if path_of(strip_borrow(m[1])) not in ops:
                    continue
                for arm in m[2]:
                    p = arm[0]
                    if p[0] == "pts" and p[1].startswith("FormulaOperator::") and p[2] and p[2][0][0] == "ppath":
                        var = p[2][0][1]
                        for mc in find(arm[2], "mcall"):
                            if mc[2] == "compile" and is_node(mc[1]) and mc[1][0] == "struct":
                                out[var].add(mc[1][1])
    return out


def form_of_type(t):
    """Ref<DMatrix<T>> -> MD, Ref<T> -> S"""
    m = re.match(r"Ref<(\w+)<", t.replace(" ", ""))
    if m and m.group(1) in FORM_ABBR:
        return FORM_ABBR[m.group(1)]
    if re.match(r"Ref<\w+>$", t.replace(" ", "")):
        return "S"
    return None


def broadcast_form(a, b):
    if a == "S":
        return b
    if b == "S":
        return a
    if a == b:
        return a
    if "MD" in (a, b):
        return "MD"
    return None


def same_idx(a, b):
    return a == b


def check_binop_kernel(k, op, fa, fb):
    """returns None if the kernel is out[idx] := lhs[idx'] op rhs[idx''] with the right correspondence, else a reason"""
    writes = [e for e in k.effects if e.kind == "write"]
    others = [e for e in k.effects if e.kind not in ("write",)]
    if others:
        return "kernel has effects other than writes: %s" % others[:2]
    if len(writes) != 1:
        return "expected exactly one write, found %d: %s" % (len(writes), writes[:3])
    w = writes[0]
    if root_of(w.target) != "out":
        return "writes %s, not the output" % show(w.target)
    v = w.value
    if not (isinstance(v, tuple) and v[0] == "op"):
        return "value is not a binary operation: %s" % show(v)
    vop, a, b = v[1], v[2], v[3]
    allowed = OP_EQUIV.get(op, {op})
    if vop not in allowed:
        return "applies `%s` where the operator denotes `%s`" % (vop, op)
    ra, rb = roots_in(a), roots_in(b)
    swapped = False
    if ra == {"rhs"} and rb == {"lhs"}:
        if op not in COMMUTATIVE and vop not in COMMUTATIVE:
            return "operands swapped for non-commutative `%s`: computes %s" % (op, show(v))
        a, b = b, a
        swapped = True
    elif not (ra == {"lhs"} and rb == {"rhs"}):
        return "operands are not (lhs, rhs): %s" % show(v)
    if w.conds:
        return "write is conditional: %s" % [show(c) for c in w.conds]
    # index correspondence
    t = w.target

    def idx(x):
        if x[0] == "root":
            return "scalar"
        if x[0] == "whole":
            return ("whole", x[1]) if x[1][0] != "root" else "whole"
        if x[0] == "elem":
            return x[2]
        return None
    ti, ai, bi = idx(t), idx(a), idx(b)
    if t[0] == "root":
        ti = "whole" if (fa, fb) != ("S", "S") else "scalar"
    for name, form, oi, ov in (("lhs", fa, ai, a), ("rhs", fb, bi, b)):
        if form == "S":
            if oi != "scalar":
                return "scalar operand %s is indexed: %s" % (name, show(ov))
            continue
        if oi == "scalar":
            return "matrix operand %s is read as a scalar" % name
        other_form = fb if name == "lhs" else fa
        if form == other_form or other_form == "S" or form == "MD":
            # same iteration position as the output
            if ti == "whole" or ti == "scalar":
                if oi not in ("whole",) and not (isinstance(oi, tuple) and oi[0] == "whole"):
                    return "%s is read elementwise while the output is written whole" % name
            elif isinstance(ti, tuple) and ti and ti[0] == "whole":
                if not (isinstance(oi, tuple) and oi[0] == "whole" and oi[1][:2] == ti[1][:2] and oi[1][3:] == ti[1][3:]):
                    return "%s view %s does not correspond to the output view %s" % (name, show(ov), show(t))
            elif oi != ti:
                return "%s is read at %s but the output is written at %s" % (name, show(ov), show(t))
        else:
            # vector operand broadcast against a matrix: VD -> row index, RD -> column index
            if isinstance(ti, tuple) and len(ti) == 2 and ti[0] != "whole":
                want = (ti[0],) if form == "VD" else (ti[1],)
                if oi != want:
                    return "broadcast %s operand %s read at %s, expected index %s of out%s" % (form, name, show(ov), show(want[0]), show(t))
            elif isinstance(ti, tuple) and ti[0] == "whole":
                # out.col(c)[*] := lhs.col(c)[*] op rhs[*]   (column view with a VD operand; row view with RD)
                view = ti[1]
                if not (view[0] == "sub" and ((view[1] == "col" and form == "VD") or (view[1] == "row" and form == "RD")) and oi == "whole"):
                    return "broadcast %s operand %s does not line up with the output view %s" % (form, name, show(t))
            else:
                return "cannot relate broadcast operand %s to the output index" % name
    # iteration space: every loop is a full traversal
    for lp in w.loops:
        if lp[0] == "range":
            lo, hi, incl = lp[2], lp[3], lp[4]
            if lo != ("int", 0) or incl or hi[0] not in ("len", "nrows", "ncols"):
                return "loop %s does not cover the whole output" % show(lp)
        elif lp[0] in ("zip", "iter", "cols", "rows"):
            continue
        else:
            return "unrecognised loop %s" % show(lp)
    return None


def shape_asserting(k):
    """kernel is a whole-object nalgebra call that asserts equal shapes"""
    ws = [e for e in k.effects if e.kind == "write"]
    return (len(ws) == 1 and ws[0].target[0] in ("whole", "root") and not ws[0].loops and ws[0].value[0] == "op"
            and ws[0].value[2][0] == "whole" and ws[0].value[3][0] == "whole")


SHAPEISH = re.compile(r"shape|len|nrows|ncols|rows|cols|size|dims")


def local_initialisers(node):
    """alias map of the locals bound inside `node`: name -> the expression it was initialised from (`let (a, b) = e` gives a -> e.0, b -> e.1,
    or the matching component when e is a tuple literal); locals bound by anything else (match / closure / for patterns, `let x;`) map to None"""
    env = {}
    for b in find(node, "pident"):
        env.setdefault(b[1], None)
    for st in walk(node):
        if st[0] in ("let", "letc") and len(st) > 2 and st[2] is not None and is_node(st[1]):
            pat = st[1]
            while pat[0] == "ptype":
                pat = pat[1]
            if pat[0] == "pident":
                env[pat[1]] = st[2]
            elif pat[0] == "ptuple":
                for i, sub in enumerate(pat[1]):
                    while is_node(sub) and sub[0] == "ptype":
                        sub = sub[1]
                    if is_node(sub) and sub[0] == "pident":
                        env[sub[1]] = st[2][1][i] if (is_node(st[2]) and st[2][0] == "tuple" and len(st[2][1]) == len(pat[1])) else ["field", st[2], str(i)]
    return env


def provenance_text(e, env, extra_locals=(), depth=0):
    """render `e` with every local replaced by what it was computed from (transitively); locals without an initialiser (pattern binders) become `_`.
    The text therefore contains callee / method / field / type names only - never the spelling of a local."""
    def sub(x, d, busy):
        if not is_node(x):
            if isinstance(x, list):
                return [sub(y, d, busy) for y in x]
            return x
        if x[0] == "path" and isinstance(x[1], str) and "::" not in x[1] and (x[1] in env or x[1] in extra_locals):
            init = env.get(x[1])
            if init is None or d > 12 or x[1] in busy:
                return ["path", "_"]
            return sub(init, d + 1, busy | {x[1]})
        if x[0] == "macro":
            return ["macro", x[1], ""]           # token text of a macro is not resolved; its name stays
        return [x[0]] + [sub(y, d, busy) for y in x[1:]]
    return render(sub(e, depth, frozenset()))


def arm_has_shape_guard(arm):
    """conservative: any comparison/match in the arm body whose condition mentions a shape quantity of the first and of the second operand
    (directly or via locals), leading to an Err/return/panic.  The operands are what the arm's pattern binds (position in the tuple pattern);
    a condition is 'about shapes' when, after replacing every local by the expression it was computed from, it calls / reads something shape-like
    (`shape()`, `len()`, `nrows()` ...) - the spelling of the locals plays no role."""
    body = arm.body
    binders = [p[2] for p in arm.pats]
    if len(binders) != 2:
        return False
    scr = getattr(arm, "scrut", None) or [None, None]
    lset, rset = set(), set()
    for s_, b_, comp in ((lset, binders[0], scr[0] if len(scr) == 2 else None), (rset, binders[1], scr[1] if len(scr) == 2 else None)):
        if b_:
            s_.add(b_)
        elif comp is not None:
            # operand not bound by the pattern: it can only be referred to through the scrutinee component
            s_ |= {x[1] for x in find(comp, "path") if "::" not in x[1]}
    env = local_initialisers(body)
    extra = set(b for b in binders if b)
    stmts = body[1] if is_node(body) and body[0] == "block" else []
    for st in stmts:
        if st[0] == "let" and st[2] is not None:
            names = {p[1] for p in find(st[1], "pident")}
            used = {x[1] for x in find(st[2], "path")}
            if used & lset:
                lset |= names
            if used & rset:
                rset |= names
    for n in walk(body):
        cond = None
        if n[0] == "if":
            cond = n[1]
        elif n[0] == "match":
            cond = ["tuple", [n[1]] + [a[1] for a in n[2] if a[1] is not None]]
        elif n[0] == "macro" and last_seg(n[1]) in ("assert", "assert_eq", "debug_assert_eq"):
            txt = n[2]
            if any(re.search(r"\b%s\b" % re.escape(a), txt) for a in lset) and any(re.search(r"\b%s\b" % re.escape(b), txt) for b in rset):
                return True
        elif n[0] == "call" and path_of(n[1]) and n[2] and len(n[2]) >= 2:
            # unknown helper taking both operands counts as a guard
            used = [{x[1] for x in find(a, "path")} for a in n[2]]
            if any(u & lset for u in used) and any(u & rset for u in used) and not path_of(n[1]).endswith(("new", "Ok", "Box::new")):
                f = path_of(n[1]).split("::")[-1]
                if re.search(r"check|assert|valid|compat|same|shape|dim", f):
                    return True
        if cond is not None:
            used = {x[1] for x in find(cond, "path")}
            if used & lset and used & rset and SHAPEISH.search(provenance_text(cond, env, extra)):
                return True
    return False


class _NoEval(Exception):
    pass


def _shape_eval(e, env, vals, depth=0):
    """evaluate a shape expression over concrete operand shapes vals = {binder: (rows, cols)}"""
    if depth > 30 or not is_node(e):
        raise _NoEval(str(e)[:30])
    t = e[0]
    ev = lambda x: _shape_eval(x, env, vals, depth + 1)
    if t == "path":
        if e[1] in vals:
            return ("M",) + vals[e[1]]
        if e[1] in env:
            return ev(env[e[1]])
        raise _NoEval(e[1])
    if t == "int":
        return int(re.sub(r"[^0-9].*$", "", str(e[1])) or 0)
    if t == "bool":
        return bool(e[1])
    if t == "mcall":
        r = ev(e[1])
        m = e[2]
        if m in ("borrow", "clone", "as_ref", "deref", "borrow_mut", "to_owned"):
            return r
        if isinstance(r, tuple) and r and r[0] == "M":
            if m == "shape":
                return (r[1], r[2])
            if m == "nrows":
                return r[1]
            if m == "ncols":
                return r[2]
            if m == "len":
                return r[1] * r[2]
        raise _NoEval(m)
    if t == "field":
        r = ev(e[1])
        if isinstance(r, tuple) and r and r[0] != "M" and str(e[2]).isdigit() and int(e[2]) < len(r):
            return r[int(e[2])]
        raise _NoEval("field")
    if t == "tuple":
        return tuple(ev(x) for x in e[1])
    if t in ("ref",):
        return ev(e[2])
    if t == "un":
        if e[1] == "!":
            return not ev(e[2])
        if e[1] == "*":
            return ev(e[2])
        raise _NoEval("un")
    if t == "paren":
        return ev(e[1])
    if t == "block" and e[1] and e[1][-1][0] == "expr" and not e[1][-1][2]:
        env2 = dict(env)
        for st in e[1][:-1]:
            if st[0] == "let" and st[2] is not None and st[1][0] == "pident":
                env2[st[1][1]] = st[2]
            elif st[0] == "let" and st[2] is not None and st[1][0] == "ptuple" and is_node(st[2]) and st[2][0] == "tuple":
                for sub, val in zip(st[1][1], st[2][1]):
                    if sub[0] == "pident":
                        env2[sub[1]] = val
            else:
                raise _NoEval("block statement")
        # earlier lets may refer to outer names only: evaluate them eagerly in the outer environment
        return _shape_eval(e[1][-1][1], env2, vals, depth + 1)
    if t == "cast":
        return ev(e[1])
    if t == "bin":
        op = e[1]
        if op == "&&":
            return bool(ev(e[2])) and bool(ev(e[3]))
        if op == "||":
            return bool(ev(e[2])) or bool(ev(e[3]))
        a, b = ev(e[2]), ev(e[3])
        try:
            return {"!=": lambda: a != b, "==": lambda: a == b, "<": lambda: a < b, ">": lambda: a > b, "<=": lambda: a <= b, ">=": lambda: a >= b,
                    "+": lambda: a + b, "*": lambda: a * b, "-": lambda: a - b}[op]()
        except (KeyError, TypeError):
            raise _NoEval(op)
    raise _NoEval(t)


def _yields_err(stmts):
    for st in stmts or []:
        for n in walk(st):
            if n[0] == "ret" and n[1] is not None and "Err" in render(n[1])[:12]:
                return True
            if n[0] == "macro" and last_seg(n[1]) in ("panic", "assert", "unreachable"):
                return True
    if stmts and stmts[-1][0] == "expr" and not stmts[-1][2] and render(stmts[-1][1]).startswith("Err("):
        return True
    return False


DOM = (1, 2, 3)          # operand extents of the finite shape tables; the thorough tier uses (1, 2, 3, 4)
FORM_DOMAIN = {"RD": lambda r, c: r == 1, "VD": lambda r, c: c == 1, "MD": lambda r, c: True}


def out_allocation_table(arm, forms):
    """decide the shape arguments of the arm's `<DForm>::from_element(.., default)` over the operand-shape table.
    forms: storage forms of the operands (1 or 2).  returns (verdict, detail)"""
    binders = [p[2] for p in arm.pats]
    if not all(binders) or len(binders) != len(forms) or not any(f in FORM_DOMAIN for f in forms):
        return "uninterpretable", "binders/forms"
    body = arm.body
    stmts = body[1] if is_node(body) and body[0] == "block" else [["expr", body, False]]
    env = {}
    for st in stmts:
        if st[0] == "let" and st[2] is not None:
            pat = st[1]
            if pat[0] == "pident":
                env[pat[1]] = st[2]
            elif pat[0] == "ptuple":
                for i, sub in enumerate(pat[1]):
                    if sub[0] == "pident":
                        env[sub[1]] = ["field", st[2], str(i)] if not (is_node(st[2]) and st[2][0] == "tuple") else st[2][1][i]
    allocs = []
    for c in find(body, "call"):
        pth = path_of(c[1]) or ""
        m = re.match(r"^(DMatrix|DVector|RowDVector)::from_element$", pth)
        if m and len(c[2]) >= 2:
            allocs.append((m.group(1), c[2][:-1]))
    if not allocs:
        return "none", ""
    dom = DOM
    wrong, n = [], 0
    mat_ix = [i for i, f in enumerate(forms) if f in FORM_DOMAIN]
    import itertools
    spaces = []
    for f in forms:
        if f in FORM_DOMAIN:
            spaces.append([(r, c) for r in dom for c in dom if FORM_DOMAIN[f](r, c)])
        else:
            spaces.append([(1, 1)])
    for combo in itertools.product(*spaces):
        shapes = [combo[i] for i in mat_ix]
        if len(set(shapes)) != 1:
            continue            # unequal shaped operands are the guard's business (R4)
        exp_r, exp_c = shapes[0]
        vals = {b: sh for b, sh in zip(binders, combo)}
        for kind, args in allocs:
            try:
                got = tuple(_shape_eval(a, env, vals) for a in args)
            except _NoEval as ex:
                return "uninterpretable", str(ex)
            n += 1
            want = (exp_r, exp_c) if kind == "DMatrix" else (exp_r * exp_c,)
            if got != want:
                wrong.append("%s operand -> %s::from_element%s" % ("x".join(map(str, shapes[0])), kind, got))
    if wrong:
        return "wrong", "%d of %d, e.g. %s" % (len(wrong), n, "; ".join(wrong[:3]))
    return "exact", "%d shape assignments" % n


def shape_guard_truth_table(arm, g1, g2):
    """decide the arm's shape guard over all operand shapes in {1,2,3}^2 x {1,2,3}^2 admitted by the storage forms:
    returns (verdict, detail): verdict in 'exact' | 'misses' | 'rejects-equal' | 'uninterpretable' | 'none'"""
    body = arm.body
    binders = [p[2] for p in arm.pats]
    if len(binders) != 2 or not all(binders) or g1 not in FORM_DOMAIN or g2 not in FORM_DOMAIN:
        return "uninterpretable", "binders/forms"
    stmts = body[1] if is_node(body) and body[0] == "block" else []
    env = {}
    guards = []
    for st in stmts:
        if st[0] == "let" and st[2] is not None:
            pat = st[1]
            if pat[0] == "pident":
                env[pat[1]] = st[2]
            elif pat[0] == "ptuple":
                for i, sub in enumerate(pat[1]):
                    if sub[0] == "pident":
                        env[sub[1]] = ["field", st[2], str(i)] if not (is_node(st[2]) and st[2][0] == "tuple") else st[2][1][i]
        elif st[0] == "expr" and is_node(st[1]) and st[1][0] == "if":
            n = st[1]
            then_err = _yields_err(n[2])
            else_err = n[3] is not None and _yields_err(n[3][1] if n[3][0] == "block" else [["expr", n[3], False]])
            if then_err != else_err:
                guards.append((n[1], then_err))
    if not guards:
        return "none", ""
    dom = DOM
    missed, rejected, n = [], [], 0
    for lr in dom:
        for lc in dom:
            if not FORM_DOMAIN[g1](lr, lc):
                continue
            for rr in dom:
                for rc in dom:
                    if not FORM_DOMAIN[g2](rr, rc):
                        continue
                    vals = {binders[0]: (lr, lc), binders[1]: (rr, rc)}
                    fires = False
                    for cond, then_err in guards:
                        try:
                            v = bool(_shape_eval(cond, env, vals))
                        except _NoEval as ex:
                            return "uninterpretable", str(ex)
                        if v == then_err:
                            fires = True
                    n += 1
                    if (lr, lc) != (rr, rc) and not fires:
                        missed.append("%dx%d vs %dx%d" % (lr, lc, rr, rc))
                    if (lr, lc) == (rr, rc) and fires:
                        rejected.append("%dx%d" % (lr, lc))
    if missed:
        return "misses", "%d of %d shape pairs, e.g. %s" % (len(missed), n, ", ".join(missed[:4]))
    if rejected:
        return "rejects-equal", ", ".join(rejected[:4])
    return "exact", "%d shape pairs" % n


def anonymous_pat(p):
    """a pattern rendered without the spelling of its bindings (`Value::MutableReference(lhs)` -> `Value::MutableReference(_)`): usable in keys"""
    def sub(x):
        if isinstance(x, list):
            if x and x[0] == "pident":
                return sub(x[4]) if len(x) > 4 and x[4] else ["pwild"]
            return [sub(y) for y in x]
        return x
    return re.sub(r"\s+", "", render_pat(sub(p)))


DESCRIPTOR_GETTER = re.compile(r"^(kind|deref_kind|shape|len|nrows|ncols|size|dims|rows|cols|is_\w+)$")
NOPOS = frozenset()
UNKNOWN = frozenset({"?"})      # provenance the evaluation cannot attribute to an operand position (closure parameter of an unknown caller, result of a free function fed both operands)
PURE_WRAPPERS = ("Ok", "Err", "Some", "new", "from", "into", "clone", "drop")


class _Scope:
    """what the locals in scope stand for: env = local -> set of operand positions its value derives from; vecs = locals that ARE the argument vector
    (`v[i]` with a literal i is operand i); disp = locals that alias the dispatcher; arm = innermost enclosing match alternative over an operand pair"""
    def __init__(self, env=None, vecs=(), disp=(), arm=None, descr=()):
        self.env, self.vecs, self.disp, self.arm = dict(env or {}), set(vecs), set(disp), arm
        self.descr = set(descr)         # locals that hold only a DESCRIPTION of an operand (its kind, shape ..), not its value

    def copy(self):
        return _Scope(self.env, self.vecs, self.disp, self.arm, self.descr)


class OperandFlow:
    """Scoped abstract evaluation of a function body: which OPERAND POSITION (0 = first, 1 = second) does each argument of each dispatcher call derive from.
    Positions enter through `<argument vector>[i]` and through the components of a match alternative over a pair; they are inherited by every local bound
    from an expression that mentions a positioned local - `let`, `let .. else`, `if let` / `while let`, match-arm patterns (component-wise when a tuple is
    matched against a tuple pattern), `for` patterns and the parameters of a closure handed to a method of a positioned receiver (`x.map(|v| ..)`).
    Shadowing is respected (a `let` re-binds).  An operand that is only consulted through a descriptor getter (`x.kind()`, `x.shape()` ..) inside a larger
    expression does not lend its position to the result: `rhs.convert_to(&lhs.kind())` derives from the second operand.
    Calls to helper functions that receive an operand, the argument vector or the dispatcher are followed (parameters bound to the arguments), two levels deep.
    Nothing depends on the spelling of a local or on the name of a helper."""

    def __init__(self, callee_rx, resolve=None, max_depth=2, arity=2):
        self.arity = arity      # number of operands of the dispatcher (2 for the binary operators; the stepped range compilers have 3)
        self.rx = callee_rx
        self.resolve = resolve
        self.max_depth = max_depth
        self.sites = []         # (call node, [position set per argument], enclosing pair alternative or None)
        self.unfollowed = []    # helper calls that receive operands but could not be followed

    # ---- provenance of a value
    def pos(self, e, sc):
        return self.pos2(e, sc)[0]

    def pos2(self, e, sc):
        """(positions, descriptor_only): descriptor_only when every operand mentioned is consulted through a descriptor getter only"""
        full, filt = set(), set()

        def add(p, desc):
            full.update(p)
            if not desc:
                filt.update(p)

        def go(x, desc):
            if not isinstance(x, list):
                return
            if not is_node(x):
                for y in x:
                    go(y, desc)
                return
            t = x[0]
            if t == "path":
                add(sc.env.get(x[1], NOPOS), desc or x[1] in sc.descr)
                return
            if t == "index" and path_of(strip_borrow(strip_refs(x[1]))) in sc.vecs and is_node(x[2]) and x[2][0] == "int":
                add({int(x[2][1])}, desc)
                return
            if t == "mcall" and x[2] in ("get", "get_mut", "get_unchecked") and path_of(strip_borrow(strip_refs(x[1]))) in sc.vecs and len(x[4]) == 1 and is_node(x[4][0]) and x[4][0][0] == "int":
                add({int(x[4][0][1])}, desc)
                return
            if t == "mcall" and DESCRIPTOR_GETTER.match(x[2]) and not x[4]:
                go(x[1], True)
                return
            if t == "macro":
                for name, p in sc.env.items():
                    if p and re.search(r"\b%s\b" % re.escape(name), str(x[2])):
                        add(p, desc)
                return
            if t == "call" and path_of(x[1]) and not self.is_dispatcher(x[1], sc):
                nm = last_seg(path_of(x[1]))
                if nm not in PURE_WRAPPERS and not nm[:1].isupper() and len({q for a in x[2] for q in self.pos(a, sc)}) >= 2:
                    add(UNKNOWN, desc)      # a free function fed both operands: which of them its result stands for is not known
            for y in x[1:]:
                go(y, desc)
        go(e, False)
        return frozenset(filt or full), (not filt and bool(full))

    # ---- binding
    def bind(self, pat, init, sc, src_scope=None, unknown=False):
        """bind the names of `pat` to the provenance of `init` (evaluated in src_scope, default sc), component-wise for tuple against tuple"""
        src = src_scope or sc
        while is_node(pat) and pat[0] in ("ptype", "pref"):
            pat = pat[1] if pat[0] == "ptype" else pat[2]
        if init is not None and is_node(pat) and pat[0] == "ptuple" and is_node(init) and init[0] == "tuple" and len(init[1]) == len(pat[1]):
            for sp, si in zip(pat[1], init[1]):
                self.bind(sp, si, sc, src)
            return
        if init is not None and is_node(pat) and pat[0] == "pslice" and self.vec_base(init, src) and not any(is_node(x) and x[0] == "prest" for x in pat[1]):
            # `[a, b] = <argument vector as a slice>`: the i-th element pattern binds operand i
            for i, sp in enumerate(pat[1]):
                for b in find(sp, "pident"):
                    sc.env[b[1]] = frozenset({i})
                    sc.vecs.discard(b[1]), sc.disp.discard(b[1]), sc.descr.discard(b[1])
            return
        p, d = self.pos2(init, src) if init is not None else ((UNKNOWN if unknown else NOPOS), False)
        is_vec = init is not None and path_of(strip_borrow(strip_refs(init))) in src.vecs
        is_disp = init is not None and self.is_dispatcher(init, src)
        for b in find(pat, "pident"):
            sc.env[b[1]] = p
            sc.vecs.discard(b[1])
            sc.disp.discard(b[1])
            sc.descr.discard(b[1])
            if d:
                sc.descr.add(b[1])
            if is_vec and is_node(pat) and pat[0] == "pident":
                sc.vecs.add(b[1])
            if is_disp and is_node(pat) and pat[0] == "pident":
                sc.disp.add(b[1])

    def vec_base(self, e, sc):
        """is `e` the argument vector seen as a whole (`&v`, `v.as_slice()`, `&v[..]`, `v.clone()` ..)"""
        while is_node(e):
            e = strip_borrow(strip_refs(e))
            if is_node(e) and e[0] == "mcall" and e[2] in ("as_slice", "as_mut_slice", "to_vec", "deref") and not e[4]:
                e = e[1]
            elif is_node(e) and e[0] == "index" and is_node(e[2]) and e[2][0] == "range" and e[2][1] is None and e[2][2] is None:
                e = e[1]
            else:
                break
        return path_of(e) in sc.vecs if is_node(e) else False

    def is_dispatcher(self, e, sc):
        p = path_of(strip_refs(e)) if is_node(e) else None
        return bool(p) and (p in sc.disp or (p not in sc.env and re.search(self.rx, p) is not None))

    # ---- traversal
    def block(self, stmts, sc, depth):
        for st in stmts or []:
            if st[0] == "let":
                if st[2] is not None:
                    self.ex(st[2], sc, depth)
                src = sc.copy()
                if len(st) > 3 and st[3] is not None:
                    self.ex(st[3], sc.copy(), depth)
                self.bind(st[1], st[2], sc, src)
            elif st[0] == "expr":
                self.ex(st[1], sc, depth)

    def pair_arm(self, scrut, alt, body, guard, sc, depth):
        """one alternative `(P0, P1)` of a match over a pair: what P_i binds stands for the i-th component of the scrutinee - the operand whose position the
        component's provenance gives; when the scrutinee's provenance is unknown (not rooted in an argument vector) the component index IS the position"""
        sc2 = sc.copy()
        comps = scrut[1] if (is_node(scrut) and scrut[0] == "tuple" and len(scrut[1]) == self.arity) else None
        cp = [self.pos(c, sc) for c in comps] if comps else [NOPOS] * self.arity
        if not any(cp) and sc.arm is None:
            cp = [frozenset({i}) for i in range(self.arity)]
        for i, sub in enumerate(alt[1]):
            for b in find(sub, "pident"):
                sc2.env[b[1]] = cp[i]
                sc2.vecs.discard(b[1])
                sc2.disp.discard(b[1])
                sc2.descr.discard(b[1])
        if all(cp):
            sc2.arm = alt
        if guard is not None:
            self.ex(guard, sc2, depth)
        self.ex(body, sc2, depth)

    def ex(self, e, sc, depth):
        if not isinstance(e, list):
            return
        if not is_node(e):
            for y in e:
                self.ex(y, sc, depth)
            return
        t = e[0]
        if t in ("block", "unsafe"):
            self.block(e[1], sc.copy(), depth)
        elif t == "letc":
            self.ex(e[2], sc, depth)
            self.bind(e[1], e[2], sc, sc.copy())
        elif t == "if":
            sc2 = sc.copy()
            self.ex(e[1], sc2, depth)            # an `if let` binds for the then-branch only
            self.block(e[2], sc2, depth)
            if e[3] is not None:
                self.ex(e[3], sc.copy(), depth)
        elif t == "while":
            sc2 = sc.copy()
            self.ex(e[1], sc2, depth)
            self.block(e[2], sc2, depth)
        elif t == "loop":
            self.block(e[1], sc.copy(), depth)
        elif t == "for":
            self.ex(e[2], sc, depth)
            sc2 = sc.copy()
            self.bind(e[1], e[2], sc2, sc)
            self.block(e[3], sc2, depth)
        elif t == "match":
            self.ex(e[1], sc, depth)
            for arm in e[2]:
                alts = arm[0][1] if arm[0][0] == "por" else [arm[0]]
                if any(a[0] == "ptuple" and len(a[1]) == self.arity for a in alts):
                    for a in alts:
                        if a[0] == "ptuple" and len(a[1]) == self.arity:
                            self.pair_arm(e[1], a, arm[2], arm[1], sc, depth)
                else:
                    sc2 = sc.copy()
                    self.bind(arm[0], e[1], sc2, sc)
                    if arm[1] is not None:
                        self.ex(arm[1], sc2, depth)
                    self.ex(arm[2], sc2, depth)
        elif t == "closure":
            sc2 = sc.copy()
            for p in e[1]:
                self.bind(p, None, sc2, unknown=True)
            self.ex(e[2], sc2, depth)
        elif t == "mcall":
            self.ex(e[1], sc, depth)
            for a in e[4]:
                if is_node(a) and a[0] == "closure":
                    sc2 = sc.copy()
                    for p in a[1]:
                        self.bind(p, e[1], sc2, sc)        # `recv.map(|v| ..)`: v is (part of) recv
                    self.ex(a[2], sc2, depth)
                else:
                    self.ex(a, sc, depth)
        elif t == "call":
            if self.is_dispatcher(e[1], sc) and len(e[2]) == self.arity:
                self.sites.append((e, [self.pos(a, sc) for a in e[2]], sc.arm))
            elif path_of(e[1]):
                self.follow(e, sc, depth)
            else:
                self.ex(e[1], sc, depth)
            self.ex(e[2], sc, depth)
        elif t == "macro" or t == "item":
            return
        else:
            for y in e[1:]:
                self.ex(y, sc, depth)

    def follow(self, call, sc, depth):
        """helper(args): evaluate the helper's body with its parameters bound to the arguments (operand positions, argument vector, dispatcher)"""
        args = call[2]
        relevant = [bool(self.pos(a, sc)) or path_of(strip_borrow(strip_refs(a))) in sc.vecs or self.is_dispatcher(a, sc) for a in args]
        if not any(relevant):
            return
        name = last_seg(path_of(call[1]))
        if name in PURE_WRAPPERS or name[:1].isupper():
            return
        it = self.resolve(name) if (self.resolve and depth < self.max_depth) else None
        if it is None:
            self.unfollowed.append(render(call)[:80])
            return
        inputs = [pt for pt in (it.get("sig") or {}).get("inputs", []) if is_node(pt[0])]
        if len(inputs) != len(args):
            self.unfollowed.append(render(call)[:80])
            return
        sc2 = _Scope(arm=sc.arm)
        for (pat, _ty), a in zip(inputs, args):
            self.bind(pat, a, sc2, sc)
        self.block(it["body"], sc2, depth + 1)


def fn_resolver(F, crates):
    """last path segment -> the unique free function of that name in the given crates (None when absent or ambiguous)"""
    idx = defaultdict(list)
    for c in crates:
        try:
            items = F.syn(c)
        except (IOError, OSError):
            continue
        for it in items:
            if it["k"] == "fn" and it.get("body"):
                idx[it["name"]].append(it)
    return lambda name: idx[name][0] if len(idx.get(name, ())) == 1 else None


def operand_forwarding(rep, rule, where, method_item, callee_rx, label, resolve=None):
    """every call of the dispatcher in a native compiler's `compile` must receive a value derived from the FIRST operand first and one derived from the
    SECOND operand second (OperandFlow: positions by provenance from the argument vector / the components of the match over the operand pair).
    The violation key names the enclosing match alternative by its pattern WITHOUT binding names; returns the number of call sites decided."""
    flow = OperandFlow(callee_rx, resolve)
    sc = _Scope(vecs=params_of_type(method_item, r"^&?(mut)?(Vec<Value>|\[Value\])$"))
    flow.block(method_item["body"], sc, 0)
    n = 0
    for c, got, arm in flow.sites:
        if arm is None and not got[0] and not got[1]:
            # a call outside any match over the operand pair whose arguments are not rooted in the argument vector: no position to compare with
            rep.note("undecided", "%s: dispatcher call `%s` outside a match over the operand pair, arguments of unknown provenance" % (label, render(c)[:80]))
            continue
        if any("?" in g for g in got):
            rep.note("undecided", "%s: dispatcher call `%s`: an argument comes out of a closure parameter or a function fed both operands; its operand position is not known" % (label, render(c)[:80]))
            continue
        n += 1
        ok = got[0] == {0} and got[1] == {1}
        armtxt = anonymous_pat(arm)[:60] if arm is not None else "direct"
        rep.check(ok, rule, "%s:%s" % (label, "operands-in-order") if ok else "%s:operands-swapped:%s" % (label, armtxt),
                  "%s: in the arm `%s` the dispatcher call `%s` receives its operands in positions %s instead of (first, second): the operator is applied to swapped operands for this storage-form combination" % (
                      label, render_pat(arm)[:100] if arm is not None else "(no match arm: operands taken from the argument vector)", render(c)[:90], [sorted(g) for g in got]), where)
    for u in sorted(set(flow.unfollowed)):
        rep.note("undecided", "%s: operands handed to `%s`, which is not a function whose body could be followed" % (label, u))
    return n


def run(F, rep, tier):
    global DOM
    DOM = (1, 2, 3, 4) if tier == "thorough" else (1, 2, 3)
    rep.note("shape_table_extents", list(DOM))
    rep.rule("C01-R1", "closure: scalar x scalar arm for kind K => arms FxF, FxS, SxF for every enabled matrix form F (and the matrix x row/column-vector broadcast arms stay present where they exist today)")
    rep.rule("C01-R2", "arm pattern forms = struct operand field types; out form = broadcast form")
    rep.rule("C01-R3", "kernel normal form out[i] := lhs[i] OP rhs[i] with OP = the operator the token denotes (oracle), operand order, index correspondence, full iteration space")
    rep.rule("C01-R4", "arms with two shaped operands compare the shapes (Err) or use a shape-asserting kernel")
    routing = term_routing(F)
    rep.floor("C01-R3", "operator arms in term() routed to a native compiler", sum(1 for v in routing if routing[v]), 25)
    cg = CallGraph(F, X.FXN_CRATES)
    S = X.load_fxn_structs(F, MATRIX_CRATES)
    struct_by_name = {fs.name: fs for fs in S.values()}
    disp = {}
    for c in MATRIX_CRATES:
        for name, arms in dispatchers(F.syn(c)).items():
            disp[(c.split(".")[0], name)] = arms
    kernels = {}

    def kernel_of(fs):
        if fs.name not in kernels:
            try:
                kernels[fs.name] = Kernel(fs.solve, fs.fields)
            except Unrecognised as e:
                kernels[fs.name] = e
        return kernels[fs.name]

    families = []   # (variant, op, nfc struct, dispatcher key)
    for var, op in ORACLE.items():
        nfcs = routing.get(var, set())
        if not rep.check(len(nfcs) >= 1, "C01-R3", "route:%s" % var, "operator %s is not routed to any native compiler in term()" % var):
            continue
        for nfc in sorted(nfcs):
            if nfc == "StringConcat":
                continue
            root = [f for f in cg.bodies if re.match(r"<.*::%s as mech_core::functions::NativeFunctionCompiler>::compile$" % re.escape(nfc), f)]
            if not rep.check(len(root) == 1, "C01-R3", "nfc:%s" % nfc, "native compiler %s not found" % nfc):
                continue
            reach = cg.reach(root)
            ds = [(cr, fn) for (cr, fn) in disp if ("%s::" % cr in root[0]) and any(r.endswith("::" + fn) and r.startswith(cr) for r in reach)]
            if not rep.check(len(ds) >= 1, "C01-R3", "dispatcher:%s" % nfc, "no dispatch table reachable from %s::compile" % nfc):
                continue
            for d in ds:
                families.append((var, op, nfc, d))
    rep.floor("C01-R1", "binary operator families with a dispatch table", len({f[3] for f in families}), 15)

    n_kernels = 0
    n_tt = [0]
    unrec = []
    for var, op, nfc, dkey in families:
        arms = disp[dkey]
        fam = dkey[1]
        by_kind = defaultdict(dict)
        for a in arms:
            if len(a.pats) != 2:
                continue
            (k1, f1, b1), (k2, f2, b2) = a.pats
            if k1 in (None, "_") or k2 in (None, "_"):
                continue
            by_kind[(k1, k2)][(f1, f2)] = a
        for (k1, k2), forms in sorted(by_kind.items()):
            if k1 != k2:
                continue
            kind = k1
            # R1 closure
            if ("S", "S") in forms:
                need = [(f, f) for f in FORMS3] + [(f, "S") for f in FORMS3] + [("S", f) for f in FORMS3]
                have_any_matrix = any(f1 != "S" or f2 != "S" for (f1, f2) in forms)
                if have_any_matrix:
                    for nf in need:
                        rep.check(nf in forms, "C01-R1", "%s:%s:%sx%s" % (fam, kind, nf[0], nf[1]),
                                  "%s accepts %s scalars but has no arm for %s x %s operands of that kind" % (fam, kind, nf[0], nf[1]), "%s (%s)" % (fam, dkey[0]))
                    for nf in (("MD", "*"), ("*", "MD")):
                        rep.check(nf in forms, "C01-R1", "%s:%s:%sx%s" % (fam, kind, nf[0], nf[1]),
                                  "%s has no matrix x row/column-vector broadcast arm for kind %s" % (fam, kind), "%s (%s)" % (fam, dkey[0]))
                else:
                    rep.note("scalar_only_kinds", "%s:%s" % (fam, kind))
            for (f1, f2), a in sorted(forms.items()):
                # the structs this arm can return
                bs = boxed_structs(a.body)
                sub = []
                if "*" in (f1, f2):
                    # inner match on the other operand's storage form
                    for m in find(a.body, "match"):
                        for ia in m[2]:
                            if ia[0][0] == "pts" and ia[0][1].startswith("Matrix::"):
                                ff = FORM_ABBR.get(ia[0][1].split("::")[-1])
                                for s in boxed_structs(ia[2]):
                                    sub.append(((f1 if f1 != "*" else ff, f2 if f2 != "*" else ff), s))
                else:
                    sub = [((f1, f2), s) for s in bs]
                if not rep.check(len(sub) >= 1, "C01-R2", "%s:%s:%sx%s:constructs" % (fam, kind, f1, f2), "arm constructs no function struct", "%s (%s)" % (fam, dkey[0])):
                    continue
                for (g1, g2), s in sub:
                    sname = s[1]
                    fs = struct_by_name.get(sname)
                    key = "%s:%s:%sx%s->%s" % (fam, kind, g1, g2, sname)
                    if fs is None or fs.solve is None:
                        rep.bad("C01-R2", key, "arm constructs %s which is not a known function struct" % sname, "%s (%s)" % (fam, dkey[0]))
                        continue
                    ft = dict(fs.fields)
                    fl, fr, fo = form_of_type(ft.get("lhs", "")), form_of_type(ft.get("rhs", "")), form_of_type(ft.get("out", ""))
                    okf = (fl, fr) == (g1, g2) and fo == broadcast_form(g1, g2)
                    rep.check(okf, "C01-R2", key,
                              "arm for (%s, %s) operands constructs %s whose operand/output storage is (%s, %s) -> %s (expected (%s, %s) -> %s)" % (g1, g2, sname, fl, fr, fo, g1, g2, broadcast_form(g1, g2)),
                              "%s (%s)" % (sname, fs.crate), sample={"arm": "(%s %s, %s %s)" % (kind, g1, kind, g2), "struct": sname, "fields": fs.fields})
                    # R3 kernel (once per struct x operator)
                    kk = kernel_of(fs)
                    k3 = "%s:%s" % (sname, op)
                    if isinstance(kk, Unrecognised):
                        if sname not in unrec:
                            unrec.append(sname)
                            rep.note("unrecognised_kernels", {"struct": sname, "why": str(kk)})
                    elif (("C01-R3", k3) not in rep.instances) and not any(v["key"] == "C01-R3|" + k3 for v in rep.violations):
                        n_kernels += 1
                        why = check_binop_kernel(kk, op, g1, g2)
                        rep.check(why is None, "C01-R3", k3,
                                  "%s (reached from operator %s via %s): %s" % (sname, var, nfc, why), "%s (%s)" % (sname, fs.crate),
                                  sample={"struct": sname, "operator": var, "normal_form": [repr(e) for e in kk.effects]})
                    # R4 shape guard
                    if g1 != "S" and g2 != "S" and not isinstance(kk, Unrecognised):
                        k4 = "%s:%sx%s" % (sname, g1, g2)
                        if ("C01-R4", k4) not in rep.instances and not any(v["key"] == "C01-R4|" + k4 for v in rep.violations):
                            guard = arm_has_shape_guard(a)
                            asserting = shape_asserting(kk)
                            tt, ttd = shape_guard_truth_table(a, g1, g2)
                            if tt in ("misses", "rejects-equal") and not (asserting and tt == "misses"):
                                rep.bad("C01-R4", k4 + ":guard-" + tt,
                                        "%s: the dispatch arm's shape guard %s (%s): %s" % (
                                            sname, "lets operands of different shape through to a kernel that does not assert equal shapes" if tt == "misses" else "rejects operands of EQUAL shape",
                                            ttd, "operands of incompatible shape yield a value instead of an error" if tt == "misses" else "valid operands are refused"), "%s (%s)" % (sname, fs.crate))
                                continue
                            if tt == "exact":
                                n_tt[0] += 1
                            rep.check(guard or asserting, "C01-R4", k4,
                                      "%s: operands of form %s and %s both carry a runtime shape, but the dispatch arm compares no shapes and the kernel (%s) does not assert equal shapes: operands of different size yield a value instead of an error" % (
                                          sname, g1, g2, "; ".join(repr(e) for e in kk.effects)[:160]), "%s (%s)" % (sname, fs.crate),
                                      sample={"struct": sname, "guard_in_arm": guard, "guard_truth_table": [tt, ttd], "shape_asserting_kernel": asserting})
    rep.floor("C01-R3", "binary kernels normalised and compared with the oracle", n_kernels, 150)
    # ---- R8: the output buffer an arm allocates has the operand's shape (unary and binary arms with a dynamic output form)
    rep.rule("C01-R8", "output allocation: `<DForm>::from_element(shape.., default)` in a dispatch arm is given the shape of the (equal-shaped) matrix operand(s), decided over the finite shape table")
    n8 = 0
    seen8 = set()
    for dkey, arms in sorted(disp.items()):
        for a in arms:
            forms8 = [p_[1] for p_ in a.pats]
            if not (1 <= len(forms8) <= 2) or "*" in forms8 or not any(f in FORM_DOMAIN for f in forms8):
                continue
            v8, d8 = out_allocation_table(a, forms8)
            if v8 in ("none", "uninterpretable"):
                continue
            k8 = "%s:%s:%s" % (dkey[1], "/".join(str(p_[0]) for p_ in a.pats), "x".join(forms8))
            if k8 in seen8:
                continue
            seen8.add(k8)
            n8 += 1
            rep.check(v8 == "exact", "C01-R8", k8,
                      "%s, arm (%s): the output buffer is allocated with the wrong shape (%s): the result does not have the operand's shape and the element-wise kernel silently truncates or pads" % (dkey[1], ", ".join("%s %s" % (p_[0], p_[1]) for p_ in a.pats), d8),
                      "%s (%s)" % (dkey[1], dkey[0]), sample={"dispatcher": dkey[1], "forms": forms8, "verdict": d8})
    rep.floor("C01-R8", "output allocations decided over the shape table", n8, 100)
    rep.floor("C01-R4", "shape guards decided exactly over the finite shape table", n_tt[0], 40)
    if unrec:
        rep.bad("C01-R3", "unrecognised-kernels:%s" % ",".join(sorted(unrec)), "kernels the normal-form evaluator cannot read (extend the idiom table): %s" % unrec)

    # ---- R6: operand positions preserved by NativeFunctionCompiler::compile (incl. the MutableReference fallback arms)
    rep.rule("C01-R6", "NativeFunctionCompiler::compile hands (first, second) operand to the dispatcher in that order in every arm (non-commutative operators)")
    npos_total = 0
    done = set()
    resolvers = {}
    for var, op, nfc, dkey in families:
        if op in COMMUTATIVE or op == "xor" or nfc in done:
            continue
        done.add(nfc)
        crate = dkey[0] + ".lib"
        for it in F.syn(crate):
            if it["k"] == "method" and it["name"] == "compile" and it["trait"] and last_seg(it["trait"]) == "NativeFunctionCompiler" and X.type_head(it["self"]) == nfc:
                if crate not in resolvers:
                    resolvers[crate] = fn_resolver(F, [crate, "mech_core.lib"])
                npos_total += operand_forwarding(rep, "C01-R6", "%s::compile (%s)" % (nfc, crate), it, r"_fxn$", "%s::compile" % nfc, resolve=resolvers[crate])
    rep.floor("C01-R6", "operand-forwarding arms in non-commutative operator compilers", npos_total, 20)

    # ---- unary operators (factor): Negate / Not
    for nfc, op in UNARY_ORACLE.items():
        root = [f for f in cg.bodies if re.match(r"<.*::%s as mech_core::functions::NativeFunctionCompiler>::compile$" % re.escape(nfc), f)]
        if not rep.check(len(root) == 1, "C01-R3", "nfc:%s" % nfc, "native compiler %s not found" % nfc):
            continue
        reach = cg.reach(root)
        seen = set()
        for f in reach:
            b = cg.bodies.get(f)
            if not b:
                continue
            for i, s in b.aggs():
                nm = s["adt"].split("::")[-1]
                fs = struct_by_name.get(nm)
                if fs and fs.solve is not None and "arg" in dict(fs.fields) and nm not in seen and not re.match(r"<.*%s.* as " % nm, f):
                    seen.add(nm)
                    kk = kernel_of(fs)
                    if isinstance(kk, Unrecognised):
                        rep.bad("C01-R3", "unrecognised-kernels:%s" % nm, "kernel not recognised: %s" % kk)
                        continue
                    ws = [e for e in kk.effects if e.kind == "write"]
                    why = None
                    if len(ws) != 1 or len(kk.effects) != 1:
                        why = "expected exactly one write"
                    else:
                        w = ws[0]
                        v = w.value
                        if root_of(w.target) != "out":
                            why = "does not write the output"
                        elif not (isinstance(v, tuple) and v[0] == "un" and v[1] == op and roots_in(v[2]) == {"arg"}):
                            why = "value is %s, expected %sarg" % (show(v), op)
                        elif v[2][0] == "elem" and w.target[0] == "elem" and v[2][2] != w.target[2]:
                            why = "argument read at %s, output written at %s" % (show(v[2]), show(w.target))
                    rep.check(why is None, "C01-R3", "%s:unary%s" % (nm, op), "%s (unary %s via %s): %s" % (nm, op, nfc, why), "%s (%s)" % (nm, fs.crate),
                              sample={"struct": nm, "normal_form": [repr(e) for e in kk.effects]})
        rep.floor("C01-R3", "unary kernels for %s" % nfc, len(seen), 2)

    rep.analysed = {"operator_families": len(families), "dispatch_tables": len(disp), "function_structs": len(S), "kernels_normalised": len([k for k in kernels.values() if not isinstance(k, Unrecognised)])}
    from rules.k2_targets import run_k2
    run_k2(F, rep, "C01", "C01-R7")
    run_r9(F, rep)
    from rules import c01_predispatch
    c01_predispatch.run(F, rep)   # R10: no error exit in front of the dispatch table


OPS = {"Add": "+", "Sub": "-", "Mul": "*", "Div": "/", "Rem": "%", "AddAssign": "+=", "SubAssign": "-=", "MulAssign": "*=", "DivAssign": "/=", "Neg": "-",
       "PartialEq": "==", "PartialOrd": "partial_cmp", "Ord": "cmp", "Eq": None}


def run_r9(F, rep):
    """C01-R9: the exact element kind (R64) takes its operators from the wrapped exact number"""
    rep.rule("C01-R9", "scalar semantics of the exact kind: every arithmetic / comparison operator impl of the newtype R64 applies that same operator to the wrapped Rational64 of its "
                       "operand(s) (`self.0 op other.0`, derived impls included) and calls nothing else - a detour through f64 (to_f64, as f64) makes rationals closer than f64 resolution "
                       "compare or combine like floats in every kernel, shape and broadcast form at once")
    n = 0
    for it in F.syn("mech_core.lib"):
        if it["k"] != "method" or (it.get("self") or "").replace(" ", "") != "R64" or not it.get("trait") or not it.get("body"):
            continue
        tr = re.sub(r"<.*$", "", it["trait"]).split("::")[-1]
        if tr not in OPS or OPS[tr] is None:
            continue
        n += 1
        body = it["body"]
        calls = [m[2] for m in find(body, "mcall")] + [(path_of(c[1]) or "?").split("::")[-1] for c in find(body, "call")]
        allowed = {it["name"], "R64", "Some"}
        extra = sorted(c for c in calls if c not in allowed)
        casts = [render(c)[:30] for c in find(body, "cast")]
        # operands: only `.0` of self / other
        fields = {render(f) for f in find(body, "field")}
        operands = {"self"} | set(params_of_type(it, r"."))        # the receiver and whatever the signature calls the other operand
        ok_fields = fields <= {"%s.0" % o for o in operands}
        sym = OPS[tr]
        has_op = sym in ("partial_cmp", "cmp") or any((b[1] == sym) for b in find(body, "bin")) or (tr == "Neg" and any(u[1] == "-" for u in find(body, "un")))
        if sym in ("partial_cmp", "cmp"):
            has_op = it["name"] in calls
        ok = not extra and not casts and ok_fields and has_op
        rep.check(ok, "C01-R9", "R64:%s::%s" % (tr, it["name"]) if ok else "R64:%s::%s:%s" % (tr, it["name"], re.sub(r"\W+", "-", ("calls-" + ",".join(extra)) if extra else ("casts" if casts else "not-a-delegation"))[:40]),
                  "R64's %s::%s is `%s`: it does not simply apply %s to the wrapped rationals (calls %s, casts %s) - exact rational %s is replaced by something else for every matrix form and kernel" % (
                      tr, it["name"], render(["block", body])[:80], sym, extra, casts, "ordering" if tr in ("PartialOrd", "Ord") else "arithmetic"),
                  "R64 (mech_core.lib)", sample={"trait": tr, "body": render(["block", body])[:80]})
    rep.floor("C01-R9", "operator impls of R64 examined", n, 11)
