"""Length admissibility of structured patterns (C16-R11 / C17-R8) - a finite truth table over lengths.

A match arm / function arm / state-machine arm is chosen by the FIRST pattern that matches, so a structured pattern that matches values of the
wrong length makes an earlier arm win over the arm that fits.  For every arm `Pattern::V(binder)` of the interpreter that PAIRS the sub-pattern
lists of `binder` (the `Vec<Pattern>` fields of V's payload struct, by type) with a list of values (`zip`), the rule collects

  * reach    - the path conditions under which the arm is entered,
  * proceeds - the path conditions of every `Ok(<true / condition>)` the arm produces after the pairing (guard clauses, nested ifs, `&&`/`||`,
               `checked_sub` / `saturating_sub`, `is_none()`, `if let Some(..)`, named locals, `match` on an Option - all read as conditions by
               lib/synq.Flow and the small evaluator below; element-wise matching and everything else that cannot be evaluated over lengths is assumed
               to succeed),

and evaluates both for every combination of list lengths 0..4 (each sub-pattern list, the value list) and spread present / absent.  Wherever the arm
is reached it must succeed exactly when the lengths are admissible:

  no absorbing element (tuple, argument list, tuple-struct):   sum(len(sub-pattern lists)) + reserved == len(values)
  payload with an optional absorber (array `..` spread):       present: sum + reserved <= len(values)      absent: sum + reserved == len(values)

`reserved` = elements of the value list skipped by a constant `.skip(k)` (the tag of a tuple-struct).  The rule knows no function, local or helper by
name: lists and absorber come from the ADT of the payload struct, the value list is whatever the other `zip` operand iterates."""
import itertools
from lib.facts import find, is_node, path_of, render, render_pat
from lib import synq as Q

CRATE = "mech_interpreter.lib"
LENS = range(0, 5)
LENGTH_PRESERVING = {"map", "enumerate", "inspect", "peekable", "fuse", "by_ref"}      # adaptors that yield exactly one item per item
PASS = {"iter", "iter_mut", "into_iter", "as_slice", "borrow", "borrow_mut", "clone", "as_ref", "as_mut", "to_vec", "cloned", "copied", "by_ref", "deref", "as_deref"}


def payloads(adts, enum_suffix="nodes::Pattern"):
    """variant -> (list fields, optional-absorber fields) of its payload struct, by field type"""
    enum, structs = None, {}
    for a in adts:
        if a["enum"] and a["name"].endswith(enum_suffix):
            enum = a
        if not a["enum"]:
            structs[a["name"]] = a
    out = {}
    if enum is None:
        return None, out
    ename = enum_suffix.split("::")[-1]
    for v in enum["variants"]:
        if len(v["fields"]) != 1:
            continue
        st = structs.get(v["fields"][0][1].replace("alloc::boxed::Box<", "").split(",")[0])
        if st is None:
            continue
        lists = [f[0] for f in st["variants"][0]["fields"] if f[1].startswith("alloc::vec::Vec<") and ("::" + ename) in f[1].split(",")[0]]
        opts = [f[0] for f in st["variants"][0]["fields"] if f[1].startswith("core::option::Option<")]
        if lists:
            out[v["name"]] = (lists, opts)
    return ename, out


class Lengths:
    """three-valued evaluation of conditions over list lengths; None = not a statement about lengths"""

    def __init__(self, sc):
        self.sc = sc
        self.env = {}

    def key(self, e, depth=4):
        """the list an expression denotes: (Binding at its root, fields on the way), through references, iterator adaptors and aliases"""
        spine = []
        while is_node(e):
            if e[0] == "ref" or (e[0] == "un" and e[1] == "*"):
                e = e[2]
            elif e[0] in ("try", "cast"):
                e = e[1]
            elif e[0] == "mcall" and e[2] in PASS:
                e = e[1]
            elif e[0] == "field":
                spine.append(e[2])
                e = e[1]
            else:
                break
        b = self.sc.binding(e)
        if b is None:
            return None
        spine = tuple(reversed(spine))
        if self.sc.stable(b) and depth > 0:
            k = self.key(b.src, depth - 1)
            if k is not None:
                return (k[0], k[1] + spine)
        return (b, spine)

    def ev(self, e, depth=12):
        if not is_node(e) or depth <= 0:
            return None
        r = lambda x: self.ev(x, depth - 1)
        t = e[0]
        if t == "int":
            try:
                return int(str(e[1]))
            except ValueError:
                return None
        if t == "bool":
            return bool(e[1])
        if t == "ref" or (t == "un" and e[1] == "*"):
            return r(e[2])
        if t in ("try", "cast"):
            return r(e[1])
        if t == "un" and e[1] == "!":
            v = r(e[2])
            return (not v) if isinstance(v, bool) else None
        if t in ("block", "unsafe"):
            st = e[1]
            if st and st[-1][0] == "expr" and not st[-1][2] and all(s[0] == "let" for s in st[:-1]):
                return r(st[-1][1])
            return None
        if t == "bin":
            op = e[1]
            a, b = r(e[2]), r(e[3])
            if op in ("&&", "||"):
                if not (isinstance(a, bool) or a is None) or not (isinstance(b, bool) or b is None):
                    return None
                if op == "&&":
                    return False if (a is False or b is False) else True if (a is True and b is True) else None
                return True if (a is True or b is True) else False if (a is False and b is False) else None
            if not (isinstance(a, int) and isinstance(b, int)) or isinstance(a, bool) != isinstance(b, bool):
                return None
            if op in ("==", "!=", "<", "<=", ">", ">="):
                return {"==": a == b, "!=": a != b, "<": a < b, "<=": a <= b, ">": a > b, ">=": a >= b}[op]
            if isinstance(a, bool):
                return None
            if op == "+":
                return a + b
            if op == "*":
                return a * b
            if op == "-":
                return a - b if a >= b else None      # usize underflow: not a value
            return None
        if t == "field":
            k = self.key(e)
            if k in self.env and isinstance(self.env[k], bool):
                return ("some", None) if self.env[k] else "none"
            return None
        if t == "mcall":
            m, args = e[2], e[4]
            if m in ("len", "is_empty") and not args:
                k = self.key(e[1])
                v = self.env.get(k) if k is not None else None
                if not isinstance(v, int) or isinstance(v, bool):
                    return None
                return v if m == "len" else v == 0
            if m in ("is_none", "is_some") and not args:
                v = r(e[1])
                if v == "none" or (isinstance(v, tuple) and v[0] == "some"):
                    return (v == "none") == (m == "is_none")
                return None
            if m in ("checked_sub", "saturating_sub", "checked_add", "min", "max", "wrapping_sub") and len(args) == 1:
                a, b = r(e[1]), r(args[0])
                if not (isinstance(a, int) and isinstance(b, int)) or isinstance(a, bool) or isinstance(b, bool):
                    return None
                if m == "checked_sub":
                    return ("some", a - b) if a >= b else "none"
                if m == "checked_add":
                    return ("some", a + b)
                if m == "saturating_sub":
                    return max(0, a - b)
                if m == "wrapping_sub":
                    return a - b if a >= b else None
                return min(a, b) if m == "min" else max(a, b)
            if m in ("unwrap", "expect", "unwrap_or", "unwrap_or_default"):
                v = r(e[1])
                if isinstance(v, tuple) and v[0] == "some":
                    return v[1]
                if v == "none" and m == "unwrap_or" and args:
                    return r(args[0])
                if v == "none" and m == "unwrap_or_default":
                    return 0
                return None
            if m in PASS and not args:
                return r(e[1])
            return None
        if t == "call":
            p = path_of(e[1])
            if p == "Some" and len(e[2]) == 1:
                return ("some", r(e[2][0]))
            if p == "Ok" and len(e[2]) == 1:
                return r(e[2][0])
            return None
        if t == "path":
            if isinstance(e[1], str) and e[1].split("::")[-1] == "None":
                return "none"
            b = self.sc.binding(e)
            if b is None or b.assigns:
                return None
            if b.kind == "let" and b.src is not None:
                return r(b.src)
            if b.kind == "pat" and b.src is not None and len(Q.pidents(b.pat)) == 1 and Q._pat_kind(b.pat) == "some":
                v = r(b.src)
                return v[1] if isinstance(v, tuple) and v[0] == "some" else None
            return None
        if t in ("letc", "marm"):
            pat, val = (e[1], e[2]) if t == "letc" else (e[2], e[1])
            return self.matches(pat, r(val))
        if t == "match":
            v = r(e[1])
            for a in e[2]:
                m = self.matches(a[0], v)
                if m is None:
                    return None
                if m:
                    if a[1] is not None:
                        return None
                    return r(a[2])
            return None
        if t == "if":
            c = r(e[1])
            if c is True:
                return r(["block", e[2]])
            if c is False and e[3] is not None:
                return r(e[3])
            return None
        return None

    def matches(self, pat, v):
        """does value v match pattern `pat`: True / False / None"""
        while is_node(pat) and pat[0] in ("pref", "ptype"):
            pat = pat[2] if pat[0] == "pref" else pat[1]
        if not is_node(pat) or v is None:
            return None
        if pat[0] == "pwild" or (pat[0] == "pident" and not pat[1][:1].isupper() and pat[4] is None):
            return True
        k = Q._pat_kind(pat)
        if k == "some":
            return isinstance(v, tuple) and v[0] == "some" if (v == "none" or isinstance(v, tuple)) else None
        if k == "none":
            return v == "none" if (v == "none" or isinstance(v, tuple)) else None
        if isinstance(k, bool):
            return v == k if isinstance(v, bool) else None
        return None

    def holds(self, facts):
        """no fact is definitely violated"""
        for c, pol in facts:
            v = self.ev(c)
            if isinstance(v, bool) and v != pol:
                return False
        return True


def _zip_sides(L, z, binder, lists):
    """(pattern-side field, value-side operand) of a zip one of whose operands iterates a sub-pattern list of `binder`"""
    ops = [z[1], z[4][0]]
    for i, o in enumerate(ops):
        base = o
        while is_node(base) and base[0] == "mcall":
            base = base[1]
        k = L.key(base)
        if k is not None and k[0] is binder and len(k[1]) == 1 and k[1][0] in lists:
            return k[1][0], ops[1 - i]
    return None


def _value_base(L, o):
    """(key of the iterated value list, elements skipped by a constant) of a value-side operand: `V.iter()`, `V.iter().skip(1)`, `V[a..].iter()`"""
    reserved = 0
    hops = 0
    while is_node(o):
        if o[0] == "mcall" and o[2] in LENGTH_PRESERVING:
            o = o[1]
        elif o[0] == "path" and hops < 4 and L.sc.stable(L.sc.binding(o)) and is_node(L.sc.binding(o).src) and L.sc.binding(o).src[0] == "mcall" \
                and L.sc.binding(o).src[2] in (LENGTH_PRESERVING | PASS | {"skip"}):
            o = L.sc.binding(o).src      # a named iterator (`let payload_values = xs.iter().skip(1)..`) stands for its initialiser
            hops += 1
        elif o[0] == "mcall" and o[2] == "skip" and len(o[4]) == 1:
            k = L.ev(o[4][0])
            if not isinstance(k, int):
                return None, 0
            reserved += k
            o = o[1]
        elif o[0] == "mcall" and o[2] in PASS:
            o = o[1]
        elif o[0] == "ref" or (o[0] == "un" and o[1] == "*"):
            o = o[2]
        elif o[0] == "index":
            rng = o[2]
            if is_node(rng) and rng[0] == "range" and rng[1] is not None and rng[2] is None and is_node(rng[1]) and rng[1][0] == "int":
                reserved += int(rng[1][1])
            o = o[1]
        else:
            break
    return L.key(o), reserved


def _ok_sites(flow):
    """[(condition or True, facts)] for every `Ok(x)` evaluated: x == true -> success, false -> no success, otherwise success when x holds"""
    out = []
    for node, facts in flow.sites.values():
        if node[0] == "call" and path_of(node[1]) == "Ok" and len(node[2]) == 1:
            x = node[2][0]
            if is_node(x) and x[0] == "bool":
                if x[1]:
                    out.append((None, facts))
            else:
                out.append((x, facts))
    return out


def _variant_binder(pat, ename, pay):
    """(variant, binder name) when `pat` is `Pattern::V(binder)` for a variant with sub-pattern lists"""
    while is_node(pat) and pat[0] in ("pref", "ptype"):
        pat = pat[2] if pat[0] == "pref" else pat[1]
    if not is_node(pat) or pat[0] != "pts" or not pat[1].startswith(ename + "::") or len(pat[2]) != 1 or not is_node(pat[2][0]) or pat[2][0][0] != "pident":
        return None
    var = pat[1].split("::")[-1]
    return (var, pat[2][0][1]) if var in pay else None


def binder_regions(body, ename, pay):
    """every place a function takes a structured pattern apart: (owner of the binding, entry node, variant, binder name, region executed with the binder in scope)
    - a `match` arm, the then-branch of an `if let`, or the statements that follow a `let .. else`"""
    out = []
    for m in find(body, "match"):
        for arm in m[2]:
            p = arm[0]
            for alt in (p[1] if is_node(p) and p[0] == "por" else [p]):
                vb = _variant_binder(alt, ename, pay)
                if vb is not None:
                    out.append((arm, m, vb[0], vb[1], arm[2]))
    for f in find(body, "if"):
        c = f[1]
        if is_node(c) and c[0] == "letc":
            vb = _variant_binder(c[1], ename, pay)
            if vb is not None:
                out.append((c, f, vb[0], vb[1], f[2]))
    lists = [body] + [b[1] for b in find(body, "block")] + [b[2] for b in find(body, "if")] + [b[3] for b in find(body, "for")]
    for stmts in lists:
        if not Q.is_stmt_list(stmts):
            continue
        for i, st in enumerate(stmts):
            if st[0] == "let" and len(st) > 3 and st[3] is not None and st[2] is not None:
                vb = _variant_binder(st[1], ename, pay)
                if vb is not None:
                    out.append((st, st[2], vb[0], vb[1], stmts[i + 1:]))
    return out


def length_admissibility(F, rep, rule, floor=5):
    rep.rule(rule, "length admissibility of structured patterns: wherever an arm `Pattern::V(b)` that pairs b's sub-pattern lists with a value list (zip) is reached, it can succeed exactly "
                   "when sum(len(sub-pattern lists)) + skipped == len(values) - or <= when V's payload has an optional absorber (array spread) and it is present; decided by evaluating "
                   "the arm's path conditions for all lengths 0..4 (a pattern that also matches longer / shorter values lets an earlier arm win over the arm that fits)")
    items = F.syn(CRATE)
    fns = Q.Fns(items)
    ename, pay = payloads(F.adts("mech_core.lib"))
    if not rep.check(bool(pay), rule, "anchor:Pattern payloads", "enum nodes::Pattern / its payload structs not found"):
        return
    # functions that pair two sequences themselves, and the ones that may do so through a private helper (followed with its parameters bound at the call)
    zips = {it["name"] for it in items if it["k"] == "fn" and it.get("body") and any(z[2] == "zip" for z in find(it["body"], "mcall"))}
    private_zips = {it["name"] for it in items if it["k"] == "fn" and it.get("body") and it["name"] in zips and Q.is_private(it)}

    def may_pair(it):
        if it["name"] in zips and any(z[2] == "zip" for z in find(it["body"], "mcall")):
            return True
        return any((path_of(c[1]) or "").split("::")[-1] in private_zips for c in find(it["body"], "call"))

    n = 0
    for it in items:
        if it["k"] != "fn" or not it.get("body") or (ename + "::") not in render(["block", it["body"]]) or not may_pair(it):
            continue
        regions = binder_regions(it["body"], ename, pay)
        if not regions:
            continue
        sc = Q.Scope(fns).add_fn(it)
        from lib import synverdict as V
        flow = Q.Flow(it["body"]).run(want=V.ALL)
        leaves, _fl = V.value_leaves(it["body"], [], sc)
        leaf_ids = {id(V.unwrap_result(e)) for e, _f in leaves}
        for owner, entry, var, bname, tree in regions:
            n += check_arm(rep, rule, it, sc, flow, entry, owner, bname, var, pay[var], tree, leaf_ids)
    rep.floor(rule, "pattern arms that pair sub-pattern lists with values", n, floor)


def check_arm(rep, rule, it, sc, flow, entry_node, owner, bname, var, payload, tree, leaf_ids=()):
    from lib import synverdict as V
    lists, opts = payload
    binder = [b for b in sc.decl.get(id(owner), []) if b.name == bname]
    if not binder:
        return 0
    binder = binder[0]
    L = Lengths(sc)
    # pairing sites of this arm, with the path conditions at each
    sites = []       # (field, value key, reserved, facts)
    flows = [(flow, tree, True)]
    # a private helper that receives (a part of) the binder and does the pairing: its body, entered under the conditions of the call, with its parameters
    # bound to the arguments - once per call.  Its results are results of the ARM only where the call stands in result position.
    for c in find(tree, "call"):
        h = fns_callee(sc, c, it)
        if h is None or id(c) not in flow.sites or not any(sc.root(a) is binder for a in c[2]):
            continue
        body = sc.inline(c, h)
        if body is not None and any(z[2] == "zip" for z in find(body, "mcall")):
            flows.append((Q.Flow(body, flow.sites[id(c)][1]).run(want=V.ALL), body, id(c) in leaf_ids))
    exits = []       # (condition, facts)
    for fi, (fl, tr, verdicts) in enumerate(flows):
        inside = {id(x) for x in Q.walk_no_closure(tr)}
        for node, facts in fl.sites.values():
            if id(node) not in inside:
                continue
            if node[0] == "mcall" and node[2] == "zip" and node[4]:
                s = _zip_sides(L, node, binder, lists)
                if s is not None:
                    vk, res = _value_base(L, s[1])
                    sites.append((s[0], vk, res, facts, node))
            elif fi == 0 and node[0] == "call" and id(node) in leaf_ids and path_of(node[1]) not in ("Ok", "Err", "Some"):
                exits.append((None, facts))          # the verdict is delegated (recursion on a sub-pattern, a helper): it can succeed
        if verdicts:
            for cond, facts in _ok_sites(fl):
                exits.append((cond, facts))

    def through(e, s):
        """every condition of pairing site s also holds at exit e: the exit lies behind the pairing"""
        have = {(id(c), pol) for c, pol in e[1]}
        return all((id(c), pol) in have for c, pol in s[3])
    exits = [e for e in exits if any(through(e, s) for s in sites)]
    if not sites:
        return 0
    vkeys = {s[1] for s in sites}
    if None in vkeys or len(vkeys) != 1:
        # the pairing is there, in a form whose value list is not recognised: counts as an examined arm (two discharged obligations like a decided arm), raises nothing
        rep.note("undecided", {"rule": rule, "fn": it["name"], "arm": var, "why": "the sub-pattern lists are paired with %d different / unrecognised value lists" % len(vkeys)})
        rep.obligations += 2
        rep.discharged += 2
        return 1
    vkey = vkeys.pop()
    vname = ".".join(vkey[1]) or "-"
    key = "%s/%s" % (var, vname)
    # exits reached through the pairing: every condition of some pairing site also holds at the exit
    entry = flow.sites.get(id(entry_node), (None, []))[1]
    if not rep.check(bool(exits), rule, key + ":success-exit", "%s: the %s arm pairs sub-patterns with values but no `Ok(..)` result follows the pairing" % (it["name"], var),
                     "%s (mech_interpreter.lib)" % it["name"]):
        return 1
    reserved = max(s[2] for s in sites)
    keys = [(binder, (f,)) for f in lists] + [vkey] + [(binder, (o,)) for o in opts[:1]]
    accepts, rejects = None, None
    rows = 0
    for combo in itertools.product(*([LENS] * (len(lists) + 1) + ([[False, True]] if opts else []))):
        L.env = dict(zip(keys, combo))
        if not L.holds(entry):
            continue
        rows += 1
        total = sum(combo[:len(lists)]) + reserved
        nval = combo[len(lists)]
        absorber = bool(opts) and combo[-1]
        expected = total <= nval if absorber else total == nval
        proceeds = any(L.holds(f) and (c is None or L.ev(c) is not False) for c, f in exits)
        if proceeds and not expected and accepts is None:
            accepts = describe(lists, opts, combo)
        if expected and not proceeds and rejects is None:
            rejects = describe(lists, opts, combo)
    ok = accepts is None and rejects is None and rows > 0
    why = "accepts-inadmissible-lengths" if accepts else "rejects-admissible-lengths" if rejects else "never-reached"
    rep.check(ok, rule, key if ok else key + ":" + why,
              "%s: the %s arm (values: `%s`) %s - required: %s%s == len(values)%s. A structured pattern that matches a value of the wrong length wins over the later arm that fits." % (
                  it["name"], var, vname,
                  ("succeeds for " + accepts) if accepts else ("cannot succeed for " + rejects) if rejects else "is never reached for lengths 0..4",
                  " + ".join("len(%s)" % f for f in lists), (" + %d" % reserved) if reserved else "",
                  (" (<= when `%s` is present)" % opts[0]) if opts else ""),
              "%s (mech_interpreter.lib)" % it["name"], sample={"fn": it["name"], "arm": var, "lists": lists, "absorber": opts[:1], "values": vname, "reserved": reserved, "rows": rows})
    return 1


def fns_callee(sc, c, it):
    h = sc.fns.callee(c, it["mod"]) if sc.fns is not None else None
    return h if h is not None and Q.is_private(h) and h is not it else None


def describe(lists, opts, combo):
    parts = ["len(%s)=%d" % (f, combo[i]) for i, f in enumerate(lists)] + ["len(values)=%d" % combo[len(lists)]]
    if opts:
        parts.append("%s %s" % (opts[0], "present" if combo[-1] else "absent"))
    return ", ".join(parts)
